"""C09 - stage-level parallelism is indistinguishable from sequential execution.

(a) `run_parallel` under HARNESS-OWNED schedules: every thunk blocks on its own Event; a controller releases the
    running thunks by a priority permutation, so each completion order reachable with w workers is produced
    deterministically (exhaustive for n <= 5, Hypothesis-sampled up to n = 7, plus free-running pools under
    sys.setswitchinterval(1e-6)).  Oracle = reference model written from the docstring (harness/models/parallel.py).
(b) T1 fan-out across graphs: parallel on vs off on equal worlds, stage cache off/on, completion order of the
    per-graph tasks forced through a store proxy gating `get_graph`.
(c) T2 fan-out across in-memory shards, end to end: parallel on vs off, completion order of the shard tasks forced.
"""
from __future__ import annotations

import copy
import itertools
import random
import sys
import threading
from types import SimpleNamespace

from hypothesis import strategies as st

from harness.runner import Sub, Violation, run_hypothesis, digest
from harness import world
from harness.models import parallel as pref

LEVEL = "exploration"
RULE = ("(a) run_parallel with gated thunks: tasks 0-7; keys int / tuple / mixed types incl. equal-comparing (1, 1.0, True), "
        "unorderable and unhashable ones (None, str, dict) under order keys that make them comparable; duplicates; every failing "
        "subset with 8 Exception shapes (nested ParallelError, two-argument, empty / identical messages) and BaseException "
        "subclasses; results None / falsy / exception instances as VALUES; merge_fn returning an object / None / [] / 0; tasks as "
        "list or tuple; workers 0-8 (and -2); the controller realises every completion order reachable with w workers (all of them "
        "for n<=5 x all failing subsets x worker counts 0-8 [quick tier: for n=5 the counts 6,7 are left out, same pool size as 5 "
        "and 8; thorough tier: n<=6, all counts]; sampled for n=6,7; free-running pools under switch interval 1e-6). Non-trivial = "
        ">=2 tasks and thunk completion order != submission order. "
        "(b) T1: 0-13 generated graphs (node ids shared between graphs), active-graph list with a graph named twice / a graph the "
        "store does not hold, 1-3 calls on one engine state (stage cache off / LRU / size-aware, smaller than the fan-out), perf.t1 "
        "caps, scheduler slice caps, other perf.parallel leaves, store failures inside the per-graph tasks of 1..all graphs (last "
        "call), parallel (2-16 workers, forced completion order, plus free-running pools) vs sequential (5 ways of closing the "
        "gate). Non-trivial = >=2 graphs seeded and completion order != graph order. "
        "(c) T2: 0-30 episodes, tiers/k/threshold/owner scope/recency/top-m/ranking weights/backend name varied, quality / MMR / "
        "hybrid (GEL) layers, perf gate x metrics gate, stage cache with the compared request issued before, earlier queries on the "
        "same index, episode ids stored more than once (same or other shard, same or other content), parallel (2-8 workers, forced "
        "order, plus free-running pools) vs sequential. "
        "Non-trivial = >=2 shards and hits from >=2 shards. Distinct = digest of the case (exhaustive enumeration: distinct by "
        "construction).")
ASSUMPTIONS = [
    "completion order = order in which thunk bodies end; the harness releases one gated thunk at a time and waits "
    "for its body to end before releasing the next (Event/Condition hand-shakes; timeouts only as deadlock guards "
    "that raise a harness error, or as scheduling grace periods that never enter a verdict)",
    "pool size as documented: min(max_workers, len(tasks)) FIFO workers; max_workers <= 1 runs in the caller thread",
    "merge_fn spy is pure (returns a fresh object or None / [] / 0); returned value must be that object",
    "a task failing with a BaseException that is not an Exception: only 'nothing merged, nothing returned, plain loop stops there' "
    "is demanded (type / aggregation of the raised error are not documented)",
    "T1/T2: the gated observability metrics parallel_workers/task_count (T1) and t2.task_count/t2.parallel_workers/"
    "t2.partition_count (T2) are excluded from the comparison as documented (they describe the execution mode)",
    "T1 with a failing per-graph task: both paths must raise; IF the parallel path exposes aggregated task failures "
    "(.errors) they must be all failing tasks in active-graph order; what the stage cache holds after a failed call is not compared",
    "T1 graph listed twice only with the stage cache off (two concurrent tasks filling one cache entry is the territory of the "
    "listed eviction-order finding)",
    "T2 in-memory backend; a stage-cache hit is compared like any result (each path reads the entry it filled itself)",
    "T2 memories are well-formed: one vector dimension per index (a shard search that raises on a malformed episode is "
    "deliberately fail-soft in the fan-out and outside the property's domain)",
]

GUARD = 120.0  # seconds; deadlock guard only -> harness error, never a verdict
GRACE = 1.5    # seconds the controller waits for the pool to start the participants it is expected to start


class HarnessDeadlock(RuntimeError):
    pass


# ================================================================================================
# gate + controller (shared by a, b, c)
# ================================================================================================

class Gate:
    """n gated participants. enter(i) blocks until the controller releases i; leave(i) marks the body's end."""

    def __init__(self, n: int, gated: bool = True):
        self.n = n
        self.gated = gated
        self.cv = threading.Condition()
        self.started = []          # enter order (indices, with repeats if a thunk is run twice)
        self.finished = []         # leave order
        self.threads = {}          # i -> thread name of first start
        self.ev = [threading.Event() for _ in range(n)]
        self.caller_done = False
        self.deadlock = None
        self.limit = None          # number of tasks the stage handed to run_parallel, once known (scheduling aid only)

    def enter(self, i: int) -> None:
        with self.cv:
            self.started.append(i)
            self.threads.setdefault(i, threading.current_thread().name)
            self.cv.notify_all()
        if self.gated and not self.ev[i].wait(GUARD):
            with self.cv:
                self.deadlock = f"participant {i} was never released"
                self.cv.notify_all()

    def leave(self, i: int) -> None:
        with self.cv:
            self.finished.append(i)
            self.cv.notify_all()

    def set_done(self) -> None:
        with self.cv:
            self.caller_done = True
            self.cv.notify_all()

    def release_all(self) -> None:
        for e in self.ev:
            e.set()


def drive(gate: Gate, fn, eff: int, prio):
    """Run fn() in a caller thread while this thread plays controller. Returns (outcome, info):
    outcome = ("ok", value) | ("exc", exception); info = {"order": released order, "early_return": bool}."""
    n = gate.n
    box = {}

    def caller():
        try:
            box["out"] = ("ok", fn())
        except BaseException as e:  # noqa: BLE001 - classified by the oracle of each sub-check (incl. SystemExit & co)
            box["out"] = ("exc", e)
        finally:
            gate.set_done()

    th = threading.Thread(target=caller, name="c09-caller", daemon=True)
    rank = {t: r for r, t in enumerate(prio)} if prio is not None else None
    released = []
    early = False
    th.start()
    try:
        if gate.gated:
            eff = max(1, eff)

            def settled():
                e = 1 if "c09-caller" in gate.threads.values() else eff  # body ran in the caller thread: no fan-out
                nn = n if gate.limit is None else min(n, gate.limit)
                return gate.caller_done or gate.deadlock or len(set(gate.started)) >= min(nn, len(released) + e)

            while True:
                with gate.cv:
                    # GRACE is a scheduling decision, not a verdict: if the pool does not start the participants the
                    # documented pool size allows (e.g. because the code under test dropped or cancelled a queued task),
                    # go on releasing the ones that ARE running; the oracle then sees which tasks never ran.
                    ok = gate.cv.wait_for(settled, GRACE)
                    if gate.deadlock:
                        raise HarnessDeadlock(f"controller: {gate.deadlock}")
                    running = [i for i in dict.fromkeys(gate.started) if i not in released]
                    if not ok and not running and not gate.caller_done:
                        ok = gate.cv.wait_for(settled, GUARD)
                        if not ok:
                            raise HarnessDeadlock(f"controller: pool did not settle (started={gate.started}, released={released}, "
                                                  f"eff={eff}, n={n})")
                        running = [i for i in dict.fromkeys(gate.started) if i not in released]
                    done = gate.caller_done
                if not running:
                    if done:
                        break
                    with gate.cv:
                        k0 = len(gate.started)
                        if not gate.cv.wait_for(lambda: gate.caller_done or len(gate.started) > k0, GUARD):
                            raise HarnessDeadlock(f"controller: caller never finished (started={gate.started}, released={released})")
                    continue
                if done:
                    early = True  # the call returned while participants were still blocked inside their bodies
                    gate.release_all()
                    break
                pick = min(running, key=lambda t: rank.get(t, n + t))
                released.append(pick)
                gate.ev[pick].set()
                with gate.cv:
                    if not gate.cv.wait_for(lambda: pick in gate.finished, GUARD):
                        raise HarnessDeadlock(f"controller: released participant {pick} never finished")
    finally:
        gate.release_all()
        th.join(GUARD)
        if th.is_alive():
            raise HarnessDeadlock("caller thread did not finish")
    return box["out"], {"order": released if gate.gated else list(gate.finished), "early_return": early}


def _no_stray_threads(baseline):
    """No thread may outlive a case (pool threads are joined by the code under test; the caller by drive())."""
    for t in threading.enumerate():
        if t in baseline or t is threading.current_thread():
            continue
        t.join(GUARD)
        if t.is_alive():
            raise HarnessDeadlock(f"thread {t.name} outlived the case")


# ================================================================================================
# (a) run_parallel
# ================================================================================================

class _Boom(Exception):
    pass


class _Hard(BaseException):
    """A failure that is not an `Exception` (same family as SystemExit / GeneratorExit / KeyboardInterrupt)."""


EXC = {"ValueError": ValueError, "KeyError": KeyError, "RuntimeError": RuntimeError, "_Boom": _Boom,
       "ZeroDivisionError": ZeroDivisionError}
# more failure shapes (sampled only): a task that itself raises a ParallelError (nested fan-out) is ONE failing task
SOFT_EXTRA = ["ParallelError", "StopIteration", "OSError2"]
# BaseException subclasses: the docstring promises nothing about their type/aggregation; the oracle only demands what the
# property says about failing tasks in general - no merge of partial results, no normal return
HARD = {"SystemExit": SystemExit, "_Hard": _Hard, "GeneratorExit": GeneratorExit}
OKEY_MODES = ["ident", "wrap", "rev", "const", "coarse"]
OKEY_MIXED = ["const", "repr", "typerank"]  # order keys that make keys of mixed / unorderable types comparable
MIXED_KEYS = [None, "a", "b", "", 0, 1, 1.0, True, 2, (1, "a"), (1,), {"g": 1}, {"g": 2}, {}]
_TYPE_RANK = ["NoneType", "bool", "int", "float", "str", "tuple", "dict"]
RES_KINDS = ["r", "none", "zero", "empty", "false", "exc_value"]
MRET_MODES = ["obj", "none", "empty", "zero"]
MSG_MODES = ["indexed", "same", "empty"]


def _okey(mode):
    def f(k):
        tup = isinstance(k, tuple)
        if mode == "ident":
            return k
        if mode == "wrap":
            return (k,)
        if mode == "rev":
            return (-k[0], k[1]) if tup else -k
        if mode == "const":
            return 0
        if mode == "coarse":
            return k[0] if tup else k // 2
        if mode == "repr":
            return repr(k)
        if mode == "typerank":
            return _TYPE_RANK.index(type(k).__name__)
        raise ValueError(mode)
    return f


def _norm_key(k):
    return tuple(_norm_key(x) for x in k) if isinstance(k, (list, tuple)) else k


def _msg(case, i):
    mode = case.get("msg") or "indexed"
    return f"boom-{i}" if mode == "indexed" else ("boom" if mode == "same" else "")


def _mk_exc(name, msg):
    if name in EXC:
        return EXC[name](msg)
    if name in HARD:
        return HARD[name](msg)
    if name == "ParallelError":
        from clematis.engine.util.parallel import ParallelError, TaskError
        return ParallelError([TaskError("inner", "X", msg), TaskError("inner2", "Y", msg)])
    if name == "StopIteration":
        return StopIteration(msg)
    if name == "OSError2":
        return OSError(2, msg)  # two-argument exception: str() is "[Errno 2] <msg>"
    raise ValueError(name)


def _fail_spec(name, msg):
    if name is None:
        return None
    e = _mk_exc(name, msg)
    return (type(e).__name__, str(e))


def _same_key(a, b):
    return type(a) is type(b) and a == b


def _mk_result(kind, i):
    if kind == "r":
        return ("r", i)
    return {"none": None, "zero": 0, "empty": [], "false": False, "exc_value": ValueError(f"value-{i}")}[kind]


def check_par(case, rec=None, count=True):
    """One run of run_parallel under a harness-owned (prio given) or free-running (prio None) schedule."""
    from clematis.engine.util.parallel import run_parallel, ParallelError

    keys = [_norm_key(k) for k in case["keys"]]
    n = len(keys)
    fails = [_fail_spec(f, _msg(case, i)) for i, f in enumerate(case["fails"])]
    w = int(case["workers"])
    okey = _okey(case["okey"])
    prio = case.get("prio")
    spin = case.get("spin") or [0] * n
    res_kinds = case.get("res") or ["r"] * n
    res_obj = [_mk_result(res_kinds[i], i) for i in range(n)]  # what thunk i returns (None / falsy / an exception INSTANCE are values)
    mret = case.get("mret") or "obj"
    gate = Gate(n, gated=prio is not None)
    merge_calls = []
    merged_obj = []

    def merge(pairs):
        merge_calls.append(pairs)
        obj = {"merged": list(pairs) if isinstance(pairs, list) else pairs}
        if mret != "obj":
            obj = {"none": None, "empty": [], "zero": 0}[mret]  # a merge function may return None / something falsy
        merged_obj.append(obj)
        return obj

    def mk(i):
        def thunk():
            gate.enter(i)
            try:
                x = 0
                for _ in range(spin[i]):
                    x += 1
                if case["fails"][i] is not None:
                    raise _mk_exc(case["fails"][i], _msg(case, i))
                return res_obj[i]
            finally:
                gate.leave(i)
        return thunk

    tasks = [(keys[i], mk(i)) for i in range(n)]
    if case.get("tasks_as") == "tuple":
        tasks = tuple(tasks)  # `tasks` is documented as a Sequence
    baseline = set(threading.enumerate())
    eff = 1 if w <= 1 else min(w, n)
    old_si = sys.getswitchinterval()
    try:
        if case.get("switch"):
            sys.setswitchinterval(float(case["switch"]))
        out, info = drive(gate, lambda: run_parallel(tasks, max_workers=w, merge_fn=merge, order_key=okey), eff, prio)
    finally:
        sys.setswitchinterval(old_si)
    _no_stray_threads(baseline)

    order = info["order"]
    desc = f"n={n} workers={w} order_key={case['okey']} keys={keys} failing={[i for i, f in enumerate(fails) if f]} completion={order}"
    # a BaseException failure decides the outcome when it is the first failure of the plain loop / anywhere in the pool
    failing = [i for i, f in enumerate(case["fails"]) if f is not None]
    if w <= 1:
        hard_at = failing[0] if failing and case["fails"][failing[0]] in HARD else None
    else:
        hard_at = next((i for i in failing if case["fails"][i] in HARD), None)
    want = pref.ref_run_parallel(keys, fails, w, okey) if hard_at is None else None

    if info["early_return"]:
        raise Violation(f"run_parallel returned while thunks were still running ({desc})", case, "par-early-return")
    # each thunk at most once, and exactly the documented set
    starts = {i: gate.started.count(i) for i in set(gate.started)}
    twice = sorted(i for i, c in starts.items() if c > 1)
    if twice:
        raise Violation(f"thunks {twice} were run more than once ({desc})", case, "par-rerun")
    ran = sorted(starts)
    kind, val = out
    if hard_at is not None:
        # no clause about type / aggregation of a BaseException; only: nothing is merged, nothing is returned
        if w <= 1 and ran != list(range(hard_at + 1)):
            raise Violation(f"plain loop (max_workers={w}): thunks run {ran}, a loop stops at the {case['fails'][hard_at]} of "
                            f"thunk {hard_at} ({desc})", case, "par-seq-hard-ran")
        if merge_calls:
            raise Violation(f"merge_fn was invoked with {merge_calls[0]} although task {hard_at} failed with {case['fails'][hard_at]} ({desc})",
                            case, "par-merge-on-hard-failure")
        if kind != "exc":
            raise Violation(f"run_parallel returned {val!r} although task {hard_at} failed with {case['fails'][hard_at]} ({desc})",
                            case, "par-swallowed-hard-failure")
        if rec is not None and count:
            rec.case(nontrivial=False, dig=None, labels=[f"n={n}", "fail=hard", f"hard={case['fails'][hard_at]}",
                                                          "workers<=1" if w <= 1 else "workers>1"])
        return False, order
    if ran != want["ran"]:
        if w <= 1 and len(ran) > len(want["ran"]):
            raise Violation(f"sequential path (max_workers={w}) kept running thunks {sorted(set(ran) - set(want['ran']))} after the "
                            f"first failure at index {want['ran'][-1]} ({desc})", case, "par-seq-continues")
        raise Violation(f"thunks run: {ran}, documented: {want['ran']} ({desc})", case, "par-ran-set")
    if w <= 1 and n:
        names = {gate.threads[i] for i in ran}
        if names != {"c09-caller"}:
            raise Violation(f"max_workers={w} must run in the caller thread, thunks ran in {sorted(names)}", case, "par-seq-thread")

    if want["kind"] == "ok":
        if kind != "ok":
            raise Violation(f"run_parallel raised {type(val).__name__}: {val} although no task failed ({desc})", case, "par-raises")
        if len(merge_calls) != 1:
            raise Violation(f"merge_fn called {len(merge_calls)} times ({desc})", case, "par-merge-count")
        got = merge_calls[0]
        exp = [(k, res_obj[ri[1]]) for k, ri in want["pairs"]]
        same = isinstance(got, list) and len(got) == len(exp) and all(
            isinstance(p, (list, tuple)) and len(p) == 2 and _same_key(p[0], e[0]) and
            (p[1] == e[1] if isinstance(e[1], tuple) else p[1] is e[1]) for p, e in zip(got, exp))
        if not same:
            raise Violation(f"merge_fn received {got}, documented order (order_key, submit index) gives {exp} ({desc})",
                            case, "par-merge-order")
        if val is not merged_obj[0]:
            raise Violation(f"run_parallel returned {val!r}, not the value of merge_fn ({merged_obj[0]!r}) ({desc})", case, "par-return")
    else:
        if merge_calls:
            raise Violation(f"merge_fn was invoked with {merge_calls[0]} although tasks failed ({desc})", case, "par-merge-on-failure")
        if kind != "exc":
            raise Violation(f"run_parallel returned {val!r} although tasks {[i for i, f in enumerate(fails) if f]} failed ({desc})",
                            case, "par-swallowed-failure")
        if not isinstance(val, ParallelError):
            raise Violation(f"run_parallel raised {type(val).__name__}: {val} instead of ParallelError ({desc})", case, "par-raise-type")
        got_err = [(e.key, e.exc_type, e.message) for e in val.errors]
        if len(got_err) != len(want["errors"]) or any(not _same_key(g[0], x[0]) or tuple(g[1:]) != tuple(x[1:]) for g, x in zip(got_err, want["errors"])):
            raise Violation(f"ParallelError.errors = {got_err}, documented: {want['errors']} ({desc})", case, "par-errors")

    nt = n >= 2 and order != sorted(order)
    if rec is not None and count:
        nf = sum(1 for f in fails if f)
        labels = [f"n={n}", "workers<=1" if w <= 1 else ("workers<n" if w < n else "workers>=n"),
                  f"okey={case['okey']}", "fail=0" if nf == 0 else ("fail=all" if nf == n else "fail=some")]
        if any(keys[i] == keys[j] for i in range(n) for j in range(i)):
            labels.append("dup_keys")
        if any(not isinstance(k, (int, tuple)) or isinstance(k, bool) for k in keys):
            labels.append("keys=mixed_types")
        if any(isinstance(k, dict) for k in keys):
            labels.append("keys=unhashable")
        if nt:
            labels.append("completion!=submission")
        if want["kind"] == "ok" and [p[1][1] for p in want["pairs"]] != order:
            labels.append("merge_order!=completion")
        if want["kind"] == "ok":
            labels.append(f"merge_returns={mret}")
            if any(k != "r" for k in res_kinds):
                labels.append("falsy_or_exception_results")
        elif (case.get("msg") or "indexed") != "indexed":
            labels.append(f"fail_msg={case.get('msg')}")
        if any(f in SOFT_EXTRA for f in case["fails"] if f):
            labels.append("fail=nested_or_odd_exception")
        if case.get("tasks_as") == "tuple":
            labels.append("tasks=tuple")
        rec.case(nontrivial=nt, dig=digest(case) if nt else None, labels=labels,
                 sample={"keys": keys, "fails": case["fails"], "workers": w, "okey": case["okey"], "completion": order,
                         "expected": want} if nt and all(k == "r" for k in res_kinds) else None)
    return nt, order


# ---- exhaustive enumeration (n <= 5)

_KEY_PATTERNS = [
    lambda n: [n - i for i in range(n)],                       # strictly descending: sort reverses submission
    lambda n: [(i % 2) for i in range(n)],                     # duplicates: tie-break by submit index
    lambda n: [((n - i) // 2, "ba"[i % 2]) for i in range(n)],  # tuple keys with equal first fields
    lambda n: [(i * 3) % n for i in range(n)] if n else [],    # a permutation-like scatter
    lambda n: [MIXED_KEYS[(i * 5 + n) % len(MIXED_KEYS)] for i in range(n)],  # mixed types, equal-comparing (1, 1.0, True), unhashable
]


def _reachable_orders(n, w):
    """One priority permutation per distinct completion order reachable with w workers."""
    eff = 1 if w <= 1 else min(w, n)
    seen = {}
    for prio in itertools.permutations(range(n)):
        o = tuple(pref.completion_order(n, eff, prio))
        if o not in seen:
            seen[o] = list(prio)
    return [seen[o] for o in sorted(seen)]


def enum_cases(max_n=5, skip_redundant=False):
    """All (n, workers, reachable completion order, failing subset). skip_redundant (quick tier): for the largest n the
    worker counts strictly between n and 8 are left out - they give the same pool size (= n) as workers=n and workers=8.
    The remaining dimensions (key shape, order_key, exception type / message, result values, merge return value, task
    container) are cycled along the enumeration index with pairwise coprime periods."""
    idx = 0
    for n in range(0, max_n + 1):
        for w in range(0, 9):
            if skip_redundant and n == max_n and n < w < 8:
                continue
            for prio in _reachable_orders(n, w):
                for mask in range(1 << n):
                    fails = [("ValueError", "KeyError", "_Boom")[(i + idx) % 3] if (mask >> i) & 1 else None for i in range(n)]
                    if mask and idx % 11 == 0:
                        # one of the failing tasks raises a BaseException subclass instead
                        j = [i for i in range(n) if (mask >> i) & 1][(idx // 11) % bin(mask).count("1")]
                        fails[j] = sorted(HARD)[(idx // 11) % len(HARD)]
                    pat = idx % len(_KEY_PATTERNS)
                    keys = _KEY_PATTERNS[pat](n)
                    okey = OKEY_MIXED[(idx // 5) % len(OKEY_MIXED)] if pat == 4 else OKEY_MODES[(idx // 4) % len(OKEY_MODES)]
                    case = {"keys": keys, "fails": fails, "workers": w, "prio": prio, "okey": okey,
                            "msg": MSG_MODES[(idx // 3) % len(MSG_MODES)], "mret": MRET_MODES[(idx // 7) % len(MRET_MODES)],
                            "res": [RES_KINDS[(idx // 2 + i * (1 + idx % 5)) % len(RES_KINDS)] if idx % 2 else "r" for i in range(n)]}
                    if idx % 13 == 0:
                        case["tasks_as"] = "tuple"
                    yield idx, case
                    idx += 1


def sub_par_exhaustive(rec, seed, shard, nshards, max_n=5, skip_redundant=False):
    total = 0
    rec.note("space", f"n=0..{max_n} x workers 0..8" + (f" (n={max_n}: workers 0..{max_n} and 8)" if skip_redundant else "") +
             " x every completion order reachable with that pool size x every failing subset")
    for idx, case in enum_cases(max_n, skip_redundant):
        if idx % nshards != shard:
            continue
        total += 1
        try:
            nt, order = check_par(case, rec, count=False)
        except Violation as v:
            rec.violation(v.message, v.case, v.sig)
            return
        n = len(case["keys"])
        labels = [f"n={n}", "workers<=1" if case["workers"] <= 1 else ("workers<n" if case["workers"] < n else "workers>=n")]
        if nt:
            labels.append("completion!=submission")
        if any(case["fails"]):
            labels.append("failing")
        rec.case(nontrivial=nt, dig=None, labels=labels,
                 sample={"keys": case["keys"], "fails": case["fails"], "workers": case["workers"], "completion": order} if nt and idx % 997 == 0 else None)
    rec.note("enumerated_in_last_shard", total)


# ---- sampled (n up to 7, free key/order_key/exception choice)

_ST_N = st.sampled_from([1, 2, 3, 4, 5, 6, 6, 7, 7, 7])
_ST_KEYFAM = st.sampled_from(["int", "int", "tuple", "tuple", "mixed"])
_ST_INTKEY = st.integers(0, 4)
_ST_TUPKEY = st.tuples(st.integers(0, 2), st.sampled_from(["a", "b", "g10", "g2"]))
_ST_MIXKEY = st.sampled_from(list(range(len(MIXED_KEYS))))
_ST_FM = st.sampled_from(["none", "none", "some", "some", "all", "one", "first", "last", "hard"])
_ST_EXC = st.sampled_from(sorted(EXC) + sorted(EXC) + SOFT_EXTRA)
_ST_EXC_OR_NONE = st.sampled_from([None, None, None] + sorted(EXC) + SOFT_EXTRA)
_ST_HARD = st.sampled_from(sorted(HARD))
_ST_W = st.sampled_from([0, 1, 2, 2, 3, 3, 4, 5, 6, 7, 8, -2])
_ST_OKEY = st.sampled_from(OKEY_MODES)
_ST_OKEY_MIXED = st.sampled_from(OKEY_MIXED)
_ST_MSG = st.sampled_from(["indexed", "indexed", "same", "empty"])
_ST_MRET = st.sampled_from(["obj", "obj", "none", "empty", "zero"])
_ST_RES = st.sampled_from(["r", "r", "r"] + RES_KINDS)
_ST_PLAIN = st.sampled_from([True, False])


@st.composite
def par_cases(draw):
    n = draw(_ST_N)
    fam = draw(_ST_KEYFAM)
    if fam == "int":
        keys = [draw(_ST_INTKEY) for _ in range(n)]
    elif fam == "tuple":
        keys = [draw(_ST_TUPKEY) for _ in range(n)]
    else:
        keys = [MIXED_KEYS[draw(_ST_MIXKEY)] for _ in range(n)]
    fm = draw(_ST_FM)
    if fm == "none":
        fails = [None] * n
    elif fm == "all":
        fails = [draw(_ST_EXC) for _ in range(n)]
    elif fm in ("one", "first", "last", "hard"):
        j = 0 if fm == "first" else (n - 1 if fm == "last" else draw(st.integers(0, n - 1)))
        fails = [draw(_ST_EXC_OR_NONE) if fm == "hard" else None for _ in range(n)]
        fails[j] = draw(_ST_HARD) if fm == "hard" else draw(_ST_EXC)
    else:
        fails = [draw(_ST_EXC_OR_NONE) for _ in range(n)]
    w = draw(_ST_W)
    prio = list(draw(st.permutations(list(range(n)))))
    case = {"keys": keys, "fails": fails, "workers": w, "prio": prio, "okey": draw(_ST_OKEY_MIXED if fam == "mixed" else _ST_OKEY),
            "msg": draw(_ST_MSG), "mret": draw(_ST_MRET)}
    if not draw(_ST_PLAIN):
        case["res"] = [draw(_ST_RES) for _ in range(n)]
    if draw(_ST_RES) == "none":
        case["tasks_as"] = "tuple"
    return case


def sub_par_sampled(rec, seed, shard, nshards, n=400, shrink=True):
    run_hypothesis(rec, seed, par_cases(), lambda c: check_par(c, rec), max_examples=n, shrink=shrink, name="par_sampled")


# ---- free-running pools under switch-interval jitter

def sub_par_free(rec, seed, shard, nshards, n=300):
    rng = random.Random(seed)
    for _ in range(n):
        k = rng.choice([2, 3, 4, 5, 6, 7])
        fam = rng.choice(["int", "int", "tuple", "tuple", "mixed"])
        if fam == "int":
            keys = [rng.randrange(0, 4) for _ in range(k)]
        elif fam == "tuple":
            keys = [(rng.randrange(0, 3), rng.choice(["a", "b", "g10"])) for _ in range(k)]
        else:
            keys = [rng.choice(MIXED_KEYS) for _ in range(k)]
        fm = rng.choice(["none", "none", "some", "all", "hard"])
        fails = [None if fm == "none" else (rng.choice(sorted(EXC) + SOFT_EXTRA) if (fm == "all" or rng.random() < 0.4) else None) for _ in range(k)]
        if fm == "hard":
            fails[rng.randrange(k)] = rng.choice(sorted(HARD))
        case = {"keys": keys, "fails": fails, "workers": rng.choice([2, 2, 3, 4, 8, 1]), "prio": None,
                "okey": rng.choice(OKEY_MIXED if fam == "mixed" else OKEY_MODES), "spin": [rng.choice([0, 10, 200, 2000, 20000]) for _ in range(k)],
                "switch": 1e-6, "msg": rng.choice(MSG_MODES), "mret": rng.choice(MRET_MODES),
                "res": [rng.choice(["r", "r"] + RES_KINDS) for _ in range(k)]}
        try:
            check_par(case, rec)
        except Violation as v:
            rec.violation(v.message, v.case, v.sig)
            return
    rec.note("switchinterval_after", sys.getswitchinterval())


def replay_par(case):
    # free-running cases sample the OS schedule: repeat a few times
    reps = 1 if case.get("prio") is not None else 25
    for _ in range(reps):
        check_par(case, None)



# ================================================================================================
# shared: shadow a stage module's `run_parallel` so each task body reports enter/leave to a Gate
# ================================================================================================

class _Fanout:
    """Replaces <stage module>.run_parallel by a pass-through that wraps every thunk with gate hooks.
    enter_in_wrapper=False: only `leave` is signalled here (T1 enters through the gated store proxy)."""

    def __init__(self, module, enter_in_wrapper: bool, fix_none_merge=None):
        self.module = module
        self.enter_in_wrapper = enter_in_wrapper
        self.fix_none_merge = fix_none_merge  # callable() -> bool: substitute identity merge/order_key when the stage passes None
        self.gate = None
        self.calls = []
        self.substituted = 0
        if not hasattr(module, "run_parallel"):
            raise RuntimeError(f"harness: {module.__name__}.run_parallel not found; update checks/c09.py")
        self.real = module.run_parallel

    def __enter__(self):
        def spy(tasks, *, max_workers, merge_fn, order_key):
            gate = self.gate
            self.calls.append({"tasks": len(tasks), "max_workers": max_workers})
            if gate is not None:
                with gate.cv:
                    gate.limit = len(tasks)
                    gate.cv.notify_all()
            if merge_fn is None and order_key is None and self.fix_none_merge is not None and self.fix_none_merge():
                self.substituted += 1
                merge_fn = lambda pairs: [r for _, r in pairs]  # noqa: E731
                order_key = lambda k: k  # noqa: E731

            def wrap(i, fn):
                def body():
                    if self.enter_in_wrapper and gate is not None:
                        gate.enter(i)
                    try:
                        return fn()
                    finally:
                        if gate is not None:
                            gate.leave(i)
                return body

            return self.real([(k, wrap(i, fn)) for i, (k, fn) in enumerate(tasks)], max_workers=max_workers,
                             merge_fn=merge_fn, order_key=order_key)

        self.module.run_parallel = spy
        return self

    def __exit__(self, *a):
        self.module.run_parallel = self.real
        return False


def _strip(metrics, drop):
    return {k: v for k, v in metrics.items() if k not in drop}


# ================================================================================================
# (b) T1 fan-out across graphs
# ================================================================================================

T1_GATED_KEYS = ("parallel_workers", "task_count")
# counters that follow which entries the stage cache holds / evicts ...
T1_EVICT_DEP_KEYS = {"cache_hits", "cache_misses", "cache_used", "t1.cache_evictions", "t1.cache_bytes"}
# ... and counters a cache hit reports as 0 (no work done): may differ only in a call whose hit count differs
T1_HIT_DEP_KEYS = {"max_delta", "t1_frontier_evicted", "t1_dedup_hits", "t1_visited_evicted"}
F_T1_EVICT = "t1-parallel-cache-eviction-order"
T1_GIDS = ["g1", "g2", "G", "γ", "g10", "main", "g3", "zz"]
T1_GIDS_MORE = ["g4", "g5", "g6", "g7", "g8", "g9", "g11", "a", "b", "c"]
OFF_MODES = ["absent", "disabled", "gate_off", "workers1", "workers0"]


class GatedStore:
    """Store proxy: get_graph(gid) (the first thing a per-graph task does) blocks until the controller releases gid.
    `faults` (set of gids) makes get_graph raise AFTER the release - a store-level failure inside ONE per-graph task."""

    def __init__(self, inner, index):
        self._inner = inner
        self._index = index
        self.gate = None
        self.faults = ()

    def get_graph(self, gid):
        g = self.gate
        if g is not None and gid in self._index:
            g.enter(self._index[gid])
        if gid in self.faults:
            raise _Boom(f"fault-{gid}")
        return self._inner.get_graph(gid)

    def __getattr__(self, name):
        return getattr(self._inner, name)


_ST_NG = st.sampled_from([0, 1, 1, 2, 2, 2, 3, 3, 3, 4, 5, 6, 6, 11, 12, 13, 11, 12])  # > 10 graphs: task indices gain a digit
_ST_T1_CACHE = st.sampled_from(["off", "off", "lru", "lru", "lru_small", "bytes", "bytes_small"])
_ST_123 = st.sampled_from([1, 2, 3])
_ST_B3 = st.sampled_from([False, True, True])
_ST_CAP = st.sampled_from([1, 2, 3, 100])
_ST_WIN = st.sampled_from([1, 2, 4])
_ST_NCALLS_C = st.sampled_from([1, 2, 2, 3, 3])
_ST_NCALLS_0 = st.sampled_from([1, 1, 1, 2])
_ST_ONE_IN_3 = st.sampled_from([True, False, False])
_ST_ONE_IN_4 = st.sampled_from([True, False, False, False])
_ST_ONE_IN_6 = st.sampled_from([True, False, False, False, False, False])
_ST_T1_W = st.sampled_from([2, 2, 3, 4, 5, 6, 7, 8, 16])
_ST_SLICE = st.sampled_from([0, 1, 2, 3, 5, 50])


@st.composite
def t1_cases(draw):
    from checks.c12 import t1_cfgs

    ng = draw(_ST_NG)
    gids = draw(st.lists(st.sampled_from(T1_GIDS + T1_GIDS_MORE), min_size=ng, max_size=ng, unique=True))
    if ng > 6:
        # many graphs: small ones, each with a node every text matches (all of them produce deltas)
        graphs = {gid: draw(world.graph_specs(max_nodes=3, max_edges=3)) for gid in gids}
        for k, gid in enumerate(gids):
            graphs[gid]["nodes"].append({"id": f"m{k}", "label": "apple", "tags": []})
    else:
        graphs = {gid: draw(world.graph_specs(max_nodes=6, max_edges=8)) for gid in gids}
    t1 = draw(t1_cfgs())
    t1.pop("cache", None)
    cache = draw(_ST_T1_CACHE)
    cache_n = draw(_ST_123)
    perf = {"enabled": draw(_ST_B3) or cache.startswith("bytes"),
            "metrics": {"report_memory": draw(st.booleans())}}
    if draw(st.booleans()):
        caps = {}
        if draw(st.booleans()):
            caps["frontier"] = draw(_ST_CAP)
        if draw(st.booleans()):
            caps["visited"] = draw(_ST_CAP)
        perf["t1"] = {"caps": caps}
        if draw(st.booleans()):
            perf["t1"]["dedupe_window"] = draw(_ST_WIN)
    # the active-graph list: may name a graph twice (tasks are keyed (index, gid) for that reason; cache off - two tasks
    # filling the same cache entry concurrently is the listed eviction-order finding's territory) and a graph the store
    # does not hold yet (get_graph creates it empty)
    order = list(gids)
    if ng >= 1 and cache == "off" and draw(_ST_ONE_IN_4):
        for _ in range(draw(st.integers(1, 2))):
            order.insert(draw(st.integers(0, len(order))), draw(st.sampled_from(gids)))
    if draw(_ST_ONE_IN_6):
        order.insert(draw(st.integers(0, len(order))), "ghost")
    nt = len(order)
    ncalls = draw(_ST_NCALLS_C) if cache != "off" else draw(_ST_NCALLS_0)
    calls = []
    for j in range(ncalls):
        text = draw(world.texts_for(graphs)) if (j == 0 or draw(_ST_ONE_IN_3)) else calls[0]["text"]
        if ng > 6 and j == 0:
            text = ("apple " + text).strip()
        calls.append({"text": text, "prio": list(draw(st.permutations(list(range(nt)))))})
    case = {"free_runs": draw(st.sampled_from([0, 0, 2])), "graphs": graphs, "order": order, "t1": t1, "cache": cache, "cache_n": cache_n, "perf": perf,
            "workers": draw(_ST_T1_W), "off": draw(st.sampled_from(OFF_MODES)), "calls": calls,
            "validated": draw(_ST_ONE_IN_4)}
    # other perf.parallel leaves next to the T1 ones (same in both runs)
    if draw(_ST_ONE_IN_3):
        case["par_extra"] = {"t2": draw(st.booleans()), "agents": draw(st.booleans())}
    # scheduler slice caps on the context (same in both runs)
    if draw(_ST_ONE_IN_4):
        sl = {}
        if draw(st.booleans()):
            sl["t1_iters"] = draw(_ST_SLICE)
        if draw(st.booleans()):
            sl["t1_pops"] = draw(_ST_SLICE)
        case["slice"] = sl
    # a store failure inside the per-graph task(s) of some graphs, LAST call only (what the caches hold after a failed
    # call is not part of the property)
    if nt >= 1 and draw(_ST_ONE_IN_6):
        k = draw(st.sampled_from([1, 1, 2, nt]))
        case["fault"] = sorted(set(draw(st.lists(st.sampled_from(order), min_size=min(k, nt), max_size=min(k, nt)))))
    return case


def _t1_spec(case, gid):
    return case["graphs"].get(gid) or {"nodes": [], "edges": []}


def _t1_cache_can_evict(case):
    """The stage cache is smaller than the number of distinct entries (graph, seed set) the case's calls touch."""
    from harness.models import t1 as t1ref

    if case["cache"] not in ("lru_small", "bytes_small"):
        return False
    keys = set()
    for call in case["calls"]:
        for gid in case["order"]:
            seeds = t1ref.ref_seeds(_t1_spec(case, gid), call["text"])
            if seeds:
                keys.add((gid, tuple(seeds)))
    return int(case["cache_n"]) < len(keys)


def _t1_only_cache_dependent(diff, ma, mb):
    """diff touches only counters that follow the cache contents; the hit-dependent ones may differ only in a call
    that had a cache hit in one of the two runs (same number of hits on different graphs is enough)."""
    keys = set(diff)
    if not keys <= (T1_EVICT_DEP_KEYS | T1_HIT_DEP_KEYS):
        return False
    return not (keys & T1_HIT_DEP_KEYS) or bool(ma.get("cache_hits") or mb.get("cache_hits"))


def _t1_cfg(case, parallel: bool):
    t1 = copy.deepcopy(case["t1"])
    perf = copy.deepcopy(case["perf"])
    mode = case["cache"]
    extra = dict(case.get("par_extra") or {})
    if mode == "off":
        t1["cache"] = {"enabled": False, "max_entries": 512, "ttl_s": 300}
    elif mode in ("lru", "lru_small"):
        t1["cache"] = {"enabled": True, "max_entries": 512 if mode == "lru" else int(case["cache_n"]), "ttl_s": 300}
    else:
        t1["cache"] = {"enabled": False, "max_entries": 512, "ttl_s": 300}
        perf.setdefault("t1", {})["cache"] = {"max_entries": 64 if mode == "bytes" else int(case["cache_n"]), "max_bytes": 0}
    if parallel:
        perf["parallel"] = dict(extra, enabled=True, t1=True, max_workers=int(case["workers"]))
    else:
        off = case["off"]
        if off == "disabled":
            perf["parallel"] = dict(extra, enabled=False, t1=True, max_workers=int(case["workers"]))
        elif off == "gate_off":
            perf["parallel"] = dict(extra, enabled=True, t1=False, max_workers=int(case["workers"]))
        elif off == "workers1":
            perf["parallel"] = dict(extra, enabled=True, t1=True, max_workers=1)
        elif off == "workers0":
            perf["parallel"] = dict(extra, enabled=True, t1=True, max_workers=0)
    if case.get("validated"):
        keep = {k: t1[k] for k in ("cache", "radius_cap", "queue_budget", "iter_cap", "node_budget") if k in t1}
        return world.validated_cfg({"t1": keep, "perf": perf})
    return world.to_attr({"t1": t1, "perf": perf})


def _t1_ctx(case, cfg):
    ctx = SimpleNamespace(cfg=cfg, config=cfg, agent_id="A", turn_id=1)
    if case.get("slice"):
        ctx.slice_budgets = dict(case["slice"])
    return ctx


def _t1_exc(e):
    """("exc", type name, text, messages of the aggregated task failures or None)"""
    errs = getattr(e, "errors", None)
    msgs = [str(getattr(x, "message", x)) for x in errs] if isinstance(errs, list) else None
    return ("exc", type(e).__name__, str(e), msgs)


def run_t1_calls(case, parallel: bool, free: bool = False):
    """All calls of the case on one fresh process cache. -> list of ("ok", deltas, metrics, order) | ("exc", type name, text, msgs)."""
    import clematis.engine.stages.t1 as t1mod

    world.reset_engine_globals()
    cfg = _t1_cfg(case, parallel)
    inner = world.build_store({g: case["graphs"][g] for g in case["order"] if g in case["graphs"]})
    order = list(case["order"])
    n = len(order)
    dups = len(set(order)) < n
    last = len(case["calls"]) - 1
    out = []
    if not parallel or free:
        # sequential path — or (free) the parallel configuration on the engine's own thread pool, nothing gated, with a
        # 1 us switch interval so that the per-graph tasks really overlap
        import sys as _sys
        old_si = _sys.getswitchinterval()
        if free:
            _sys.setswitchinterval(1e-6)
        try:
            store = GatedStore(inner, {})
            state = {"store": store, "active_graphs": list(order)}  # one engine state for all calls (it owns the stage cache)
            for j, call in enumerate(case["calls"]):
                ctx = _t1_ctx(case, cfg)
                store.faults = set(case.get("fault") or ()) if j == last else ()
                try:
                    res = t1mod.t1_propagate(ctx, state, call["text"])
                except Exception as e:  # noqa: BLE001 - compared with the parallel run below
                    out.append(_t1_exc(e))
                    continue
                out.append(("ok", copy.deepcopy(res.graph_deltas), copy.deepcopy(res.metrics), None))
        finally:
            _sys.setswitchinterval(old_si)
        return out, None
    # a graph listed twice: two tasks call get_graph with the same gid, so the tasks are gated in the run_parallel shim
    store = GatedStore(inner, {} if dups else {g: i for i, g in enumerate(order)})
    baseline = set(threading.enumerate())
    state = {"store": store, "active_graphs": list(order)}
    with _Fanout(t1mod, enter_in_wrapper=dups) as fan:
        for j, call in enumerate(case["calls"]):
            gate = Gate(n)
            store.gate = gate
            store.faults = set(case.get("fault") or ()) if j == last else ()
            fan.gate = gate
            ctx = _t1_ctx(case, cfg)
            outcome, info = drive(gate, lambda: t1mod.t1_propagate(ctx, state, call["text"]), min(int(case["workers"]), n), call["prio"])
            store.gate = None
            if info["early_return"]:
                raise Violation("t1_propagate returned while per-graph tasks were still running", case, "t1-early-return")
            if outcome[0] == "exc":
                if not isinstance(outcome[1], Exception):
                    raise outcome[1]
                out.append(_t1_exc(outcome[1]))
            else:
                res = outcome[1]
                out.append(("ok", copy.deepcopy(res.graph_deltas), copy.deepcopy(res.metrics), list(info["order"])))
        fanned = len(fan.calls)
    _no_stray_threads(baseline)
    return out, fanned


def _t1_fault_clause(case, j, b, where, sig):
    """Last call with injected store failures: the parallel path must fail too; when it reports the aggregated task
    failures (ParallelError.errors) they must be ALL failing per-graph tasks, in active-graph order."""
    faults = set(case.get("fault") or ())
    if not faults or j != len(case["calls"]) - 1:
        return
    if b[0] != "exc":
        raise Violation(f"{where}: store.get_graph failed for graphs {sorted(faults)} (the sequential path raises) but the "
                        f"parallel path returned a result", case, sig + "-swallowed")
    if b[3] is not None:
        want = [f"fault-{g}" for g in case["order"] if g in faults]
        if b[3] != want:
            raise Violation(f"{where}: parallel path reports task failures {b[3]}, every failing per-graph task in active-graph "
                            f"order is {want}", case, sig + "-errors")


def check_t1(case, rec=None):
    from harness.models import t1 as t1ref

    seq, _ = run_t1_calls(case, parallel=False)
    par, fanned = run_t1_calls(case, parallel=True)
    reordered = False
    evict_excluded = False
    for j, (a, b) in enumerate(zip(seq, par)):
        where = f"call {j + 1}/{len(seq)} (text {case['calls'][j]['text']!r}, graphs {case['order']}, workers {case['workers']}, cache {case['cache']})"
        if a[0] == "exc" or b[0] == "exc":
            if a[0] != b[0]:
                raise Violation(f"{where}: sequential {a[:3]} but parallel {b[:3]}", case, "t1-raises-differ")
            _t1_fault_clause(case, j, b, where, "t1-fault")
            continue
        order = b[3]
        if order != sorted(order):
            reordered = True
        if a[1] != b[1]:
            raise Violation(f"{where}: graph_deltas differ with completion order {order}: sequential {[d.get('id') for d in a[1]]}, "
                            f"parallel {[d.get('id') for d in b[1]]}", case, "t1-deltas")
        ma, mb = _strip(a[2], T1_GATED_KEYS), _strip(b[2], T1_GATED_KEYS)
        if ma != mb:
            diff = {k: (ma.get(k), mb.get(k)) for k in sorted(set(ma) | set(mb)) if ma.get(k) != mb.get(k)}
            # shared lock-wrapped stage cache smaller than the fan-out: which entry gets evicted follows the completion
            # order, so hit/miss/eviction counters (and max_delta, which a hit reports as 0) can differ - nothing else may
            if _t1_only_cache_dependent(diff, ma, mb) and _t1_cache_can_evict(case):
                if rec is not None and rec.is_known(F_T1_EVICT):
                    evict_excluded = True
                    continue
                raise Violation(f"{where}: stage-cache counters depend on the completion order {order} of the per-graph tasks "
                                f"(cache holds {case['cache_n']} entries, fewer than the calls touch) (sequential, parallel): {diff}",
                                case, "t1-cache-eviction-order")
            raise Violation(f"{where}: counters differ with completion order {order} (sequential, parallel): {diff}", case, "t1-counters")
    for _ in range(int(case.get("free_runs") or 0)):
        fr, _f = run_t1_calls(case, parallel=True, free=True)
        for j, (a, b) in enumerate(zip(seq, fr)):
            where = f"call {j + 1}/{len(seq)} (text {case['calls'][j]['text']!r}, graphs {case['order']}, workers {case['workers']}, cache {case['cache']})"
            if a[0] == "exc" or b[0] == "exc":
                if a[0] != b[0]:
                    raise Violation(f"{where}: sequential {a[:3]} but free-running parallel {b[:3]}", case, "t1-free-raises-differ")
                _t1_fault_clause(case, j, b, where, "t1-free-fault")
                continue
            if a[1] != b[1]:
                raise Violation(f"{where}: graph_deltas of the free-running parallel path (real thread pool, 1 us switch interval) differ "
                                f"from sequential: {[d.get('id') for d in a[1]]} vs {[d.get('id') for d in b[1]]}", case, "t1-free-deltas")
            ma, mb = _strip(a[2], T1_GATED_KEYS), _strip(b[2], T1_GATED_KEYS)
            if ma != mb:
                diff = {k: (ma.get(k), mb.get(k)) for k in sorted(set(ma) | set(mb)) if ma.get(k) != mb.get(k)}
                if _t1_only_cache_dependent(diff, ma, mb) and _t1_cache_can_evict(case) and rec is not None and rec.is_known(F_T1_EVICT):
                    evict_excluded = True
                    continue
                raise Violation(f"{where}: counters of the free-running parallel path differ (sequential, parallel): {diff}", case, "t1-free-counters")
    if rec is not None:
        seeded = 0
        for gid in dict.fromkeys(case["order"]):
            if any(t1ref.ref_seeds(_t1_spec(case, gid), c["text"]) for c in case["calls"]):
                seeded += 1
        n = len(case["order"])
        nt = seeded >= 2 and reordered and bool(fanned)
        perf_t1 = case["perf"].get("t1") or {}
        labels = [f"graphs={n}", f"cache={case['cache']}", f"calls={len(case['calls'])}", f"off={case['off']}"] + \
                 (["seeded>=2"] if seeded >= 2 else []) + (["completion!=graph_order"] if reordered else []) + \
                 (["fanout"] if fanned else ["no_fanout"]) + (["validated"] if case.get("validated") else []) + \
                 (["deltas>0"] if any(x[0] == "ok" and x[1] for x in seq) else []) + \
                 (["cache_hit"] if any(x[0] == "ok" and x[2].get("cache_hits") for x in seq) else []) + \
                 (["metrics_gate"] if case["perf"].get("enabled") and case["perf"]["metrics"].get("report_memory") else []) + \
                 ([f"excluded:{F_T1_EVICT}"] if evict_excluded else []) + \
                 (["graph_listed_twice"] if len(set(case["order"])) < n else []) + (["unknown_graph"] if "ghost" in case["order"] else []) + \
                 (["workers>tasks"] if int(case["workers"]) > n else []) + (["par_extra_leaves"] if case.get("par_extra") else []) + \
                 (["slice_caps"] if case.get("slice") else []) + \
                 (["perf_t1_caps_active"] if case["perf"].get("enabled") and (perf_t1.get("caps") or perf_t1.get("dedupe_window")) else []) + \
                 (["perf_counters>0"] if any(x[0] == "ok" and any(x[2].get(k) for k in ("t1_frontier_evicted", "t1_dedup_hits", "t1_visited_evicted")) for x in seq) else []) + \
                 ([f"fault={'all' if len(set(case['fault'])) >= len(set(case['order'])) else len(case['fault'])}"] if case.get("fault") else []) + \
                 (["seq_raises"] if any(x[0] == "exc" for x in seq) else [])
        rec.case(nontrivial=nt, dig=digest(case) if nt else None, labels=labels,
                 sample={"order": case["order"], "workers": case["workers"], "cache": case["cache"],
                         "calls": [{"text": c["text"], "completion": p[3] if p[0] == "ok" else None} for c, p in zip(case["calls"], par)],
                         "deltas": [[d.get("id") for d in x[1]] if x[0] == "ok" else x[1] for x in seq],
                         "metrics": [{k: x[2].get(k) for k in ("pops", "iters", "propagations", "cache_hits", "cache_misses")} if x[0] == "ok" else None for x in seq]}
                 if nt else None)


def sub_t1(rec, seed, shard, nshards, n=100, shrink=True):
    run_hypothesis(rec, seed, t1_cases(), lambda c: check_t1(c, rec), max_examples=n, shrink=shrink, name="t1_fanout")


def replay_t1(case):
    from checks.c03 import _fix_floats
    check_t1(_fix_floats(case), None)


# ================================================================================================
# (c) T2 fan-out across shards, end to end
# ================================================================================================

T2_GATED_KEYS = ("t2.task_count", "t2.parallel_workers", "t2.partition_count")
T2_TIERS = ["exact_semantic", "cluster_semantic", "archive"]
F_MERGE = "t2-parallel-merge-fn-none"
F_EXACT = "t2-parallel-exact-tier-empty"
F_CLUSTER = "t2-parallel-cluster-per-shard"
F_DUP = "t2-parallel-duplicate-id-k-slots"
_OFF = "#off"  # tier name suffix the stage does not know: the tier is walked (reported) but contributes nothing
_W = st.sampled_from([0.0, 0.05, 0.2, 0.25, 0.5, 0.75, 1.0])


@st.composite
def t2_eps(draw):
    """0-12 episodes with unique ids; biased so that a query usually matches several of them (hits spread over shards)."""
    n = draw(st.sampled_from([0, 1, 2, 2, 3, 3, 4, 4, 5, 5, 6, 6, 8, 8, 10, 10, 12, 12]))
    ids = list(draw(st.permutations(world.EP_IDS)))[:n]
    enc = world.BowEncoder()
    eps = []
    for eid in ids:
        words = draw(st.lists(st.sampled_from(world.VOCAB[:5] + world.VOCAB[:3] + world.VOCAB), min_size=1, max_size=3))
        text = " ".join(words)
        kind = draw(st.sampled_from(["bow"] * 7 + ["explicit", "zero", "none"]))
        vec = enc.vec(text) if kind == "bow" else ([float(draw(st.integers(0, 3))) for _ in world.VOCAB] if kind == "explicit"
                                                     else ([0.0] * len(world.VOCAB) if kind == "zero" else None))
        ep = {"id": eid, "owner": draw(st.sampled_from(["A", "A", "A", "B", "world", ""])), "text": text, "vec_full": vec}
        if draw(st.sampled_from([True] * 11 + [False])):
            ep["ts"] = world.iso_minus(world.NOW_ISO, draw(st.sampled_from(world._AGES_S + [0, 3600, 86400])), z=draw(st.booleans()))
        aux = {}
        if draw(st.sampled_from([True, True, False])):
            aux["cluster_id"] = draw(st.sampled_from(["c1", "c2", "c3"]))
        if draw(st.booleans()):
            aux["importance"] = draw(st.sampled_from([0.0, 0.25, 0.5, 1.0, 2.0, -1.0, 0.9]))
        if aux or draw(st.booleans()):
            ep["aux"] = aux
        eps.append(ep)
    return eps


@st.composite
def t2_eps_skewed(draw):
    """18-30 episodes in which a contiguous burst (one shard's worth) holds most of the best matches for 'apple': the
    cross-shard merge must still reconstruct the global top-k when one shard supplies more than its even share."""
    n = draw(st.sampled_from([18, 24, 30]))
    burst_at = draw(st.integers(0, n - 6))
    burst_len = draw(st.integers(4, 8))
    enc = world.BowEncoder()
    eps = []
    fillers = [w for w in world.VOCAB if w != "apple"]
    for i in range(n):
        if burst_at <= i < burst_at + burst_len:
            extra = draw(st.lists(st.sampled_from(fillers), min_size=0, max_size=3))
            text = " ".join(["apple"] * draw(st.integers(1, 3)) + extra)
        else:
            words = draw(st.lists(st.sampled_from(fillers + ["apple"]), min_size=1, max_size=4))
            text = " ".join(words)
        eps.append({"id": f"m{(i * 7) % n:02d}", "owner": draw(st.sampled_from(["A", "A", "A", "B"])), "text": text,
                    "vec_full": enc.vec(text), "ts": world.iso_minus(world.NOW_ISO, draw(st.sampled_from([0, 3600, 86400, 5 * 86400])))})
    return eps


@st.composite
def t2_eps_nearties(draw):
    """4-10 episodes whose cosine to the query 'apple' differs by a few float32 ulps around 1e-3 (differences ~1e-10,
    far below any score quantum): the hits that survive the k cut must be the same ones on both paths."""
    import numpy as np

    n = draw(st.sampled_from([4, 5, 6, 8, 10]))
    ids = list(draw(st.permutations(world.EP_IDS)))[:n]
    base = np.float32(draw(st.sampled_from([0.001, 0.0005, 0.002])))
    eps = []
    for eid in ids:
        x = base
        for _ in range(draw(st.integers(0, 3))):
            x = np.nextafter(x, np.float32(1.0))
        vec = [0.0] * len(world.VOCAB)
        vec[0], vec[1] = float(x), 1.0  # VOCAB[0] == 'apple' is the query direction
        eps.append({"id": eid, "owner": "A", "text": "note " + eid, "vec_full": vec, "ts": world.NOW_ISO})
    return eps


_HYBRID_CFGS = [
    {"enabled": True, "lambda_graph": 1.0, "edge_threshold": 0.0},
    {"enabled": True, "lambda_graph": 1.0, "edge_threshold": 0.0, "walk_hops": 2, "damping": 0.5},
    {"enabled": True, "lambda_graph": 0.25, "edge_threshold": 0.1, "anchor_top_m": 1},
    {"enabled": True, "lambda_graph": 1.0, "edge_threshold": 0.0, "k_max": 2, "degree_norm": "invdeg"},
    {"enabled": True, "lambda_graph": 1.0, "edge_threshold": 0.0, "max_bonus": 0.01},
]
PERF_MODES = ["none", "none", "none", "both", "both", "enabled_only", "metrics_only"]


@st.composite
def t2_cases(draw):
    mode = draw(st.sampled_from(["plain", "plain", "plain", "plain", "skewed", "skewed", "nearties"]))
    skewed = mode == "skewed"
    if mode == "nearties":
        eps = draw(t2_eps_nearties())
    else:
        eps = draw(t2_eps_skewed()) if skewed else draw(st.one_of(t2_eps(), t2_eps(), t2_eps(), world.episode_lists().filter(lambda e: len(e) >= 2)))
    graphs = {}
    for gid in draw(st.lists(st.sampled_from(["g1", "g2"]), max_size=2, unique=True)):
        graphs[gid] = draw(world.graph_specs(max_nodes=5, max_edges=3))
    t2 = {"cache": {"enabled": False}}
    t2["k_retrieval"] = draw(st.sampled_from([1, 2, 2, 3, 3, 5, 5, 10, 64]))
    t2["sim_threshold"] = draw(st.sampled_from([0.0, 0.0, 0.0, 0.1, 0.1, 0.3, 0.3, 0.3, 0.45, 0.5, 0.6, -1.0, -1.0, -1.0, 0.7071067811865476]))
    tiers = draw(st.one_of(st.just(None), st.lists(st.sampled_from(T2_TIERS), min_size=1, max_size=3, unique=True),
                           st.sampled_from([["archive"], ["exact_semantic"], ["cluster_semantic"], ["exact_semantic", "archive"]]),
                           st.lists(st.sampled_from(T2_TIERS + ["bogus_tier"]), min_size=1, max_size=4, unique=True)))
    if tiers is not None:
        t2["tiers"] = tiers
    if draw(st.booleans()):
        t2["exact_recent_days"] = draw(st.sampled_from([0, 1, 7, 30, 365]))
    if draw(st.booleans()):
        t2["clusters_top_m"] = draw(st.sampled_from([0, 1, 1, 2, 3, 10]))
    if draw(st.booleans()):
        t2["ranking"] = {"alpha_sim": draw(_W), "beta_recency": draw(_W), "gamma_importance": draw(_W)}
    t2["owner_scope"] = draw(st.sampled_from(["any", "any", "any", "agent", "agent", "world"]))
    if draw(st.sampled_from([False, False, True])):
        t2["residual_cap_per_turn"] = draw(st.sampled_from([0, 1, 2, 32]))
    layers = draw(st.sampled_from(["none", "none", "none", "none", "quality", "quality+mmr", "hybrid", "hybrid", "hybrid+quality"]))
    if "quality" in layers:
        q = {"enabled": True, "fusion": {"alpha_semantic": draw(st.sampled_from([0.0, 0.3, 0.6, 1.0]))}}
        if "mmr" in layers:
            q["mmr"] = {"enabled": True, "lambda": draw(st.sampled_from([0.0, 0.5, 1.0])), "k": draw(st.sampled_from([1, 2, 10]))}
        t2["quality"] = q
    if draw(st.sampled_from([True, False, False, False, False, False])):
        t2["backend"] = "lancedb"  # the attached index stays the in-memory one; the fan-out gate accepts both backend names
    agent = draw(st.sampled_from(["A", "A", "B", "world"]))
    ep_words = [w for e in eps for w in (e.get("text") or "").lower().split()] or world.VOCAB
    text = " ".join(draw(st.lists(st.sampled_from(ep_words + world.VOCAB[:3]), min_size=1, max_size=3)))
    if skewed:
        text = draw(st.sampled_from(["apple", "apple", "apple pear"]))
        t2["k_retrieval"] = draw(st.sampled_from([3, 5, 6, 10]))
        t2["sim_threshold"] = draw(st.sampled_from([0.0, 0.1]))
        t2["owner_scope"] = "any"
    if mode == "nearties":
        text = world.VOCAB[0]
        t2["k_retrieval"] = draw(st.sampled_from([1, 2, 3]))
        t2["sim_threshold"] = draw(st.sampled_from([0.0, -1.0]))
        t2["owner_scope"] = "any"
        t2.pop("quality", None)
        layers = "none"
    gel = None
    if "hybrid" in layers:
        # graph-expansion rerank on top of the fan-out: GEL edges between the episode ids
        t2["hybrid"] = dict(draw(st.sampled_from(_HYBRID_CFGS)))
        gel = draw(world.gel_graphs(sorted({str(e["id"]) for e in eps})))
    # the same episode id stored again (the reflection writer derives ids from agent / turn / slot / text, so a re-run
    # turn appends an entry with an id the index already holds), here or in another shard
    dup = False
    if mode == "plain" and eps and draw(st.sampled_from([True, False])):
        enc = world.BowEncoder()
        for _ in range(draw(st.integers(1, 3))):
            src = copy.deepcopy(eps[draw(st.integers(0, len(eps) - 1))])
            kind = draw(st.sampled_from(["same", "same", "query", "query+", "query+", "other"]))
            if kind == "other":  # same id, the content of another episode
                other = eps[draw(st.integers(0, len(eps) - 1))]
                src["text"], src["vec_full"] = other["text"], copy.deepcopy(other["vec_full"])
            elif kind != "same":  # same id, a better / slightly worse match for the query than the stored copy
                src["text"] = text if kind == "query" else text + " " + draw(st.sampled_from(world.VOCAB))
                src["vec_full"] = enc.vec(src["text"])
            eps.insert(draw(st.integers(0, len(eps))), src)
        dup = True
    node_ids = sorted({nd["id"] for s in graphs.values() for nd in s["nodes"]})
    t1_ids = draw(st.lists(st.sampled_from(node_ids), max_size=3, unique=True)) if node_ids else []
    # earlier queries on the SAME index (other agents / texts): whatever the index or the fan-out memoises between calls
    # must not leak into this one
    pre = []
    if mode == "plain" and draw(st.sampled_from([True, False])):
        for _ in range(draw(st.integers(1, 2))):
            pre.append({"agent": draw(st.sampled_from(["A", "B", "world"])),
                        "text": " ".join(draw(st.lists(st.sampled_from(ep_words + world.VOCAB[:3]), min_size=1, max_size=3)))})
        if draw(st.booleans()):
            t2["owner_scope"] = "agent"
    # stage cache on (LRU or size-aware) with the compared request issued before: the compared call is then a cache hit
    # on an entry the SAME path filled
    t2cache = draw(st.sampled_from(["off"] * 8 + ["lru", "bytes"]))
    if t2cache != "off":
        pre = pre + [{"same": True}] * draw(st.sampled_from([0, 1, 1]))
    case = {"free_runs": draw(st.sampled_from([0, 0, 2])), "pre": pre, "eps": eps, "graphs": graphs, "t2": t2, "agent": agent, "text": text, "t1_ids": t1_ids,
            "slice_k": draw(st.sampled_from([None, None, None, 0, 1, 2])), "workers": draw(st.sampled_from([3, 3, 4, 5, 6] if skewed else [2, 2, 3, 4, 5, 6, 8])),
            "prio": list(draw(st.permutations(list(range(12))))), "off": draw(st.sampled_from(OFF_MODES)),
            "perf_mode": draw(st.sampled_from(PERF_MODES)), "layers": layers, "t2cache": t2cache}
    if gel is not None:
        case["gel"] = gel
    if dup:
        case["dup_ids"] = True
    if draw(st.sampled_from([True, False, False])):
        case["par_extra"] = {"t1": draw(st.booleans()), "agents": draw(st.booleans())}
    return case


def _t2_tiers(case):
    return list(case["t2"].get("tiers") or T2_TIERS)


def _t2_perf(case):
    mode = case.get("perf_mode") or ("both" if case.get("metrics_gate") else "none")
    perf = {}
    if mode == "both":
        perf = {"enabled": True, "metrics": {"report_memory": True}}
    elif mode == "enabled_only":
        perf = {"enabled": True, "metrics": {"report_memory": False}}
    elif mode == "metrics_only":
        perf = {"enabled": False, "metrics": {"report_memory": True}}
    return perf


def run_t2_once(case, parallel: bool, tiers=None, known=None, free=False, eps=None):
    """-> (("ok", view) | ("exc", exception), info). view = comparable projection of the T2Result."""
    import clematis.engine.stages.t2.core as core

    world.reset_engine_globals()
    t2 = copy.deepcopy(case["t2"])
    if tiers is not None:
        t2["tiers"] = list(tiers)
    perf = _t2_perf(case)
    t2cache = case.get("t2cache") or "off"
    if t2cache == "lru":
        t2["cache"] = {"enabled": True, "max_entries": 8, "ttl_s": 300}
    elif t2cache == "bytes":
        perf = world.deep_merge(perf, {"enabled": True, "t2": {"cache": {"max_entries": 8, "max_bytes": 0}}})
    w = int(case["workers"])
    extra = dict(case.get("par_extra") or {})
    if parallel:
        perf["parallel"] = dict(extra, enabled=True, t2=True, max_workers=w)
    else:
        off = case.get("off", "absent")
        if off == "disabled":
            perf["parallel"] = dict(extra, enabled=False, t2=True, max_workers=w)
        elif off == "gate_off":
            perf["parallel"] = dict(extra, enabled=True, t2=False, max_workers=w)
        elif off == "workers1":
            perf["parallel"] = dict(extra, enabled=True, t2=True, max_workers=1)
        elif off == "workers0":
            perf["parallel"] = dict(extra, enabled=True, t2=True, max_workers=0)
    over = {"t2": t2}
    if perf:
        over["perf"] = perf
    cfg = world.validated_cfg(over)
    ctx = world.make_ctx(cfg, agent=case["agent"], now=world.NOW_ISO, now_ms=world.NOW_MS, enc=world.BowEncoder())
    if case.get("slice_k") is not None:
        ctx.slice_budgets = {"t2_k": case["slice_k"]}
    store = world.build_store(case["graphs"])
    idx = world.build_index(case["eps"] if eps is None else eps)
    state = {"store": store, "active_graphs": list(case["graphs"].keys()), "mem_index": idx}
    if case.get("gel") is not None:
        state["graph"] = copy.deepcopy(case["gel"])
    t1 = SimpleNamespace(graph_deltas=[{"op": "upsert_node", "id": i} for i in case["t1_ids"]], metrics={})
    id0 = world.index_digest(idx)

    for pq in case.get("pre") or []:
        if pq.get("same"):
            # the compared request itself, issued earlier on the same state (fills the stage cache when one is on)
            pctx = world.make_ctx(cfg, agent=case["agent"], now=world.NOW_ISO, now_ms=world.NOW_MS, enc=world.BowEncoder())
            if case.get("slice_k") is not None:
                pctx.slice_budgets = {"t2_k": case["slice_k"]}
            ptext, pt1 = case["text"], t1
        else:
            pctx = world.make_ctx(cfg, agent=pq["agent"], now=world.NOW_ISO, now_ms=world.NOW_MS, enc=world.BowEncoder())
            ptext, pt1 = pq["text"], SimpleNamespace(graph_deltas=[], metrics={})
        try:
            core.t2_semantic(pctx, state, ptext, pt1)  # same path, free-running
        except Exception:  # noqa: BLE001 - only the last call is compared
            pass

    def view(res):
        return {"retrieved": [(str(h.id), float(h.score), h.text) for h in res.retrieved],
                "residual": copy.deepcopy(res.graph_deltas_residual),
                "metrics": _strip(copy.deepcopy(res.metrics), T2_GATED_KEYS)}

    if not parallel:
        try:
            res = core.t2_semantic(ctx, state, case["text"], t1)
        except Exception as e:  # noqa: BLE001 - compared with the parallel run
            return ("exc", e), {}
        return ("ok", view(res)), {}
    if free:
        # the engine's own thread pool, nothing gated: shard tasks really overlap (1 us switch interval)
        import sys as _sys
        old_si = _sys.getswitchinterval()
        _sys.setswitchinterval(1e-6)
        try:
            try:
                res = core.t2_semantic(ctx, state, case["text"], t1)
            except Exception as e:  # noqa: BLE001
                return ("exc", e), {"free": True}
        finally:
            _sys.setswitchinterval(old_si)
        return ("ok", view(res)), {"free": True}
    nsh = len(list(idx._iter_shards_for_t2("exact_semantic", suggested=w)))
    gate = Gate(nsh)
    prio = [p for p in case["prio"] if p < nsh]
    baseline = set(threading.enumerate())
    with _Fanout(core, enter_in_wrapper=True, fix_none_merge=(lambda: known(F_MERGE)) if known else None) as fan:
        fan.gate = gate
        outcome, info = drive(gate, lambda: core.t2_semantic(ctx, state, case["text"], t1), min(w, nsh), prio)
        info["fanned"] = len(fan.calls)
        info["substituted"] = fan.substituted
    _no_stray_threads(baseline)
    info["shards"] = nsh
    if info["early_return"]:
        raise Violation("t2_semantic returned while shard tasks were still running", case, "t2-early-return")
    if world.index_digest(idx) != id0:
        raise Violation("parallel t2_semantic modified the memory index", case, "t2-mutates")
    if outcome[0] == "exc":
        if not isinstance(outcome[1], Exception):
            raise outcome[1]
        return outcome, info
    return ("ok", view(outcome[1])), info


_CORE_KEYS = ("k_returned", "k_used", "k_residual", "sim_stats", "score_stats")


def _t2_diff(seq, par, model=False):
    """None when equal, else a short description. model=True: comparison against a sequential run in which one tier was
    renamed to '<tier>#off' (walked, empty): tier names are mapped back and the tier-name-derived cache_misses is skipped."""
    if seq["retrieved"] != par["retrieved"]:
        return f"retrieved differ: sequential {[(i, round(s, 6)) for i, s, _ in seq['retrieved']]}, parallel {[(i, round(s, 6)) for i, s, _ in par['retrieved']]}"
    if seq["residual"] != par["residual"]:
        return f"residual nudges differ: sequential {seq['residual']}, parallel {par['residual']}"
    ms, mp = dict(seq["metrics"]), dict(par["metrics"])
    if model:
        for m in (ms, mp):
            m["tier_sequence"] = [t[: -len(_OFF)] if str(t).endswith(_OFF) else t for t in m.get("tier_sequence", [])]
        ms = {k: ms.get(k) for k in _CORE_KEYS + ("tier_sequence",)}
        mp = {k: mp.get(k) for k in _CORE_KEYS + ("tier_sequence",)}
    if ms != mp:
        d = {k: (ms.get(k), mp.get(k)) for k in sorted(set(ms) | set(mp)) if ms.get(k) != mp.get(k)}
        return f"metrics differ (sequential, parallel): {d}"
    return None


def _swap(tiers, name):
    return [t + _OFF if t == name else t for t in tiers]


def check_t2(case, rec=None):
    known = rec.is_known if rec is not None else None
    tiers = _t2_tiers(case)
    desc = (f"{len(case['eps'])} episodes, workers {case['workers']}, tiers {tiers}, k {case['t2'].get('k_retrieval')}, "
            f"threshold {case['t2'].get('sim_threshold')}, scope {case['t2'].get('owner_scope')}/{case['agent']}, query {case['text']!r}")
    seq, _ = run_t2_once(case, False)
    par, info = run_t2_once(case, True, known=known)
    excluded = None
    if seq[0] == "exc":
        if par[0] != "exc":
            raise Violation(f"sequential t2_semantic raised {type(seq[1]).__name__}: {seq[1]} but the parallel run returned ({desc})", case, "t2-raises-differ")
        elif case.get("free_runs"):
            for _ in range(int(case["free_runs"])):
                fr, _fi = run_t2_once(case, True, known=known, free=True)
                if fr[0] != "exc":
                    raise Violation(f"sequential t2_semantic raised {type(seq[1]).__name__}: {seq[1]} but the free-running parallel run "
                                    f"returned ({desc})", case, "t2-free-raises-differ")
    elif par[0] == "exc":
        e = par[1]
        sig = "t2-par-merge-fn-none" if (isinstance(e, TypeError) and "NoneType" in str(e)) else "t2-par-raises"
        raise Violation(f"parallel t2_semantic raised {type(e).__name__}: {e}; the sequential run returns "
                        f"{[i for i, _, _ in seq[1]['retrieved']]} ({desc})", case, sig)
    else:
        diff = _t2_diff(seq[1], par[1])
        if diff is not None:
            excluded = _classify_t2(case, rec, tiers, seq[1], par[1], diff, info, desc)
        elif case.get("free_runs"):
            # same case on the real thread pool with overlapping shard tasks (cold index every time)
            for _ in range(int(case["free_runs"])):
                fr, _fi = run_t2_once(case, True, known=known, free=True)
                if fr[0] == "exc":
                    raise Violation(f"free-running parallel t2_semantic raised {type(fr[1]).__name__}: {fr[1]} ({desc})", case, "t2-free-raises")
                fdiff = _t2_diff(seq[1], fr[1])
                if fdiff is not None:
                    raise Violation(f"free-running parallel T2 (real thread pool, 1 us switch interval) differs from sequential although "
                                    f"every gated completion order agrees: {fdiff} ({desc})", case, "t2-free-differs")
    if rec is not None:
        ne = len(case["eps"])
        size = max(1, -(-ne // max(1, min(int(case["workers"]), ne))))
        pos = {str(e["id"]): i // size for i, e in enumerate(case["eps"])}
        hit_shards = {pos[i] for i, _, _ in seq[1]["retrieved"]} if seq[0] == "ok" else set()
        order = info.get("order") or []
        nt = info.get("shards", 0) >= 2 and len(hit_shards) >= 2 and bool(info.get("fanned"))
        k = int(case["t2"].get("k_retrieval", 64))
        sc = [round(x, 9) for _, x, _ in seq[1]["retrieved"]] if seq[0] == "ok" else []
        labels = [f"shards={info.get('shards')}", "tiers=" + ",".join(t[:2] for t in tiers), f"scope={case['t2'].get('owner_scope')}",
                  f"layers={case['layers']}", f"perf={case.get('perf_mode') or ('both' if case.get('metrics_gate') else 'none')}"] + \
                 (["hit_shards>=2"] if len(hit_shards) >= 2 else []) + \
                 (["completion!=shard_order"] if order != sorted(order) else []) + (["fanout"] if info.get("fanned") else ["no_fanout"]) + \
                 (["k_truncates"] if seq[0] == "ok" and len(seq[1]["retrieved"]) == k else []) + \
                 (["equal_scores_among_hits"] if len(set(sc)) < len(sc) else []) + \
                 (["residual>0"] if seq[0] == "ok" and seq[1]["residual"] else []) + ([f"excluded:{excluded}"] if excluded else []) + \
                 ([f"hits={min(len(seq[1]['retrieved']), 3)}{'+' if len(seq[1]['retrieved']) >= 3 else ''}"] if seq[0] == "ok" else ["seq_raises"]) + \
                 (["merge_fn_substituted"] if info.get("substituted") else []) + \
                 (["episodes<workers"] if ne < int(case["workers"]) else []) + (["episodes<=1"] if ne <= 1 else []) + \
                 (["hybrid_reordered"] if seq[0] == "ok" and (seq[1]["metrics"].get("hybrid") or {}).get("k_reordered") else []) + \
                 ([f"t2cache={case.get('t2cache')}"] if (case.get("t2cache") or "off") != "off" else []) + \
                 (["stage_cache_hit"] if seq[0] == "ok" and any(p.get("same") for p in case.get("pre") or []) and (case.get("t2cache") or "off") != "off" else []) + \
                 (["dup_ids"] if case.get("dup_ids") else []) + \
                 (["par_extra_leaves"] if case.get("par_extra") else []) + \
                 ([f"backend={case['t2']['backend']}"] if case["t2"].get("backend") else [])
        rec.case(nontrivial=nt and not excluded, dig=digest(case) if nt and not excluded else None, labels=labels,
                 sample={"episodes": [(e["id"], e.get("owner"), e.get("text"), e.get("ts")) for e in case["eps"]][:8], "t2": case["t2"],
                         "agent": case["agent"], "query": case["text"], "workers": case["workers"], "completion": order,
                         "retrieved": [(i, round(s, 6)) for i, s, _ in seq[1]["retrieved"]] if seq[0] == "ok" else None}
                 if nt and not excluded else None)


def _dedup_eps(eps):
    seen, out = set(), []
    for e in eps:
        if str(e["id"]) not in seen:
            seen.add(str(e["id"]))
            out.append(e)
    return out


def _classify_t2(case, rec, tiers, seq, par, diff, info, desc):
    """The parallel result differs from the sequential one. Attribute the difference to a root cause; a root cause
    listed as known finding is skipped (counted), anything else is a violation."""
    known = rec.is_known if rec is not None else (lambda fid: False)
    quiet = (lambda fid: rec is not None and fid in rec.known)

    def agree(tt):
        """parallel == sequential under tiers tt (or == the exact-tier-empty model when that finding is listed)."""
        s, _ = run_t2_once(case, False, tiers=tt)
        p, _ = run_t2_once(case, True, tiers=tt, known=(lambda fid: quiet(fid)))
        if s[0] != "ok" or p[0] != "ok":
            return False
        if _t2_diff(s[1], p[1], model=True) is None:
            return True
        if "exact_semantic" in tt and quiet(F_EXACT):
            s2, _ = run_t2_once(case, False, tiers=_swap(tt, "exact_semantic"))
            return s2[0] == "ok" and _t2_diff(s2[1], p[1], model=True) is None
        return False

    # root cause 0: an episode id stored more than once - the sequential walk lets the copies use up slots of a tier's
    # top-k before it drops them, the cross-shard merge drops them first; the difference vanishes without the copies
    ids = [str(e["id"]) for e in case["eps"]]
    if len(set(ids)) < len(ids):
        s0, _ = run_t2_once(case, False, eps=_dedup_eps(case["eps"]))
        p0, _ = run_t2_once(case, True, eps=_dedup_eps(case["eps"]), known=(lambda fid: quiet(fid)))
        if s0[0] == "ok" and p0[0] == "ok" and _t2_diff(s0[1], p0[1]) is None:
            raise Violation(f"parallel T2 differs from sequential when an episode id is stored more than once (ids {ids}): {diff} ({desc})",
                            case, "t2-par-duplicate-id")
    # root cause 1: the exact tier contributes nothing in the parallel path
    if "exact_semantic" in tiers:
        s2, _ = run_t2_once(case, False, tiers=_swap(tiers, "exact_semantic"))
        if s2[0] == "ok" and _t2_diff(s2[1], par, model=True) is None:
            if known(F_EXACT):
                return F_EXACT
            raise Violation(f"parallel T2 drops the exact_semantic tier (result equals a sequential run whose exact tier is empty): {diff} ({desc})",
                            case, "t2-par-exact-tier-empty")
    # root cause 2: cluster tier evaluated per shard - the difference vanishes when the cluster tier is taken out
    if "cluster_semantic" in tiers and agree(_swap(tiers, "cluster_semantic")):
        if known(F_CLUSTER):
            return F_CLUSTER
        raise Violation(f"parallel T2 evaluates the cluster_semantic tier per shard (centroids / top-m chosen inside each shard): {diff} ({desc})",
                        case, "t2-par-cluster-per-shard")
    raise Violation(f"parallel T2 differs from sequential with shard completion order {info.get('order')}: {diff} ({desc})", case, "t2-par-differs")


def sub_t2(rec, seed, shard, nshards, n=100, shrink=True):
    run_hypothesis(rec, seed, t2_cases(), lambda c: check_t2(c, rec), max_examples=n, shrink=shrink, name="t2_fanout")


def replay_t2(case):
    from checks.c03 import _fix_floats
    check_t2(_fix_floats(case), None)


SUBCHECKS = [
    Sub("par_exhaustive", sub_par_exhaustive, quick={"max_n": 5, "skip_redundant": True}, thorough={"max_n": 6}, shards_quick=8, shards_thorough=16,
        exhaustive=True, replay=replay_par),
    Sub("par_sampled", sub_par_sampled, quick={"n": 300}, thorough={"n": 6000}, shards_quick=2, shards_thorough=8, replay=replay_par),
    Sub("par_free", sub_par_free, quick={"n": 150}, thorough={"n": 3000}, shards_quick=2, shards_thorough=8, replay=replay_par),
    Sub("t1_fanout", sub_t1, quick={"n": 80}, thorough={"n": 800}, shards_quick=4, shards_thorough=16, replay=replay_t1),
    Sub("t2_fanout", sub_t2, quick={"n": 120}, thorough={"n": 1500}, shards_quick=4, shards_thorough=16, replay=replay_t2),
]


# ================================================================================================
# known-finding probes: the specific minimal input of each listed defect (True while it still reproduces)
# ================================================================================================

def _ep(eid, text, age_s=3600, owner="A", cluster=None):
    ep = {"id": eid, "owner": owner, "text": text, "vec_full": world.BowEncoder().vec(text), "ts": world.iso_minus(world.NOW_ISO, age_s)}
    if cluster:
        ep["aux"] = {"cluster_id": cluster}
    return ep


def _t2_probe_case(eps, tiers, **t2):
    cfg = {"cache": {"enabled": False}, "k_retrieval": 5, "sim_threshold": 0.3, "owner_scope": "any", "tiers": tiers}
    cfg.update(t2)
    return {"eps": eps, "graphs": {}, "t2": cfg, "agent": "A", "text": "apple", "t1_ids": [], "slice_k": None, "workers": 2,
            "prio": list(range(12)), "off": "absent", "metrics_gate": False, "layers": "none"}


PROBE_CASES = {
    # two episodes = two shards: the fan-out cannot run at all
    F_MERGE: _t2_probe_case([_ep("e1", "apple"), _ep("e2", "apple pear")], ["archive"]),
    # both episodes are one hour old and match the query: sequential returns both from the exact tier
    F_EXACT: _t2_probe_case([_ep("e1", "apple"), _ep("e2", "apple pear")], ["exact_semantic"]),
    # globally cluster c1 (centroid 'apple') wins top-1 and only e1 is eligible; shard 2 holds only cluster c2, ranks it
    # first locally and contributes e4
    F_CLUSTER: _t2_probe_case([_ep("e1", "apple", cluster="c1"), _ep("e2", "pear", cluster="c2"), _ep("e3", "pear", cluster="c2"),
                               _ep("e4", "pear apple", cluster="c2")], ["cluster_semantic"], clusters_top_m=1),
    # e1 stored twice (shards 1 and 2), k=2: sequential top-2 of the tier is [e1, e1] -> [e1]; the merge returns [e1, e2]
    F_DUP: dict(_t2_probe_case([_ep("e1", "apple"), _ep("e3", "pear"), _ep("e1", "apple"), _ep("e2", "apple pear")], ["archive"],
                               k_retrieval=2, sim_threshold=0.0), dup_ids=True),
    # LRU of one entry, two graphs, same text twice; first call completes in order [g2, g1]
    F_T1_EVICT: {"graphs": {"g1": {"nodes": [{"id": "a", "label": "apple", "tags": []}], "edges": []},
                            "g2": {"nodes": [{"id": "b", "label": "apple", "tags": []}], "edges": []}},
                 "order": ["g1", "g2"], "t1": {"decay": {"mode": "exp_floor", "rate": 0.6, "floor": 0.05}}, "cache": "lru_small",
                 "cache_n": 1, "perf": {"enabled": False, "metrics": {"report_memory": False}}, "workers": 2, "off": "absent",
                 "calls": [{"text": "apple", "prio": [1, 0]}, {"text": "apple", "prio": [0, 1]}], "validated": False},
}


def _probe_t2(fid, behind=()):
    """Re-run the finding's minimal case; defects listed in `behind` (earlier on the same code path) are neutralised the
    same way the oracle does it, so the probe keeps seeing its own defect until that one is fixed."""
    case = PROBE_CASES[fid]
    seq, _ = run_t2_once(case, False)
    par, _ = run_t2_once(case, True, known=(lambda f: f in behind))
    if par[0] == "exc":
        return fid == F_MERGE and isinstance(par[1], TypeError)
    if fid == F_MERGE or seq[0] != "ok":
        return False
    if fid == F_EXACT:
        return bool(seq[1]["retrieved"]) and not par[1]["retrieved"]
    return _t2_diff(seq[1], par[1]) is not None


def _probe_t1_evict():
    try:
        check_t1(PROBE_CASES[F_T1_EVICT], None)
    except Violation as v:
        return v.sig == "t1-cache-eviction-order"
    return False


KNOWN_PROBES = {
    F_MERGE: lambda: _probe_t2(F_MERGE),
    F_EXACT: lambda: _probe_t2(F_EXACT, behind=(F_MERGE,)),
    F_CLUSTER: lambda: _probe_t2(F_CLUSTER, behind=(F_MERGE,)),
    F_T1_EVICT: _probe_t1_evict,
    F_DUP: lambda: _probe_t2(F_DUP),
}
