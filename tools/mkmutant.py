#!/usr/bin/env python3
"""tools/mkmutant.py <out.diff> <repo-relative-file> <old> <new> [count]  — write a unified diff (a/ b/ prefixes, -p1)
replacing the first (or count-th) occurrence of <old> by <new> in the file of /repo's working tree."""
import difflib, sys, os
out, rel, old, new = sys.argv[1:5]
nth = int(sys.argv[5]) if len(sys.argv) > 5 else 1
src = open(os.path.join(os.environ.get("VERIF_REPO", "/repo"), rel), encoding="utf-8").read()
idx = -1
for _ in range(nth):
    idx = src.find(old, idx + 1)
    if idx < 0:
        sys.exit(f"pattern not found: {old!r}")
dst = src[:idx] + new + src[idx + len(old):]
d = difflib.unified_diff(src.splitlines(True), dst.splitlines(True), "a/" + rel, "b/" + rel)
os.makedirs(os.path.dirname(out), exist_ok=True)
open(out, "w", encoding="utf-8").write("".join(d))
print("wrote", out)
