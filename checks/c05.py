"""C05 — caches are transparent: a hit equals a fresh computation.

Stateful differential: a rule-based machine drives, for each of 2 same-shaped independent engine states, a cached
engine (generated cache configuration) and a cache-free twin over identical worlds, in one process.  After every turn
the stage results the turn really used (T1, every T2 call incl. the RAG refinement, plan, T4, apply), the utterance and
the engine state left behind must be equal apart from cache diagnostics.

Dimensions generated per machine (init step) and per step — see RULE.  Everything that is recorded in a history is
replayable without Hypothesis (`replay_history`); new step/init fields are optional (`.get`) so old replays still run,
on the world they were recorded with (`wv`).
"""
from __future__ import annotations

import contextlib
import copy

from hypothesis import strategies as st
from hypothesis.stateful import RuleBasedStateMachine, initialize, rule, precondition

from harness.runner import Sub, Violation, run_machine, digest
from harness import world, observe

LEVEL = "exploration"
RULE = ("Hypothesis rule-based machine over {turn(state, agent, text, cfg variant, now advance), repeat-last-turn-with-one-"
        "dimension-changed (variant | agent | state | case/space spelling | now | nothing), graph edits through every "
        "store API (upsert_nodes / upsert_edges with new objects or read-modify-write of the stored record, "
        "store.apply_deltas; new id or same-count edit of weight/label/rel/tags/endpoints), add episode (new id or "
        "re-add of an existing id; owner, age), GEL edge edit, toggle kill switch, planner reflection flag, flip between "
        "two cache configurations} on 2 same-shaped engine states; cached engine vs cache-free twin compared after every "
        "turn. Per machine: cache configuration(s) (stage LRU+TTL incl. 1 s TTLs, byte-bounded perf caches, turn-level "
        "manager, any mix), 2-4 config variants plus their single-leaf neighbours (T1 caps/decay/multipliers, T2 ranking/tiers/"
        "hybrid/quality/owner scope, scheduler slice budgets, perf gate with caps kept, parallel T1/T2, embedding-store reader, "
        "reflection writer, GEL updates by the turn) on top of a base overlay, encoder, "
        "state shape (dict | attribute object sharing the process-level cache slot), second state with its own or the "
        "same graphs, agents with own or shared graph sets. Non-trivial = history in which the cached engine served >=1 "
        "result from a cache (stage cache hit counter or cached result object re-served) after >=1 mutating rule or "
        "agent/state/config/now switch. Distinct = digest of the history.")
ASSUMPTIONS = ["cache diagnostics excluded from the comparison: cache_* / max_delta / t1.cache_* / t2.cache_* / "
               "cache_hit / cache_size metrics",
               "stage TTLs follow the logical clock (ctx.now_ms); expiry only ever turns a hit into a fresh computation, "
               "so it needs no oracle clause of its own",
               "the engine state left behind by a turn (store, memory index, GEL, version) is the effect of the apply / "
               "reflection / GEL stages and must not depend on caches either",
               "T2 metrics other than cache_* / t2.cache_* belong to the stage result (a hit re-serves the whole result "
               "object); T1 perf gauges that a hit reports as zero are treated as cache diagnostics and not compared",
               "owner isolation is asserted directly on the tiered retrieval path only (the embedding-store reader ranks "
               "the whole store whatever the owner scope, with caches on and off alike)"]

TEXTS = ["apple", "pear", "apple pear", "kiwi fig", "Apple", "apple  pear", "APPLE PEAR"]  # incl. case / whitespace variants
TWINS = {"apple": ["Apple", "apple "], "Apple": ["apple"], "pear": ["Pear", "pear"], "apple pear": ["apple  pear", "APPLE PEAR", "Apple pear"],
         "apple  pear": ["apple pear", "APPLE PEAR"], "APPLE PEAR": ["apple pear", "apple  pear"], "kiwi fig": ["Kiwi  fig", "kiwi fig"]}
AGENTS = ["A", "B"]
ADVANCES = [2000, 3600 * 1000, 86400 * 1000, 4 * 86400 * 1000]
D = 86400


def base_world(i: int, wv: int = 1) -> dict:
    """Two same-shaped worlds: same graph ids, node/edge/episode counts, different contents.
    wv=1 is the world old replays were recorded on; wv=2 adds episodes whose age sits just inside a recency window
    (3 d - 1 s, 3 d - 30 min, 30 d - 30 min), importance / cluster ids and a GEL graph over the episodes."""
    enc = world.BowEncoder()
    if i == 0:
        nodes = [("a", "apple"), ("b", "pear"), ("c", "kiwi"), ("f", "fig")]
        edges = [("e0", "a", "b", 0.9, "supports"), ("e1", "f", "c", 0.8, "supports"), ("e2", "a", "f", 0.5, "associates")]
        eps = [("e1", "A", "apple pear"), ("e2", "A", "apple apple kiwi"), ("e3", "B", "apple fig"), ("e4", "B", "pear kiwi"),
               ("e5", "world", "kiwi fig apple"), ("e6", "A", "pear")]
        eps2 = [("e7", "B", "apple pear kiwi"), ("e8", "A", "apple fig fig"), ("e9", "world", "pear apple")]
        gel = [("e1", "e6", 0.9), ("e2", "e4", 0.5), ("e3", "e5", -0.5), ("e1", "e7", 0.3)]
    else:
        nodes = [("a", "pear"), ("b", "apple"), ("c", "fig"), ("f", "kiwi")]
        edges = [("e0", "a", "b", 0.2, "contradicts"), ("e1", "c", "b", 0.8, "supports"), ("e2", "f", "a", 0.9, "supports")]
        eps = [("e1", "B", "pear fig"), ("e2", "B", "apple"), ("e3", "A", "pear pear"), ("e4", "world", "apple kiwi"),
               ("e5", "A", "fig kiwi pear"), ("e6", "B", "apple fig")]
        eps2 = [("e7", "A", "apple pear"), ("e8", "B", "kiwi apple apple"), ("e9", "world", "fig pear")]
        gel = [("e2", "e5", 0.9), ("e1", "e4", -0.5), ("e3", "e6", 0.5), ("e2", "e8", 0.3)]
    g1 = {"nodes": [{"id": n, "label": lb, "tags": []} for n, lb in nodes],
          "edges": [{"id": e, "src": s, "dst": d, "w": w, "rel": r} for e, s, d, w, r in edges]}
    g2 = {"nodes": [{"id": "x", "label": "fig" if i == 0 else "apple", "tags": []}, {"id": "y", "label": "plum", "tags": []}],
          "edges": [{"id": "e0", "src": "x", "dst": "y", "w": 0.7, "rel": "supports"}]}
    ages = [0, 86400, 5 * 86400, 20 * 86400, 40 * 86400, 3600]
    out = {"graphs": {"g1": g1, "g2": g2}, "agents": {"A": ["g1"], "B": ["g1", "g2"]},
           "eps": [{"id": eid, "owner": ow, "text": tx, "ts": world.iso_minus(world.NOW_ISO, ages[j]), "vec_full": enc.vec(tx)}
                   for j, (eid, ow, tx) in enumerate(eps)]}
    if wv >= 2:
        ages2 = [3 * D - 1, 3 * D - 1800, 30 * D - 1800]
        for j, (eid, ow, tx) in enumerate(eps2):
            out["eps"].append({"id": eid, "owner": ow, "text": tx, "ts": world.iso_minus(world.NOW_ISO, ages2[j]), "vec_full": enc.vec(tx)})
        for j, e in enumerate(out["eps"]):
            aux = {}
            if j % 3 == 0:
                aux["importance"] = [1.0, 0.0, 0.9][(j // 3) % 3]
            if j % 2 == 1:
                aux["cluster_id"] = "c1" if j < 5 else "c2"
            if aux:
                e["aux"] = aux
        g = {"nodes": {e["id"]: {"id": e["id"]} for e in out["eps"]}, "edges": {}, "meta": {}}
        for a, b, w in gel:
            g["edges"][_gel_key(a, b)] = _gel_rec(a, b, w)
        out["gel"] = g
    return out


def _gel_key(a, b):
    s, d = (a, b) if a <= b else (b, a)
    return f"{s}→{d}"


def _gel_rec(a, b, w):
    s, d = (a, b) if a <= b else (b, a)
    return {"id": f"{s}→{d}", "src": s, "dst": d, "weight": float(w), "rel": "coact", "attrs": {}}


NOCACHE = {"t1": {"cache": {"enabled": False}}, "t2": {"cache": {"enabled": False}}, "t4": {"cache": {"enabled": False}}}

_STAGE_CC = [{"enabled": True}, {"enabled": True, "max_entries": 2}, {"enabled": False}, {"enabled": True, "ttl_s": 1}]
_TURN_CC = [{"enabled": True}, {"enabled": True, "max_entries": 2}, {"enabled": False}, {"enabled": True, "ttl_sec": 1}]
_CACHE_CFGS = st.fixed_dictionaries({
    "t1": st.sampled_from(_STAGE_CC[:3] + _STAGE_CC[:2] + _STAGE_CC[3:]),
    "t2": st.sampled_from(_STAGE_CC[:3] + _STAGE_CC[:2] + _STAGE_CC[3:]),
    "t4": st.sampled_from(_TURN_CC[:3] + _TURN_CC[:2] + _TURN_CC[3:]),
    "perf": st.sampled_from([None, None, {"t1": {"cache": {"max_entries": 8, "max_bytes": 100000}}},
                             {"t2": {"cache": {"max_entries": 8, "max_bytes": 100000}}},
                             {"t1": {"cache": {"max_entries": 2, "max_bytes": 400}}, "t2": {"cache": {"max_entries": 2, "max_bytes": 4000}}}]),
})

_HY = {"enabled": True, "lambda_graph": 1.0, "edge_threshold": 0.0}
_SCH = {"enabled": True, "quantum_ms": 10 ** 8}
_Q = {"enabled": True, "fusion": {"mode": "score_interp", "alpha_semantic": 0.1}}

VARIANTS = [
    {},
    {"t2": {"k_retrieval": 1}},
    {"t2": {"k_retrieval": 2}},
    {"t2": {"owner_scope": "agent"}},
    {"t2": {"owner_scope": "world"}},
    {"t2": {"ranking": {"alpha_sim": 0.2, "beta_recency": 0.8, "gamma_importance": 0.0}}},
    {"t2": {"sim_threshold": 0.6}},
    {"t2": {"tiers": ["archive"]}},
    {"t2": {"tiers": ["exact_semantic"], "exact_recent_days": 3}},
    {"t2": {"residual_cap_per_turn": 1}},
    {"t1": {"decay": {"mode": "attn_quad", "alpha": 2.0}}},
    {"t1": {"radius_cap": 1}},
    {"t1": {"queue_budget": 1}},
    {"t1": {"node_budget": 0.5}},
    {"t1": {"edge_type_mult": {"supports": 0.1, "associates": 0.6, "contradicts": 0.8}}},
    {"perf": {"t1": {"caps": {"frontier": 1}}}, "_perf_enabled": True},
    {"perf": {"t1": {"caps": {"frontier": 1}}}, "_perf_enabled": False},
    {"t2": {"hybrid": {"enabled": True, "lambda_graph": 1.0, "edge_threshold": 0.0}}},
    # scheduler slice budgets (huge quantum: only budget-driven effects); neighbours differ in one budget
    {"scheduler": {"enabled": True, "quantum_ms": 10 ** 8, "budgets": {"wall_ms": 10 ** 9, "t1_iters": 1}}},
    {"scheduler": {"enabled": True, "quantum_ms": 10 ** 8, "budgets": {"wall_ms": 10 ** 9, "t1_iters": 3}}},
    {"scheduler": {"enabled": True, "quantum_ms": 10 ** 8, "budgets": {"wall_ms": 10 ** 9, "t1_pops": 1}}},
    {"scheduler": {"enabled": True, "quantum_ms": 10 ** 8, "budgets": {"wall_ms": 10 ** 9, "t1_pops": 7}}},
    {"scheduler": {"enabled": True, "quantum_ms": 10 ** 8, "budgets": {"wall_ms": 10 ** 9, "t2_k": 1}}},
    {"scheduler": {"enabled": True, "quantum_ms": 10 ** 8, "budgets": {"wall_ms": 10 ** 9, "t2_k": 4}}},
    # (indices are recorded in replays: append only)  single-leaf neighbours of the default config / of earlier variants
    {"t1": {"iter_cap": 1}},  # 24
    {"t1": {"decay": {"mode": "exp_floor", "rate": 0.3, "floor": 0.2}}},  # 25
    {"t1": {"decay": {"mode": "attn_quad", "alpha": 0.5}}},  # 26 ~ 10
    {"t2": {"tiers": ["cluster_semantic"], "clusters_top_m": 1}},  # 27
    {"t2": {"tiers": ["cluster_semantic"], "clusters_top_m": 3}},  # 28 ~ 27
    {"t2": {"tiers": ["exact_semantic"], "exact_recent_days": 30}},  # 29 ~ 8
    {"t2": {"ranking": {"alpha_sim": 0.2, "beta_recency": 0.0, "gamma_importance": 0.8}}},  # 30 ~ 5
    {"t2": {"hybrid": {"enabled": True, "lambda_graph": 1.0, "edge_threshold": 0.0, "walk_hops": 2}}},  # 31 ~ 17
    {"t2": {"hybrid": {"enabled": True, "lambda_graph": 0.1, "edge_threshold": 0.0}}},  # 32 ~ 17
    {"t2": {"hybrid": {"enabled": True, "lambda_graph": 1.0, "edge_threshold": 0.0, "max_bonus": 0.01}}},  # 33 ~ 17
    {"t2": {"sim_threshold": 0.3}},  # 34 ~ 6
    {"t2": {"residual_cap_per_turn": 0}},  # 35 ~ 9
    {"t3": {"max_rag_loops": 0}},  # 36
    {"t3": {"tokens": 4}},  # 37
    {"t1": {"node_budget": 2.0}},  # 38 ~ 13
    {"t1": {"radius_cap": 2}},  # 39 ~ 11
    {"t1": {"queue_budget": 3}},  # 40 ~ 12
    {"t3": {"max_ops_per_turn": 1}},  # 41
    # ---- hardening round: leaves of the T1 key / T2 request fingerprint that no variant touched
    {"perf": {"t1": {"caps": {"visited": 8}}}, "_perf_enabled": True},  # 42
    {"perf": {"t1": {"caps": {"visited": 8}}}, "_perf_enabled": False},  # 43 ~ 42
    {"perf": {"t1": {"dedupe_window": 8}}, "_perf_enabled": True},  # 44
    {"perf": {"t1": {"dedupe_window": 8}}, "_perf_enabled": False},  # 45 ~ 44
    {"perf": {"parallel": {"enabled": True, "t1": True, "max_workers": 2}}, "_perf_enabled": True},  # 46
    {"perf": {"parallel": {"enabled": True, "t2": True, "max_workers": 2}}, "_perf_enabled": True},  # 47
    {"t2": {"quality": _Q}},  # 48
    {"t2": {"quality": {"enabled": True, "fusion": {"mode": "score_interp", "alpha_semantic": 0.9}}}},  # 49 ~ 48
    {"t2": {"quality": dict(_Q, mmr={"enabled": True, "lambda": 0.1, "k": 2})}},  # 50 ~ 48
    {"t2": {"quality": dict(_Q, mmr={"enabled": True, "lambda": 0.9, "k": 2})}},  # 51 ~ 50
    {"t2": {"quality": dict(_Q, normalizer={"enabled": True, "min_token_len": 5})}},  # 52 ~ 48 (outside quality_digest)
    {"t2": {"quality": dict(_Q, lexical={"bm25_k1": 0.0, "bm25_b": 0.0, "stopwords": "none"})}},  # 53 ~ 48
    {"t2": {"hybrid": dict(_HY, anchor_top_m=1, walk_hops=2)}},  # 54 ~ 31
    {"t2": {"hybrid": dict(_HY, degree_norm="invdeg")}},  # 55 ~ 17
    {"t2": {"hybrid": dict(_HY, k_max=2)}},  # 56 ~ 17
    {"t2": {"hybrid": dict(_HY, use_graph=False)}},  # 57 ~ 17
    {"t2": {"hybrid": dict(_HY, edge_threshold=0.6)}},  # 58 ~ 17
    {"t2": {"hybrid": dict(_HY, walk_hops=2, damping=0.05)}},  # 59 ~ 31
    {"t2": {"hybrid": _HY}, "graph": {"enabled": True, "update": {"alpha": 0.3}}},  # 60 ~ 17: the turn itself edits the GEL
    {"t3": {"allow_reflection": True}, "_needs_dim32": True},  # 61: the turn itself adds an episode (reflection writer)
    {"t4": {"cache_bust_mode": "none"}},  # 62
    {"t1": {"decay": {"mode": "exp_floor", "rate": 0.3, "floor": 0.6}}},  # 63 ~ 25
    {"t1": {"decay": {"mode": "exp_floor", "rate": 0.9, "floor": 0.2}}},  # 64 ~ 25
    {"t1": {"edge_type_mult": {"supports": 0.1, "associates": 1.5, "contradicts": 0.8}}},  # 65 ~ 14
    {"t1": {"edge_type_mult": {"supports": 1.0, "associates": 0.6, "contradicts": 0.0}}},  # 66 ~ 0
    {"t3": {"policy": {"tau_low": 0.99, "tau_high": 0.995}}},  # 67: every turn asks for the RAG refinement (second T2 call)
    {"t2": {"k_retrieval": 3, "tiers": ["exact_semantic"], "exact_recent_days": 3}},  # 68 ~ 8
    {"t2": {"owner_scope": "agent", "tiers": ["exact_semantic"], "exact_recent_days": 3}},  # 69 ~ 8, 3
    {"scheduler": dict(_SCH, budgets={"wall_ms": 10 ** 9, "t1_iters": 0})},  # 70 ~ 18 (falsy zero budget)
    {"scheduler": dict(_SCH, budgets={"wall_ms": 10 ** 9, "t2_k": 0})},  # 71 ~ 22
    {"scheduler": dict(_SCH, budgets={"wall_ms": 10 ** 9})},  # 72 ~ 18..23: scheduler on, default budgets
    {"t1": {"edge_type_mult": {"supports": 0.0, "associates": 0.6, "contradicts": 0.8}}},  # 73 ~ 0, 14: a relation switched off
    {"t1": {"edge_type_mult": {"supports": 1.0, "associates": 0.0, "contradicts": 0.8}}},  # 74 ~ 0
    # embedding-store reader (perf-gated retrieval path; "<STORE>" = shards written into the machine's sandbox, vectors
    # rotated between the episodes so that its results differ visibly from the in-memory index)
    {"t2": {"embed_root": "<STORE>"}, "perf": {"t2": {"reader": {"partitions": {"enabled": True, "path": "<STORE>"}}}}, "_perf_enabled": True},  # 75
    {"t2": {"embed_root": "<STORE>"}, "perf": {"t2": {"reader": {"partitions": {"enabled": True, "path": "<STORE>"}}}}, "_perf_enabled": False},  # 76 ~ 75
    {"t2": {"embed_root": "<STORE>"}, "perf": {"t2": {"reader": {"partitions": {"enabled": False, "path": "<STORE>"}}}}, "_perf_enabled": True},  # 77 ~ 75
]
NEIGHBOURS = {15: [16], 16: [15], 18: [19], 19: [18, 0], 20: [21, 0], 21: [20], 22: [23, 0], 23: [22],
              26: [10], 10: [26], 27: [28], 28: [27], 29: [8], 8: [29], 30: [5], 5: [30], 31: [17], 32: [17], 33: [17],
              17: [32], 34: [6], 6: [34], 35: [9], 9: [35], 38: [13], 13: [38], 39: [11], 11: [39], 40: [12], 12: [40],
              24: [0], 25: [0], 36: [0], 37: [0], 41: [0], 1: [2], 2: [1], 3: [4], 4: [3],
              42: [43], 43: [42], 44: [45], 45: [44], 46: [0], 47: [0], 48: [49], 49: [48], 50: [51], 51: [50], 52: [48], 53: [48],
              54: [31], 55: [17], 56: [17], 57: [17], 58: [17], 59: [31], 60: [17], 61: [0], 62: [0], 63: [25], 64: [25],
              65: [14], 14: [0, 73], 66: [0], 67: [0], 68: [8], 69: [8], 70: [18], 71: [22], 72: [19], 73: [0, 14], 74: [0], 75: [76, 77], 76: [75], 77: [75]}

# base overlays (index recorded in the init step: append only): every variant of a machine is merged ON TOP of one of
# these, so single-leaf variants meet configurations in which `now`, the GEL, the owner or the metrics gate matter
BASES = [
    {},
    {"t2": {"tiers": ["exact_semantic"], "exact_recent_days": 3}},  # no archive tier re-finds what the window dropped
    {"t2": {"ranking": {"alpha_sim": 0.5, "beta_recency": 0.3, "gamma_importance": 0.2}}},
    {"t2": {"hybrid": {"enabled": True, "lambda_graph": 1.0, "edge_threshold": 0.0}}},
    {"t2": {"owner_scope": "agent"}},
    {"perf": {"metrics": {"report_memory": True}}, "_perf_enabled": True},  # metrics gate open: hits touch the cached object's metrics
    {"scheduler": {"enabled": True, "quantum_ms": 10 ** 8, "budgets": {"wall_ms": 10 ** 9}}},
    {"t3": {"policy": {"tau_low": 0.99, "tau_high": 0.995}}},  # RAG refinement on every turn
    {"t3": {"allow_reflection": True}, "_needs_dim32": True},  # the turn itself adds an episode (machines on the engine's encoder)
    # retrieval through the embedding-store reader while the perf gate is open (variant 76 = same with the gate closed joins)
    {"t2": {"embed_root": "<STORE>"}, "perf": {"t2": {"reader": {"partitions": {"enabled": True, "path": "<STORE>"}}}}, "_perf_enabled": True},
]
_BASE_IDX = st.sampled_from([0, 0, 0, 1, 1, 2, 3, 3, 4, 4, 5, 6, 7, 8, 8, 9, 9])

DIAG_PREFIXES = ("cache_", "t1.cache_", "t2.cache_")


def _merge_cfg(variant: dict, cache_cfg, cached: bool, base: dict = None, dim32: bool = True) -> dict:
    if variant.get("_needs_dim32") and not dim32:
        variant = {}  # the reflection writer embeds with 32 dimensions: only for machines on the engine's own encoder
    if base and base.get("_needs_dim32") and not dim32:
        base = {}
    perf_enabled = variant.get("_perf_enabled")
    if perf_enabled is None and base:
        perf_enabled = base.get("_perf_enabled")
    out = {k: copy.deepcopy(x) for k, x in (base or {}).items() if not k.startswith("_")}
    out = world.deep_merge(out, {k: copy.deepcopy(x) for k, x in variant.items() if not k.startswith("_")})
    if cached:
        out = world.deep_merge(out, {"t1": {"cache": cache_cfg["t1"]}, "t2": {"cache": cache_cfg["t2"]}, "t4": {"cache": cache_cfg["t4"]}})
        if cache_cfg["perf"] is not None:
            out = world.deep_merge(out, {"perf": cache_cfg["perf"]})
            if perf_enabled is None:
                perf_enabled = True
    else:
        out = world.deep_merge(out, NOCACHE)
    if perf_enabled is not None:
        out = world.deep_merge(out, {"perf": {"enabled": bool(perf_enabled)}})
    return out


def _subst(obj, old, new):
    if isinstance(obj, dict):
        return {k: _subst(v, old, new) for k, v in obj.items()}
    if isinstance(obj, list):
        return [_subst(v, old, new) for v in obj]
    return obj.replace(old, new) if isinstance(obj, str) else obj


class ObjState:
    """Attribute-style engine state (not a dict): the orchestrator and the stages take the getattr/setattr paths and
    the stage caches of ALL such states live in the one process-level slot."""

    def __init__(self, d):
        self.__dict__.update(d)

    def get(self, k, default=None):
        return self.__dict__.get(k, default)

    def __getitem__(self, k):
        return self.__dict__[k]

    def __setitem__(self, k, v):
        self.__dict__[k] = v

    def __contains__(self, k):
        return k in self.__dict__


@contextlib.contextmanager
def _capture_t2_calls(out: list):
    """Every T2 stage call of a turn (main retrieval and RAG refinement), below observe.capture_used's wrapper."""
    import clematis.engine.orchestrator as orch

    orig = getattr(orch, "t2_semantic")

    def w(ctx, state, text, t1):
        r = orig(ctx, state, text, t1)
        out.append({"q": text, "view": observe.t2_view(r), "oid": id(r), "obj": r})
        return r

    orch.t2_semantic = w
    try:
        yield
    finally:
        orch.t2_semantic = orig


def _t2_metrics_view(t2):
    """Every T2 metric that is not a cache diagnostic (sim/score statistics, hybrid and quality telemetry, caps ...)."""
    m = getattr(t2, "metrics", None) or {}
    return {str(k): repr(v) for k, v in sorted(m.items(), key=lambda kv: str(kv[0])) if not str(k).startswith(DIAG_PREFIXES)}


def _plan_view(plan):
    if plan is None:
        return None
    return {"ops": [repr(op) for op in (getattr(plan, "ops", None) or [])], "reflection": bool(getattr(plan, "reflection", False))}


class CacheMachine(RuleBasedStateMachine):
    def __init__(self):
        super().__init__()
        self.history = []
        self._sb = world.sandbox()
        self.root = self._sb.__enter__()
        world.reset_engine_globals()
        self.eng = {}
        self.wv = 1
        self.shape = "dict"
        self.wmode = "distinct"
        self.amode = "split"
        self.encoder = "bow"
        self.kill = {0: False, 1: False}
        self.reflect = {0: False, 1: False}
        self.turn_no = 0
        self.now_ms = world.NOW_MS
        self.cache_cfg = None
        self.cache_cfgs = [None, None]
        self.cache_sel = 0
        self.base = 0
        self.variants = [0]
        self.seen_t2_objs = set()
        self._keep = []
        self.mutated = False
        self.hits_after_mutation = 0
        self.last_key = None
        self.last_turn = None
        self.pending = {0: set(), 1: set()}
        self.labels = set()
        self.new_ids = 0
        self.rec = getattr(type(self), "_rec", None)

    def _build_engines(self):
        """encoder 'bow' (case-insensitive bag of words) or 'default' (the engine's own content-hash adapter, which is
        sensitive to case, spacing and word order - queries that merely look alike embed differently)."""
        self._worlds = {i: base_world(i, self.wv) for i in (0, 1)}
        if self.wmode == "same_graph":  # the second state has the first one's graphs (equal etags, label maps), its own memory
            self._worlds[1]["graphs"] = copy.deepcopy(self._worlds[0]["graphs"])
        for i in (0, 1):
            w = copy.deepcopy(self._worlds[i])
            if self.amode == "shared":  # both agents see the same graphs: they differ by agent id only
                w["agents"] = {"A": ["g1", "g2"], "B": ["g1", "g2"]}
            elif self.amode == "swapped":  # same graph set in a different order (later graphs win label collisions)
                w["agents"] = {"A": ["g1", "g2"], "B": ["g2", "g1"]}
            enc = "bow"
            if self.encoder == "default":
                from clematis.adapters.embeddings import DeterministicEmbeddingAdapter
                ad = DeterministicEmbeddingAdapter(dim=32)
                for e in w["eps"]:
                    e["vec_full"] = [float(x) for x in ad.encode([e["text"]])[0]]
                enc = None
            self.eng[i] = {"C": observe.Engine(copy.deepcopy(w), self.root, encoder=enc),
                           "F": observe.Engine(copy.deepcopy(w), self.root, encoder=enc)}
            if self.shape == "object":
                for side in ("C", "F"):
                    self.eng[i][side].state = ObjState(self.eng[i][side].state)
            self._write_store(i, w)

    def _store_dir(self, i):
        import os

        return os.path.join(self.root, f"store{i}_{self.encoder}")

    def _write_store(self, i, w):
        import os
        import numpy as np
        from clematis.engine.util.embed_store import write_shard

        d = self._store_dir(i)
        if os.path.isdir(d) or not w["eps"]:
            return
        os.makedirs(d)
        ids = [str(e["id"]) for e in w["eps"]]
        vecs = [list(e["vec_full"]) for e in w["eps"]]
        vecs = vecs[1:] + vecs[:1]
        write_shard(d, ids, np.asarray(vecs, dtype=np.float32), dtype="fp32", precompute_norms=False)

    def teardown(self):
        try:
            if self.rec is not None and self.history:
                nt = self.hits_after_mutation > 0
                self.rec.case(nontrivial=nt, dig=digest(self.history) if nt else None,
                              labels=[f"hits_after_mutation={'>0' if nt else '0'}", f"steps={min(len(self.history) // 10 * 10, 40)}+"]
                              + sorted(self.labels),
                              sample=self.history[:12] if nt else None)
        finally:
            self._sb.__exit__(None, None, None)

    def _reflection_possible(self):
        return self.encoder == "default" and (BASES[self.base].get("_needs_dim32") or any(VARIANTS[v].get("_needs_dim32") for v in self.variants))

    def _configure(self, st_):
        """Apply an init step (generated or replayed)."""
        self.cache_cfgs = [st_["cache"], st_.get("cache2")]
        self.cache_sel = 0
        self.cache_cfg = self.cache_cfgs[0]
        self.variants = st_.get("variants") or [0]
        self.base = int(st_.get("base", 0) or 0)
        wv, shape = int(st_.get("wv", 1)), st_.get("shape", "dict")
        wmode, amode, encoder = st_.get("wmode", "distinct"), st_.get("amode", "split"), st_.get("encoder", "bow")
        self.wv, self.shape, self.wmode, self.amode, self.encoder = wv, shape, wmode, amode, encoder
        self._build_engines()
        if self._reflection_possible():
            self.reflect = {0: True, 1: False}
            for side in ("C", "F"):
                self.eng[0][side].state["_planner_reflection_flag"] = True
        self.history.append(st_)
        self.labels.update({f"enc={encoder}", f"shape={shape}", f"wmode={wmode}", f"amode={amode}", f"base={self.base}",
                            f"cache2={'yes' if st_.get('cache2') else 'no'}"})

    @initialize(cc=_CACHE_CFGS, cc2=st.one_of(st.none(), st.none(), _CACHE_CFGS),
                vs=st.lists(st.integers(0, len(VARIANTS) - 1), min_size=2, max_size=4, unique=True),
                encoder=st.sampled_from(["bow", "default"]), base=_BASE_IDX,
                shape=st.sampled_from(["dict", "dict", "object"]), wmode=st.sampled_from(["distinct", "distinct", "same_graph"]),
                amode=st.sampled_from(["split", "shared", "shared", "swapped"]))
    def init(self, cc, cc2, vs, encoder, base, shape, wmode, amode):
        # a machine works with a few config variants only, so the same variant recurs (cache hits) and
        # single-leaf neighbours meet (perf gate open/closed with the caps kept)
        for v in list(vs):
            for nb in NEIGHBOURS.get(v, []):
                if nb not in vs:
                    vs = vs + [nb]
        if base == 9 and 76 not in vs:
            vs = vs + [76]
        step = {"op": "init", "cache": cc, "variants": vs, "encoder": encoder, "wv": 2, "base": base, "shape": shape,
                "wmode": wmode, "amode": amode}
        if cc2 is not None:
            step["cache2"] = cc2
        self._configure(step)

    # ---- rules
    @rule(i=st.sampled_from([0, 1]), agent=st.sampled_from(AGENTS), text=st.sampled_from(TEXTS),
          v=st.integers(0, 7), adv=st.sampled_from([0, 0, 0, 1000, 4 * 86400 * 1000]))
    def turn(self, i, agent, text, v, adv):
        v = self.variants[v % len(self.variants)]
        self._turn(i, agent, text, v, adv)

    # the same rule registered twice more: turns should make up most of a history
    @rule(i=st.sampled_from([0, 1]), agent=st.sampled_from(AGENTS), text=st.sampled_from(TEXTS), v=st.integers(0, 7))
    def turn_b(self, i, agent, text, v):
        self._turn(i, agent, text, self.variants[v % len(self.variants)], 0)

    @rule(i=st.sampled_from([0, 1]), text=st.sampled_from(TEXTS), v=st.integers(0, 7))
    def turn_d(self, i, text, v):
        self._turn(i, "A", text, self.variants[v % len(self.variants)], 0)

    # the previous turn once more with exactly ONE input changed (or none): whatever the keys forget shows at once
    @precondition(lambda self: self.last_turn is not None)
    @rule(change=st.sampled_from(["same", "same", "variant", "variant", "variant", "agent", "state", "text", "now", "now"]),
          k=st.integers(0, 7))
    def turn_again(self, change, k):
        i, agent, text, v = self.last_turn
        adv = 0
        if change == "variant":
            near = [x for x in NEIGHBOURS.get(v, []) if x in self.variants]
            pool = near + near + [x for x in self.variants if x != v]
            if pool:
                v = pool[k % len(pool)]
        elif change == "agent":
            agent = "B" if agent == "A" else "A"
        elif change == "state":
            i = 1 - i
        elif change == "text":
            tw = TWINS.get(text) or TEXTS
            text = tw[k % len(tw)]
        elif change == "now":
            adv = ADVANCES[k % len(ADVANCES)]
        self._turn(i, agent, text, v, adv)

    # one mutation aimed at the state of the previous turn, then that very turn again: the stale-hit scenario by construction
    @precondition(lambda self: self.last_turn is not None)
    @rule(what=st.sampled_from(["upsert", "upsert", "upsert", "episode", "episode", "episode", "gel", "gel", "kill", "flip", "reflect"]),
          gid=st.sampled_from(["g1", "g1", "g2"]),
          ukind=st.sampled_from(["edge_weight", "edge_rel", "node_label", "new_node", "new_edge", "retarget_edge", "edge_weight_inplace",
                                 "edge_rel_inplace", "apply_edge_weight", "apply_new_edge", "apply_new_node", "node_label_inplace",
                                 "node_tags", "node_tags_inplace", "edge_weight_last", "apply_edge_weight"]),
          val=st.sampled_from([0.0, 1.0, -0.9, 0.3]), label=st.sampled_from(["apple", "pear", "kiwi", "zzz"]),
          owner=st.sampled_from(["A", "B", "world"]), etext=st.sampled_from(["apple", "apple pear", "pear", "kiwi fig", "apple apple"]),
          reuse=st.sampled_from([None, None, "e1", "e2", "e3", "e5", "last"]), age=st.sampled_from([7200, 0, 3 * D - 1, 40 * D]),
          keep=st.sampled_from([None, "all", "all", "vec"]), imp=st.sampled_from([None, None, 0.0, 1.0]),
          a=st.sampled_from(["e1", "e2", "e3"]), b=st.sampled_from(["e4", "e5", "e6", "e7"]), w=st.sampled_from([0.0, 0.9, -0.9, 0.3]))
    def edit_and_repeat(self, what, gid, ukind, val, label, owner, etext, reuse, age, keep, imp, a, b, w):
        i, agent, text, v = self.last_turn
        if what == "upsert":
            self.upsert(i, gid, ukind, val, label)
        elif what == "episode":
            self.add_episode(i, owner, etext, reuse, age, keep, imp)
        elif what == "gel" and self.wv >= 2:
            self.gel_edit(i, a, b, w)
        elif what == "kill":
            self.toggle_kill(i)
        elif what == "flip" and self.cache_cfgs[1] is not None:
            self.flip_cache()
        elif what == "reflect" and self._reflection_possible():
            self.toggle_reflect(i)
        self._turn(i, agent, text, v, 0)

    def _turn(self, i, agent, text, v, adv):
        self.turn_no += 1
        self.now_ms += adv
        step = {"op": "turn", "state": i, "agent": agent, "text": text, "variant": v, "adv_ms": adv, "kill": self.kill[i]}
        self.history.append(step)
        variant = VARIANTS[v]
        base = BASES[self.base]
        key = (i, agent, v, self.now_ms // 86400000)
        if self.last_key is not None and key != self.last_key:
            self.mutated = True
        self.last_key = key
        if self.last_turn is not None:
            li, la, lt, lv = self.last_turn
            for name, ch in (("state", li != i), ("agent", la != agent), ("text", lt != text), ("variant", lv != v), ("now", adv != 0)):
                if ch:
                    self.pending[i].add("sw:" + name)
        self.last_turn = (i, agent, text, v)
        n_eps = len(self.eng[i]["F"].state["mem_index"]._eps)
        out = {}
        for side, cached in (("C", True), ("F", False)):
            eng = self.eng[i][side]
            cfgd = _merge_cfg(variant, self.cache_cfg, cached, base, dim32=(self.encoder == "default"))
            cfgd = world.deep_merge(cfgd, {"t4": {"enabled": not self.kill[i]}})
            cfgd = _subst(cfgd, "<STORE>", self._store_dir(i))
            cfg = eng.cfg(cfgd)
            calls = []
            with _capture_t2_calls(calls):
                r = eng.turn(agent, text, cfg, self.turn_no, self.now_ms)
            if r["exc"] is not None:
                raise Violation(f"turn raised on the {'cached' if cached else 'cache-free'} engine: {r['exc']}", self.history, "turn-raises")
            r["t2_all"] = calls
            out[side] = r
        c, f = out["C"], out["F"]
        wrote = len(self.eng[i]["F"].state["mem_index"]._eps) > n_eps
        if wrote:
            self.labels.add("reflection_write")
            self.mutated = True
        # cache hit detection on the cached side
        hit = False
        try:
            if int(c["t1_obj"].metrics.get("cache_hits", 0) or 0) > 0:
                hit = True
                self.labels.add("hit:t1")
        except Exception:
            pass
        if c.get("t2_obj") is not None:
            oid = id(c["t2_obj"])
            if oid in self.seen_t2_objs:
                hit = True
                self.labels.add("hit:turn" if c.get("turn_cache_hit") else "hit:t2stage")
            self.seen_t2_objs.add(oid)
            self._keep.append(c["t2_obj"])  # keep alive so ids are not reused
        rag_c = c["t2_all"][(0 if c.get("turn_cache_hit") else 1):]
        rag_f = f["t2_all"][1:]
        for call in rag_c:
            if call["oid"] in self.seen_t2_objs:
                hit = True
                self.labels.add("hit:t2rag")
            self.seen_t2_objs.add(call["oid"])
            self._keep.append(call["obj"])
        if rag_f:
            self.labels.add("rag")
        if hit and self.mutated:
            self.hits_after_mutation += 1
        if hit:
            self.labels.update("hit_after:" + p for p in self.pending[i])
        self.pending[i] = {"mem:reflection"} if wrote else set()
        if ("t1" in c) != ("t1" in f) or ("t2" in c) != ("t2" in f):
            raise Violation(f"stages executed differ with caches on: {sorted(k for k in ('t1', 't2') if k in c)} vs "
                            f"{sorted(k for k in ('t1', 't2') if k in f)}", self.history, "stages-differ")
        if "t2" not in c:  # the turn yielded at the T1 boundary (slice budget reached)
            self.labels.add("yield:t1")
            if c["t1"] != f["t1"]:
                raise Violation(f"T1 result differs with caches on: {c['t1']} vs fresh {f['t1']}", self.history, "t1-differs")
            if c["line"] != f["line"]:
                raise Violation(f"utterance differs with caches on: {c['line']!r} vs {f['line']!r}", self.history, "utterance")
            self._compare_state(i)
            return
        if c["t1"] != f["t1"]:
            raise Violation(f"T1 result differs with caches on: {c['t1']} vs fresh {f['t1']}", self.history, self._sig("t1", c, f))
        if c["t2"] != f["t2"]:
            raise Violation(f"T2 result differs with caches on: {c['t2']} vs fresh {f['t2']}", self.history, self._sig("t2", c, f))
        mc, mf = _t2_metrics_view(c.get("t2_obj")), _t2_metrics_view(f.get("t2_obj"))
        if mc != mf:
            diff = sorted(k for k in set(mc) | set(mf) if mc.get(k) != mf.get(k))
            raise Violation(f"T2 metrics (other than cache diagnostics) differ with caches on in {diff}: "
                            f"{ {k: mc.get(k) for k in diff} } vs fresh { {k: mf.get(k) for k in diff} }", self.history, "t2-metrics-differ")
        if [x["view"] for x in rag_c] != [x["view"] for x in rag_f]:
            raise Violation(f"T2 result of the RAG refinement differs with caches on: {[x['view'] for x in rag_c]} vs fresh "
                            f"{[x['view'] for x in rag_f]}", self.history, "t2-rag-differs")
        if c["line"] != f["line"]:
            raise Violation(f"utterance differs with caches on: {c['line']!r} vs {f['line']!r}", self.history, "utterance")
        if not c.get("completed"):
            self.labels.add("yield:late")
        # the later stages consume (t1, t2): plan, meta-filter and apply results must agree as well
        for k, what in (("plan", "plan"), ("approved", "T4 approved deltas"), ("reasons", "T4 reasons")):
            cv, fv = (c.get(k), f.get(k)) if k != "plan" else (_plan_view(c.get("plan")), _plan_view(f.get("plan")))
            if cv != fv:
                raise Violation(f"{what} differ with caches on: {cv} vs fresh {fv}", self.history, f"{k}-differs")
        ca, fa = c.get("apply") or {}, f.get("apply") or {}
        if (ca.get("applied"), ca.get("version_etag")) != (fa.get("applied"), fa.get("version_etag")):
            raise Violation(f"apply result differs with caches on: {ca} vs fresh {fa}", self.history, "apply-differs")
        # owner isolation asserted directly
        scope = str(c["t2"].get("owner_scope"))
        if scope == "agent":
            self.labels.add("scope=agent")
            owners = {}
            for e in self._eps(i):
                owners.setdefault(e["id"], set()).add(e.get("owner"))
            for view in [c["t2"]] + [x["view"] for x in rag_c]:
                if view.get("tier_sequence") == ["embed_store"]:
                    continue  # the embedding-store reader ranks the whole store; owner scope is a rule of the tiered path
                for rid, *_ in view["retrieved"]:
                    if agent not in owners.get(rid, set()):
                        raise Violation(f"agent scope: episode {rid} of owner {sorted(map(str, owners.get(rid, [])))} served to agent {agent!r}",
                                        self.history, "owner-leak")
        self._compare_state(i)

    def _compare_state(self, i):
        dc = observe.state_digest(self.eng[i]["C"].state)
        df = observe.state_digest(self.eng[i]["F"].state)
        if dc != df:
            diff = sorted(k for k in set(dc) | set(df) if dc.get(k) != df.get(k))
            raise Violation(f"engine state after the turn differs with caches on in {diff}: "
                            f"{ {k: dc.get(k) for k in diff} } vs fresh { {k: df.get(k) for k in diff} }"[:1500], self.history, "state-differs")

    def _sig(self, stage, c, f):
        return f"{stage}-differs"

    def _eps(self, i):
        return [{"id": str(e.get("id")), "owner": e.get("owner")} for e in self.eng[i]["F"].state["mem_index"]._eps]

    @rule(i=st.sampled_from([0, 1]), gid=st.sampled_from(["g1", "g2"]),
          kind=st.sampled_from(["edge_weight", "edge_rel", "node_label", "new_node", "new_edge", "retarget_edge",
                                "edge_weight_inplace", "edge_rel_inplace", "apply_edge_weight", "apply_new_edge", "apply_new_node",
                                "node_label_inplace", "node_tags", "node_tags_inplace", "edge_weight_last", "apply_edge_weight"]),
          val=st.sampled_from([0.0, 1.0, -0.9, 0.3]), label=st.sampled_from(["apple", "pear", "kiwi", "zzz"]))
    def upsert(self, i, gid, kind, val, label):
        from clematis.engine.types import Node, Edge

        self.history.append({"op": "upsert", "state": i, "gid": gid, "kind": kind, "val": val, "label": label})
        self.mutated = True
        self.pending[i].add("edit:" + kind)
        self.new_ids += 1
        for side in ("C", "F"):
            store = self.eng[i][side].state["store"]
            g = store.get_graph(gid)
            eids = list(g.edges.keys())
            nids = list(g.nodes.keys())
            if kind == "edge_weight" and eids:
                e = g.edges[eids[0]]
                store.upsert_edges(gid, [Edge(id=e.id, src=e.src, dst=e.dst, weight=val, rel=e.rel)])
            elif kind == "edge_weight_last" and eids:
                e = g.edges[eids[-1]]
                store.upsert_edges(gid, [Edge(id=e.id, src=e.src, dst=e.dst, weight=val, rel=e.rel)])
            elif kind == "edge_weight_inplace" and eids:
                e = g.edges[eids[0]]  # read-modify-write: edit the stored record and hand the SAME object back
                e.weight = val
                store.upsert_edges(gid, [e])
            elif kind == "edge_rel_inplace" and eids:
                e = g.edges[eids[-1]]
                e.rel = "contradicts" if e.rel != "contradicts" else "supports"
                store.upsert_edges(gid, [e])
            elif kind == "edge_rel" and eids:
                e = g.edges[eids[-1]]
                store.upsert_edges(gid, [Edge(id=e.id, src=e.src, dst=e.dst, weight=e.weight, rel="contradicts" if e.rel != "contradicts" else "supports")])
            elif kind == "retarget_edge" and eids and len(nids) >= 2:
                e = g.edges[eids[0]]
                store.upsert_edges(gid, [Edge(id=e.id, src=e.dst, dst=e.src, weight=e.weight, rel=e.rel)])
            elif kind == "node_label" and nids:
                n = g.nodes[nids[0]]
                store.upsert_nodes(gid, [Node(id=n.id, label=label, attrs=dict(n.attrs))])
            elif kind == "node_label_inplace" and nids:
                n = g.nodes[nids[-1]]
                n.label = label
                store.upsert_nodes(gid, [n])
            elif kind == "node_tags" and nids:  # tags are seed keywords of T1
                n = g.nodes[nids[-1]]
                store.upsert_nodes(gid, [Node(id=n.id, label=n.label, attrs={"tags": [label]})])
            elif kind == "node_tags_inplace" and nids:
                n = g.nodes[nids[0]]
                tags = n.attrs.setdefault("tags", [])
                if label in tags:
                    tags.remove(label)
                else:
                    tags.append(label)
                store.upsert_nodes(gid, [n])
            elif kind == "new_node":
                store.upsert_nodes(gid, [Node(id=f"n{self.new_ids}", label=label, attrs={"tags": []})])
            elif kind == "new_edge" and len(nids) >= 2:
                store.upsert_edges(gid, [Edge(id=f"x{self.new_ids}", src=nids[0], dst=nids[-1], weight=val, rel="supports")])
            # the store's batch API (what apply_changes calls), on a graph the agents read
            elif kind == "apply_edge_weight" and eids:
                e = g.edges[eids[0]]
                store.apply_deltas(gid, [{"op": "upsert_edge", "id": e.id, "src": e.src, "dst": e.dst, "weight": val, "rel": e.rel}])
            elif kind == "apply_new_edge" and len(nids) >= 2:
                store.apply_deltas(gid, [{"op": "upsert_edge", "src": nids[-1], "dst": nids[0], "weight": val, "rel": "supports"}])
            elif kind == "apply_new_node":
                store.apply_deltas(gid, [{"op": "upsert_node", "id": f"n{self.new_ids}", "label": label}])

    @rule(i=st.sampled_from([0, 1]), owner=st.sampled_from(["A", "B", "world"]),
          text=st.sampled_from(["apple", "apple pear", "pear", "kiwi fig", "apple apple"]),
          reuse=st.sampled_from([None, None, None, None, "e1", "e2", "e3", "e5", "last"]),
          age=st.sampled_from([7200, 7200, 0, 3 * D - 1, 40 * D]), keep=st.sampled_from([None, "all", "all", "vec"]),
          imp=st.sampled_from([None, None, 0.0, 1.0]))
    def add_episode(self, i, owner, text, reuse=None, age=7200, keep=None, imp=None):
        """Memory addition. `reuse` re-adds an id that is already in the index (an update of that memory: the unchanged
        tree appends a second row with the same id); `keep` then carries over the stored row's embedding ('vec') or
        embedding and text ('all'), so only owner / timestamp / importance (/ text) of the memory change."""
        import numpy as np

        self.history.append({"op": "add_episode", "state": i, "owner": owner, "text": text, "reuse": reuse, "age": age,
                             "keep": keep, "imp": imp})
        self.mutated = True
        self.pending[i].add("mem:add" if reuse is None else f"mem:readd:{keep or 'new'}")
        self.new_ids += 1
        for side in ("C", "F"):
            idx = self.eng[i][side].state["mem_index"]
            if getattr(self, "encoder", "bow") == "default":
                from clematis.adapters.embeddings import DeterministicEmbeddingAdapter
                vec = DeterministicEmbeddingAdapter(dim=32).encode([text])[0]
            else:
                vec = np.asarray(world.BowEncoder().vec(text), dtype=np.float32)
            eid, tx = f"n{self.new_ids}", text
            if reuse == "last" and idx._eps:
                eid = str(idx._eps[-1].get("id"))
            elif reuse is not None and reuse != "last":
                eid = reuse
            if reuse is not None and keep is not None:
                stored = [e for e in idx._eps if str(e.get("id")) == eid]
                if stored and stored[-1].get("vec_full") is not None:
                    vec = np.array(stored[-1]["vec_full"], dtype=np.float32)
                    if keep == "all":
                        tx = stored[-1].get("text", text)
            ep = {"id": eid, "owner": owner, "text": tx, "ts": world.iso_minus(world.NOW_ISO, age), "vec_full": vec}
            if imp is not None:
                ep["aux"] = {"importance": imp}
            idx.add(ep)

    @precondition(lambda self: self.wv >= 2)
    @rule(i=st.sampled_from([0, 1]), a=st.sampled_from(["e1", "e2", "e3"]), b=st.sampled_from(["e4", "e5", "e6", "e7"]),
          w=st.sampled_from([0.0, 0.9, -0.9, 0.3]))
    def gel_edit(self, i, a, b, w):
        self.history.append({"op": "gel_edit", "state": i, "a": a, "b": b, "w": w})
        self.mutated = True
        self.pending[i].add("gel")
        for side in ("C", "F"):
            state = self.eng[i][side].state
            g = state.get("graph")
            if g is None:
                g = {"nodes": {}, "edges": {}, "meta": {}}
                state["graph"] = g
            rec = g.setdefault("edges", {}).get(_gel_key(a, b))
            if rec is None:
                g["edges"][_gel_key(a, b)] = _gel_rec(a, b, w)
            else:
                rec["weight"] = float(w)  # what gel.observe_retrieval / tick do: update the record in place

    @rule(i=st.sampled_from([0, 1]))
    def toggle_kill(self, i):
        self.kill[i] = not self.kill[i]
        self.history.append({"op": "toggle_kill", "state": i, "now": self.kill[i]})

    @precondition(lambda self: self._reflection_possible())
    @rule(i=st.sampled_from([0, 1]))
    def toggle_reflect(self, i):
        """What the LLM planner does when its plan asks for a reflection pass."""
        self.reflect[i] = not self.reflect[i]
        self.history.append({"op": "toggle_reflect", "state": i, "now": self.reflect[i]})
        self.pending[i].add("reflect_flag")
        for side in ("C", "F"):
            self.eng[i][side].state["_planner_reflection_flag"] = self.reflect[i]

    @precondition(lambda self: self.cache_cfgs[1] is not None)
    @rule()
    def flip_cache(self):
        self.cache_sel = 1 - self.cache_sel
        self.cache_cfg = self.cache_cfgs[self.cache_sel]
        self.history.append({"op": "flip_cache", "sel": self.cache_sel})
        self.labels.add("flip_cache")
        for i in (0, 1):
            self.pending[i].add("flip_cache")


def sub_machine(rec, seed, shard, nshards, n=30, steps=25, shrink=True):
    CacheMachine._rec = rec
    run_machine(rec, seed, CacheMachine, max_examples=n, steps=steps, shrink=shrink, name="machine")


def replay_history(history):
    """Re-execute a recorded history without Hypothesis."""
    from checks.c03 import _fix_floats

    history = _fix_floats(history)
    CacheMachine._rec = None
    m = CacheMachine()
    try:
        for st_ in history:
            op = st_["op"]
            if op == "init":
                m._configure(st_)
            elif op == "turn":
                m._turn(st_["state"], st_["agent"], st_["text"], st_["variant"], st_["adv_ms"])
            elif op == "upsert":
                m.upsert(st_["state"], st_["gid"], st_["kind"], st_["val"], st_["label"])
            elif op == "add_episode":
                m.add_episode(st_["state"], st_["owner"], st_["text"], st_.get("reuse"), st_.get("age", 7200), st_.get("keep"), st_.get("imp"))
            elif op == "gel_edit":
                m.gel_edit(st_["state"], st_["a"], st_["b"], st_["w"])
            elif op == "toggle_kill":
                m.toggle_kill(st_["state"])
            elif op == "toggle_reflect":
                m.toggle_reflect(st_["state"])
            elif op == "flip_cache":
                m.flip_cache()
    finally:
        m.teardown()


SUBCHECKS = [
    Sub("machine", sub_machine, quick={"n": 60, "steps": 30}, thorough={"n": 800, "steps": 50}, shards_quick=8,
        shards_thorough=16, replay=replay_history),
]
