"""C17 — scheduling is deterministic, starvation-free and budgets bind.

Sub-checks
  bfs       exhaustive breadth-first exploration of all (advance clock, select, yield bookkeeping, optional
            rotation) histories to SATURATION of the normalised state space, per parameter set
  machine   random long histories (<= 6 agents, arbitrary clock jumps incl. backwards, clock drift between
            selection and bookkeeping, selection probes without bookkeeping, arbitrary on_yield payloads)
  decision  `_should_yield` (through `_derive_budgets` on validated configs, or on plain budget dicts) vs. the
            documented precedence WALL_MS > BUDGET_* > QUANTUM_EXCEEDED
  turns     full Orchestrator.run_turn turns with scheduling enabled, real stages and a scripted clock: yields
            happen only at stage boundaries, exactly one event, nothing of a later stage is executed or logged,
            and stage work never exceeds the slice budgets

Reference model: harness/models/scheduler.py.
"""
from __future__ import annotations

import collections
import json
import os
import random

from hypothesis import strategies as st

from harness.runner import Sub, Violation, run_hypothesis, run_machine, digest
from harness.models.scheduler import (RefScheduler, RESET, POLICIES, wait_bound, ref_should_yield,
                                      ref_derive_budgets, STAGE_BUDGETS)

LEVEL = "exploration"
RULE = ("bfs: every (parameter set, normalised scheduler state, clock advance) transition reachable from "
        "init_scheduler_state through the demo driver's loop (select -> on_yield(reset iff RESET_CONSEC) -> optional "
        "head-to-tail rotation) is executed once on the real code, memoised on the model's normal form (queue order, "
        "idle times as differences, allowance counters, per-agent wait counters) until no new state appears; a "
        "transition is non-trivial when the shortest history reaching it contains >=1 RESET_CONSEC pick and >=1 pick "
        "that is not the queue head (distinct by construction). machine: Hypothesis rule-based histories, non-trivial "
        "= same rule, distinct = digest of the history. decision: generated (budgets, consumption) with values placed "
        "on/around every threshold; non-trivial = at least two of {wall, stage budget, quantum} fire together "
        "(precedence is exercised). turns: generated (world, slice budgets, per-stage scripted durations); "
        "non-trivial = the turn yields for a BUDGET_* or WALL_MS reason, or a stage budget clamps real work.")
ASSUMPTIONS = [
    "legal histories are the ones clematis/scripts/demo.py can produce: on_yield gets reset=True iff the selection "
    "returned RESET_CONSEC; rotation moves the selected agent to the queue tail (exercised for both policies)",
    "wait is counted as selections made for OTHER agents strictly between two own turns (or since start); selection "
    "probes that are not followed by bookkeeping (pure calls) are not turns",
    "fair_queue with aging_ms == 0 on an unsorted queue is documented two ways (lexicographic vs queue order): both "
    "accepted (labelled `ambiguous`); unreachable from demo.py, which rotates only under round_robin",
    "_should_yield: stage budgets clamp work, so 'budget reached' is consumed == budget; consumed > budget and the "
    "relative order of several simultaneously reached BUDGET_* reasons are undocumented: any reading accepted",
    "turns: elapsed time is the orchestrator's time.perf_counter, shadowed by a scripted clock advanced only inside "
    "stage callables; the rule-based planner/speaker and the in-memory index are used",
]

AGENTS4 = ["b", "a10", "a2", "B"]  # unsorted on purpose; sorted(): B < a10 < a2 < b
NAME_POOL = ["a", "aa", "B", "b", "a10", "a2", "Z", "ä", "é", "_x", "0", "A"]


class Clk:
    __slots__ = ("t",)

    def __init__(self, t):
        self.t = t

    def now_ms(self):
        return self.t


def _api():
    from clematis.scheduler import init_scheduler_state, next_turn, on_yield  # the import path demo.py uses
    return init_scheduler_state, next_turn, on_yield


# ------------------------------------------------------------------------------------------------
# driver: real scheduler + reference model in lock-step, with all per-step oracles
# ------------------------------------------------------------------------------------------------


def _snap(real):
    return (list(real["queue"]), list(real["last_ran_ms"].items()), list(real["consec_turns"].items()), sorted(real))


class _StateTxt:
    """State description, rendered only inside a violation message."""
    __slots__ = ("d", "now")

    def __init__(self, d, now):
        self.d, self.now = d, now

    def __format__(self, spec):
        r = self.d.real
        return (f"queue={r['queue']} consec={r['consec_turns']} last={r['last_ran_ms']} now={self.now} "
                f"{self.d.policy} {self.d.fair}")


class Driver:
    def __init__(self, agents, t0, policy, m, aging, fresh=True):
        self.policy = policy
        self.fair = {"max_consecutive_turns": m, "aging_ms": aging}
        self.clk = Clk(t0)
        self.model = RefScheduler(agents, t0, policy, m, aging)
        self.seen_reset = False
        self.seen_nonhead = False
        self.max_wait = 0
        if fresh:
            init, self.next_turn, self.on_yield = _api()
            self.real = init(list(agents), now_ms=t0)
            want = {"queue": list(self.model.queue), "last_ran_ms": dict(self.model.last), "consec_turns": dict(self.model.consec)}
            if self.real != want:
                raise Violation(f"init_scheduler_state({agents!r}, {t0}) = {self.real!r}, expected canonical {want!r}", None, "init")

    def fork(self):
        d = Driver.__new__(Driver)
        d.policy, d.fair = self.policy, self.fair
        d.clk = Clk(self.clk.t)
        m = self.model
        r = RefScheduler.__new__(RefScheduler)
        r.queue, r.last, r.consec, r.wait = list(m.queue), dict(m.last), dict(m.consec), dict(m.wait)
        r.policy, r.m, r.aging = m.policy, m.m, m.aging
        d.model = r
        d.real = {"queue": list(self.real["queue"]), "last_ran_ms": dict(self.real["last_ran_ms"]),
                  "consec_turns": dict(self.real["consec_turns"])}
        d.next_turn, d.on_yield = self.next_turn, self.on_yield
        d.seen_reset, d.seen_nonhead, d.max_wait = self.seen_reset, self.seen_nonhead, self.max_wait
        return d

    # -- selection with purity / determinism / eligibility / argmax oracles -------------------------
    def select(self):
        real, model, now = self.real, self.model, self.clk.t
        before = _snap(real)
        fair_before = dict(self.fair)
        r1 = self.next_turn(self.clk, real, policy=self.policy, fairness_cfg=self.fair)
        mid = _snap(real)
        r2 = self.next_turn(self.clk, real, policy=self.policy, fairness_cfg=self.fair)
        if mid != before or _snap(real) != before or self.fair != fair_before:
            raise Violation(f"next_turn mutated its arguments: {before} -> {_snap(real)}", None, "select-impure")
        if r1 != r2:
            raise Violation(f"two next_turn calls on the same state/clock differ: {r1!r} vs {r2!r}", None, "select-nondet")
        if not (isinstance(r1, tuple) and len(r1) == 3):
            raise Violation(f"next_turn returned {r1!r}, expected (agent, slice_budgets, reason)", None, "select-shape")
        agent, budgets, reason = r1
        adm, want_reason, info = model.pick(now)
        st_txt = _StateTxt(self, now)
        if agent not in real["queue"]:
            raise Violation(f"selected {agent!r} is not a queued agent; {st_txt}", None, "not-queued")
        if budgets != {}:
            raise Violation(f"core next_turn returned slice budgets {budgets!r}, documented empty", None, "core-budgets")
        if info["reset"]:
            if agent != min(real["queue"]):
                raise Violation(f"all allowances used up: selected {agent!r}, lexicographically first is "
                                f"{min(real['queue'])!r}; {st_txt}", None, "reset-not-lexmin")
            if reason != RESET:
                raise Violation(f"all allowances used up but reason is {reason!r}, not RESET_CONSEC; {st_txt}", None, "reset-reason")
        else:
            if agent not in info["eligible"]:
                raise Violation(f"selected {agent!r} has used up its allowance while {info['eligible']} have not; {st_txt}",
                                None, "ineligible-selected")
            if reason == RESET:
                raise Violation(f"RESET_CONSEC signalled while {info['eligible']} are still eligible; {st_txt}", None,
                                "spurious-reset")
            if agent not in adm:
                sig = "rr-not-first-eligible" if self.policy == "round_robin" else "fq-not-argmax"
                raise Violation(f"selected {agent!r}, reference selects {sorted(adm)} "
                                f"(tiers { {a: model.tier(a, now) for a in info['eligible']} }); {st_txt}", None, sig)
            if reason != want_reason:
                raise Violation(f"reason {reason!r} for policy {self.policy}, documented {want_reason!r}", None, "pick-reason")
        return agent, reason, info

    # -- one complete turn: select, bookkeeping, optional rotation, wait accounting ------------------
    def turn(self, rotate, yield_at=None, consumed=None, yreason="SLICE"):
        agent, reason, info = self.select()
        real, model = self.real, self.model
        head = real["queue"][0]
        if yield_at is not None:
            self.clk.t = yield_at
        now = self.clk.t
        reset = reason == RESET
        q_before = list(real["queue"])
        ret = self.on_yield(self.clk, real, agent, consumed=dict(consumed or {}), reason=yreason, fairness_cfg=self.fair,
                            reset=reset)
        model.on_yield(agent, now, reset)
        if ret is not None or real["queue"] != q_before:
            raise Violation(f"on_yield returned {ret!r} / changed the queue {q_before} -> {real['queue']}", None, "yield-queue")
        if reset and any(v != 0 for v in real["consec_turns"].values()):
            raise Violation(f"after the RESET_CONSEC turn allowances are not all reset: {real['consec_turns']}", None,
                            "reset-not-zeroed")
        if real["consec_turns"] != model.consec:
            raise Violation(f"allowance counters {real['consec_turns']} != reference {model.consec} after turn of {agent!r}"
                            f" (reset={reset})", None, "bookkeeping-consec")
        if real["last_ran_ms"] != model.last:
            raise Violation(f"last_ran_ms {real['last_ran_ms']} != reference {model.last} after turn of {agent!r} at {now}",
                            None, "bookkeeping-last")
        if sorted(real) != ["consec_turns", "last_ran_ms", "queue"]:
            raise Violation(f"scheduler state grew keys: {sorted(real)}", None, "state-shape")
        if rotate:  # the driver's job (demo.py): head -> tail for the agent that just ran
            q = real["queue"]
            q.remove(agent)
            q.append(agent)
            model.rotate(agent)
        starving = model.count_wait(agent)
        self.max_wait = max(self.max_wait, max(model.wait.values()))
        if starving is not None:
            n, m = len(model.queue), model.m
            raise Violation(f"agent {starving[0]!r} waited {starving[1]} selections of other agents; bound "
                            f"2*({n}-1)*{m}+1 = {wait_bound(n, m)}", None, "starvation")
        self.seen_reset = self.seen_reset or reset
        nonhead = agent != head
        self.seen_nonhead = self.seen_nonhead or nonhead
        info = dict(info, agent=agent, reason=reason, nonhead=nonhead)
        return info


# ------------------------------------------------------------------------------------------------
# sub-check 1: exhaustive BFS to saturation
# ------------------------------------------------------------------------------------------------


def _param_sets(ns, ms, agings):
    sets = []
    for n in ns:
        for m in ms:
            for aging in agings:
                for policy in POLICIES:
                    for rot in (False, True):
                        heavy = (policy == "fair_queue" and aging > 0)
                        sets.append(((heavy, n, m, aging), (n, m, aging, policy, rot)))
    sets.sort(key=lambda x: x[0], reverse=True)  # heavy sets adjacent -> dealt round-robin over the shards
    return [p for _, p in sets]


def _bfs_case(params, deltas, t0=100):
    n, m, aging, policy, rot = params
    return {"agents": AGENTS4[:n] if n <= 4 else (AGENTS4 + ["ä", "a"])[:n], "policy": policy, "m": m, "aging": aging,
            "rotate": rot, "t0": t0, "steps": [["turn", d] for d in deltas]}


def _path(parents, idx):
    out = []
    while idx > 0:
        idx, d = parents[idx]
        out.append(d)
    out.reverse()
    return out


def _bfs_one(rec, params, deltas, max_states, notes):
    n, m, aging, policy, rot = params
    base = _bfs_case(params, [])
    try:
        root = Driver(base["agents"], base["t0"], policy, m, aging)
    except Violation as v:
        rec.violation(v.message, base, v.sig)
        return
    seen = {root.model.norm(root.clk.t)}
    parents = [(0, None)]
    queue = collections.deque([(root, 0, 0)])
    n_tr = n_nt = 0
    lab = collections.Counter()
    depth = 0
    capped = False
    sample = None
    while queue:
        node, idx, d = queue.popleft()
        depth = max(depth, d)
        for dl in deltas:
            ch = node.fork()
            ch.clk.t = node.clk.t + dl
            try:
                info = ch.turn(rot)
            except Violation as v:
                rec.violation(v.message, _bfs_case(params, _path(parents, idx) + [dl]), v.sig)
                return
            n_tr += 1
            if info["reset"]:
                lab["reset"] += 1
            if info["nonhead"]:
                lab["pick!=head"] += 1
            if info["boost"]:
                lab["tiers-differ"] += 1
            if info["tie"]:
                lab["tier-tie"] += 1
            if info["ambiguous"]:
                lab["ambiguous"] += 1
            nt = ch.seen_reset and ch.seen_nonhead
            if nt:
                n_nt += 1
                if sample is None:
                    sample = _bfs_case(params, _path(parents, idx) + [dl])
            key = ch.model.norm(ch.clk.t)
            if key not in seen:
                if len(seen) >= max_states:
                    capped = True
                    continue
                seen.add(key)
                parents.append((idx, dl))
                queue.append((ch, len(parents) - 1, d + 1))
    bound = wait_bound(n, m)
    # the deepest node carries the running max only along its own path: recompute tightness from the memo keys
    mw = max(max(k[-1]) for k in seen)
    if mw == bound:
        lab["wait==bound"] += 1
    lab[f"policy={policy}"] += n_tr
    lab[f"n={n}"] += n_tr
    lab["paramsets"] += 1
    lab["paramsets-saturated" if not capped else "paramsets-capped"] += 1
    if n_nt:
        rec.case(nontrivial=True, dig=None, n=n_nt, sample=sample if (n == 3 and m == 1) else None)
    if n_tr - n_nt:
        rec.case(nontrivial=False, n=n_tr - n_nt)
    for k, v in lab.items():
        rec.label(k, v)
    if capped:
        rec.budget_hit = True
    key = f"{policy[:2]}/n{n}/m{m}/aging{aging}/rot{int(rot)}"
    notes[key + "/d=" + ",".join(map(str, deltas))] = (f"states={len(seen)} transitions={n_tr} depth={depth} max_wait={mw} "
                                                      f"bound={bound} saturated={not capped}")


def sub_bfs(rec, seed, shard, nshards, ns=(1, 2, 3, 4), ms=(1, 2, 3), agings=(0, 1, 5), deltas=(0, 1, 5, 7),
            max_states=40000, extra=()):
    sets = [(p, tuple(deltas), max_states) for p in _param_sets(ns, ms, agings)]
    for (ens, ems, eag, edl, emax) in extra:
        sets += [(p, tuple(edl), emax) for p in _param_sets(ens, ems, eag)]
    notes = {}
    mine = [x for i, x in enumerate(sets) if i % nshards == shard]
    mine.sort(key=lambda x: (x[0][0], x[0][1], x[0][2]))  # small sets first: the first counterexample reported is a small one
    for p, dl, mx in mine:
        _bfs_one(rec, p, dl, mx, notes)
    rec.note(f"sets_shard{shard}", notes)


# ------------------------------------------------------------------------------------------------
# linear history execution (replay of bfs and machine cases)
# ------------------------------------------------------------------------------------------------


def run_history(case):
    """case: {"agents","policy","m","aging","rotate","t0","steps":[...]}; steps:
    ["turn", delta] | ["turn", delta, rotate, drift, consumed, reason] | ["adv", delta] | ["peek"]"""
    try:
        d = Driver(case["agents"], case["t0"], case["policy"], case["m"], case["aging"])
        for s in case["steps"]:
            if s[0] == "adv":
                d.clk.t += s[1]
            elif s[0] == "peek":
                d.select()
            elif s[0] == "turn":
                d.clk.t += s[1]
                rot = s[2] if len(s) > 2 else case["rotate"]
                drift = s[3] if len(s) > 3 else 0
                d.turn(rot, yield_at=d.clk.t + drift, consumed=s[4] if len(s) > 4 else None,
                       yreason=s[5] if len(s) > 5 else "SLICE")
            else:
                raise ValueError(f"unknown step {s!r}")
    except Violation as v:
        raise Violation(v.message, case, v.sig)
    return d


def replay_history(case):
    if isinstance(case, list):  # machine history: [init, step, step, ...]
        case = dict(case[0], steps=case[1:])
    run_history(case)


# ------------------------------------------------------------------------------------------------
# sub-check 2: random long histories
# ------------------------------------------------------------------------------------------------


def _make_machine(rec):
    from hypothesis.stateful import RuleBasedStateMachine, initialize, rule

    deltas = st.one_of(st.sampled_from([0, 0, 1, 1, 2, 3, 5, 7, 10, 199, 200, 201, 400]),
                       st.integers(-300, 1500), st.sampled_from([-1, -7, -200, -10 ** 6, 10 ** 9]))

    class SchedMachine(RuleBasedStateMachine):
        def __init__(self):
            super().__init__()
            self.history = []
            self.d = None
            self.n_turns = 0
            self.lab = collections.Counter()

        def _guard(self, fn, *a, **k):
            try:
                return fn(*a, **k)
            except Violation as v:
                vv = Violation(v.message, list(self.history), v.sig)
                type(self)._vx_last["v"] = vv
                raise vv

        @initialize(agents=st.lists(st.sampled_from(NAME_POOL), min_size=1, max_size=6, unique=True),
                    policy=st.sampled_from(POLICIES), m=st.sampled_from([1, 1, 2, 3, 4]),
                    aging=st.sampled_from([0, 1, 5, 7, 200]), rotate=st.sampled_from(["never", "always", "mixed"]),
                    t0=st.sampled_from([0, 100, 13371337, -5]))
        def init(self, agents, policy, m, aging, rotate, t0):
            self.rotate = rotate
            self.history.append({"agents": agents, "policy": policy, "m": m, "aging": aging,
                                 "rotate": rotate == "always", "t0": t0})
            self.d = self._guard(Driver, agents, t0, policy, m, aging)

        @rule(delta=deltas)
        def advance(self, delta):
            self.history.append(["adv", delta])
            self.d.clk.t += delta
            if delta < 0:
                self.lab["clock-backwards"] += 1

        @rule()
        def peek(self):
            self.history.append(["peek"])
            self._guard(self.d.select)

        @rule(delta=deltas, rot=st.booleans(), drift=st.sampled_from([0, 0, 0, 1, 6, -3]),
              consumed=st.sampled_from([{}, {"ms": 3}, {"ms": 10 ** 6, "t1_pops": 5}, {"bogus": -1}]),
              yreason=st.sampled_from(["SLICE", "WALL_MS", "QUANTUM_EXCEEDED", "RESET_CONSEC", ""]))
        def turn(self, delta, rot, drift, consumed, yreason):
            rot = {"never": False, "always": True, "mixed": rot}[self.rotate]
            self.history.append(["turn", delta, rot, drift, consumed, yreason])
            self.d.clk.t += delta
            info = self._guard(self.d.turn, rot, yield_at=self.d.clk.t + drift, consumed=consumed, yreason=yreason)
            self.n_turns += 1
            for k in ("reset", "nonhead", "boost", "tie", "ambiguous"):
                if info[k]:
                    self.lab[k] += 1

        def teardown(self):
            d = self.d
            if d is None or rec is None:
                return
            nt = d.seen_reset and d.seen_nonhead
            labels = [f"agents={len(d.model.queue)}", f"policy={d.policy}", f"rotate={self.rotate}"]
            labels += [k for k, v in self.lab.items() if v]
            if self.n_turns >= 100:
                labels.append("turns>=100")
            if d.max_wait == wait_bound(len(d.model.queue), d.model.m) and len(d.model.queue) > 1:
                labels.append("wait==bound")
            rec.case(nontrivial=nt, dig=digest(self.history) if nt else None, labels=labels,
                     sample={"init": self.history[0], "first_steps": self.history[1:9], "turns": self.n_turns,
                             "max_wait": d.max_wait} if nt else None)

    return SchedMachine


def sub_machine(rec, seed, shard, nshards, n=80, steps=300, shrink=True):
    run_machine(rec, seed, _make_machine(rec), max_examples=n, steps=steps, shrink=shrink, name="history")


# ------------------------------------------------------------------------------------------------
# sub-check 3: yield decision
# ------------------------------------------------------------------------------------------------

BOUNDARY_KEYS = {"T1": ("t1_iters", "t1_pops"), "T2": ("t2_k",), "T3": ("t3_ops",), "T4": (), "Apply": (), "any": None}


@st.composite
def decisions(draw):
    route = draw(st.sampled_from(["config", "config", "dict"]))
    quantum = draw(st.sampled_from([1, 2, 5, 20, 20, 50]))
    wall_mode = draw(st.sampled_from(["eq", "gt", "gt", "none", "lt"] if route == "dict" else ["eq", "gt", "gt", "default"]))
    wall = {"eq": quantum, "gt": quantum + draw(st.sampled_from([1, 3, 30])), "lt": max(1, quantum - draw(st.sampled_from([1, 4]))),
            "none": None, "default": "default"}[wall_mode]
    stage = {}
    for k, _ in STAGE_BUDGETS:
        mode = draw(st.sampled_from(["int", "int", "null", "absent"]))
        if mode == "int":
            stage[k] = draw(st.sampled_from([0, 1, 2, 3, 5, 64]))
        elif mode == "null":
            stage[k] = None
    boundary = draw(st.sampled_from(list(BOUNDARY_KEYS)))
    keys = BOUNDARY_KEYS[boundary]
    if keys is None:
        keys = tuple(k for k, _ in STAGE_BUDGETS if draw(st.booleans()))
    consumed = {}
    # effective budgets (the validator materialises defaults for absent keys on the config route)
    defaults = {"t1_pops": None, "t1_iters": 50, "t2_k": 64, "t3_ops": 3}
    for k in keys:
        b = stage.get(k, defaults[k] if route == "config" else None)
        if b is None:
            consumed[k] = draw(st.sampled_from([0, 1, 7]))
        else:
            pos = draw(st.sampled_from(["hit", "hit", "below", "zero", "over"]))
            consumed[k] = {"hit": b, "below": max(0, b - 1), "zero": 0, "over": b + draw(st.sampled_from([1, 2]))}[pos]
    eff_wall = 200 if wall == "default" else wall
    anchors = [0, quantum - 1, quantum, quantum + 1]
    if eff_wall is not None:
        anchors += [eff_wall - 1, eff_wall, eff_wall + 1, eff_wall + 1000]
    consumed["ms"] = max(0, draw(st.sampled_from(anchors)))
    return {"route": route, "quantum": quantum, "wall": wall, "stage": stage, "consumed": consumed, "boundary": boundary}


def _decision_budgets(case):
    """Build the budgets dict exactly as the orchestrator does (config route) or as the repo tests do (dict route)."""
    if case["route"] == "config":
        from clematis.engine.orchestrator.core import _derive_budgets
        from harness.world import validated_cfg, make_ctx

        b = dict(case["stage"])
        if case["wall"] != "default":
            b["wall_ms"] = case["wall"]
        cfg = validated_cfg({"scheduler": {"enabled": True, "quantum_ms": case["quantum"], "budgets": b}})
        ctx = make_ctx(cfg)
        got = _derive_budgets(ctx)
        plain = json.loads(json.dumps(cfg["scheduler"]))
        want = ref_derive_budgets(plain)
        if got != want:
            raise Violation(f"_derive_budgets = {got!r}, reference {want!r} for scheduler config {plain!r}", case, "derive-budgets")
        # what the property needs from the derivation: every configured, non-null budget reaches the slice unchanged
        for k, v in b.items():
            if v is not None and got.get(k) != v:
                raise Violation(f"configured budget {k}={v} not handed to the slice: {got!r}", case, "derive-budgets")
        if got.get("quantum_ms") != case["quantum"]:
            raise Violation(f"quantum_ms {case['quantum']} not handed to the slice: {got!r}", case, "derive-budgets")
        return got
    out = {k: v for k, v in case["stage"].items()}
    out["quantum_ms"] = case["quantum"]
    if case["wall"] is not None:
        out["wall_ms"] = case["wall"]
    return out


def check_decision(case, rec=None):
    from clematis.engine.orchestrator import _should_yield

    budgets = _decision_budgets(case)
    consumed = dict(case["consumed"])
    sc = {"slice_idx": 1, "started_ms": 0, "budgets": budgets, "agent_id": "A"}
    b0, c0 = json.dumps(budgets, sort_keys=True), json.dumps(consumed, sort_keys=True)
    r1 = _should_yield(sc, consumed)
    r2 = _should_yield(sc, consumed)
    if json.dumps(budgets, sort_keys=True) != b0 or json.dumps(consumed, sort_keys=True) != c0:
        raise Violation("_should_yield mutated its arguments", case, "decision-impure")
    if r1 != r2:
        raise Violation(f"_should_yield not deterministic: {r1!r} vs {r2!r}", case, "decision-nondet")
    adm, info = ref_should_yield(budgets, consumed)
    if r1 not in adm:
        fired = [x for x, on in (("WALL_MS", info["wall"]), ("BUDGET", bool(info["hit"])), ("QUANTUM", info["quantum"])) if on]
        sig = "precedence" if len(fired) >= 2 else "decision"
        raise Violation(f"_should_yield(budgets={budgets}, consumed={consumed}) = {r1!r}; documented precedence "
                        f"WALL_MS > BUDGET_* > QUANTUM_EXCEEDED gives {sorted(map(str, adm))} (fired: {fired}, "
                        f"reached: {info['hit']}, over: {info['over']})", case, sig)
    if rec is not None:
        fired = int(info["wall"]) + int(bool(info["hit"])) + int(info["quantum"])
        labels = [f"result={r1}", f"fired={fired}", f"route={case['route']}", f"boundary={case['boundary']}"]
        if info["over"]:
            labels.append("over-budget(undocumented)")
        if len(info["hit"]) > 1:
            labels.append("multi-budget")
        if any(v == 0 for v in budgets.values()):
            labels.append("zero-budget")
        nt = fired >= 2
        rec.case(nontrivial=nt, dig=digest(case) if nt else None, labels=labels,
                 sample={"budgets": budgets, "consumed": consumed, "result": r1} if nt else None)


def sub_decision(rec, seed, shard, nshards, n=1500, shrink=True):
    run_hypothesis(rec, seed, decisions(), lambda c: check_decision(c, rec), max_examples=n, shrink=shrink, name="decision")


def replay_decision(case):
    check_decision(case, None)



# ------------------------------------------------------------------------------------------------
# sub-check 4: full turns, scheduling enabled, scripted clock
# ------------------------------------------------------------------------------------------------

SLOTS = ["T1", "T2", "T3", "speak", "T4", "Apply"]          # callables that advance the scripted clock
BOUNDARIES = ["T1", "T2", "T3", "T4", "Apply"]               # documented yield points
CALLS_UNTIL = {"T1": ["T1"], "T2": ["T1", "T2"], "T3": ["T1", "T2", "T3"], "T4": ["T1", "T2", "T3", "speak", "T4"],
               "Apply": SLOTS, None: SLOTS}
LOGS_OF = {"T1": ["t1.jsonl"], "T2": ["t2.jsonl"], "T3": [], "speak": ["t3.jsonl", "t3_plan.jsonl", "t3_dialogue.jsonl"],
           "T4": ["t4.jsonl"], "Apply": ["apply.jsonl"]}
EP_TEXTS = ["apple pear", "apple", "fig plum", "kiwi lime apple", "pear", "nut yam pea", "Äpfel app"]


@st.composite
def turn_cases(draw):
    from harness.world import graph_specs, texts_for

    gids = draw(st.sampled_from([["g1"], ["g1"], ["g2", "g1"]]))
    graphs = {g: draw(graph_specs(max_nodes=5, max_edges=6)) for g in gids}
    text = draw(texts_for(graphs))
    _ep = st.tuples(st.sampled_from(EP_TEXTS), st.sampled_from(["A", "A", "world"]))
    eps = draw(st.one_of(st.lists(_ep, max_size=4), st.lists(_ep, min_size=3, max_size=6)))
    q = draw(st.sampled_from([1, 5, 20]))
    wall = q + draw(st.sampled_from([0, 5, 180]))
    target = draw(st.sampled_from(BOUNDARIES + ["none"]))
    kind = draw(st.sampled_from(["budget", "wall", "quantum", "budget+quantum", "budget+wall"]))
    budgets = {"wall_ms": wall}
    loose = {"t1_pops": [None, 5000], "t1_iters": ["absent"], "t2_k": [None, 64, "absent"], "t3_ops": [None, 5, 5, "absent"]}
    tight = {"t1_pops": [0, 1, 2], "t1_iters": [0, 1], "t2_k": [0, 1, 2], "t3_ops": [0, 1, 2]}
    keys_of = {"T1": ["t1_pops", "t1_iters"], "T2": ["t2_k"], "T3": ["t3_ops"]}
    tighten = set()
    if "budget" in kind and target in keys_of:
        tighten.add(draw(st.sampled_from(keys_of[target])))
    for k in loose:
        if draw(st.integers(0, 24)) == 0:
            tighten.add(k)
    if draw(st.integers(0, 5)) == 0:
        tighten.add("t2_k")  # more hits than the slice may use: the budget has to bind
    for k in loose:
        v = draw(st.sampled_from(tight[k] if k in tighten else loose[k]))
        if v != "absent":
            budgets[k] = v
    dur = {s: draw(st.sampled_from([0, 0, 0, 0, 1])) for s in SLOTS}
    if target != "none":
        slot = target if target != "T4" else draw(st.sampled_from(["speak", "T4"]))
        if "quantum" in kind:
            dur[slot] += q
        if "wall" in kind:
            dur[slot] += wall
    mode = draw(st.sampled_from(["file", "file", "capture"]))
    policy = draw(st.sampled_from(POLICIES))
    # an earlier slice of the same agent on the same state (same text, graph version unchanged) under OTHER slice budgets:
    # whatever the engine kept from it (stage caches) must not loosen or tighten this slice's clamps
    warm = draw(st.sampled_from([None, None, {}, {"t1_pops": 5000, "t1_iters": 50}, {"t1_pops": 1}, {"t1_pops": 0, "t1_iters": 0},
                                 {"t1_iters": 1}, {"t1_pops": 3, "t1_iters": 2}]))
    return {"graphs": graphs, "active": gids, "text": text, "episodes": [list(e) for e in eps], "quantum": q,
            "budgets": budgets, "dur": dur, "mode": mode, "policy": policy, "warm": warm,
            "sim_threshold": draw(st.sampled_from([None, -1.0, -1.0]))}  # -1.0: every owned episode is a hit


def _read_jsonl(path):
    if not os.path.exists(path):
        return []
    with open(path, "r", encoding="utf-8") as f:
        return [json.loads(ln) for ln in f if ln.strip()]


class _StageCrash(Exception):
    pass


class _FakeTime:
    """Stands in for the `time` module inside orchestrator.core: perf_counter is the scripted clock."""

    def __init__(self, real):
        self._real = real
        self.ms = 0

    def perf_counter(self):
        return self.ms / 1000.0

    def __getattr__(self, name):
        return getattr(self._real, name)


def check_turn(case, rec=None):
    import clematis.engine.orchestrator as orch
    import clematis.engine.orchestrator.core as core
    from clematis.memory.index import InMemoryIndex
    from clematis.adapters.embeddings import DeterministicEmbeddingAdapter
    from harness.world import sandbox, validated_cfg, make_ctx, build_store, reset_engine_globals

    calls, results, at_ms = [], {}, {}
    missing = object()
    pkg_names = ["t1_propagate", "t2_semantic", "t3_deliberate", "t3_dialogue"]
    saved_pkg = {n: orch.__dict__.get(n, missing) for n in pkg_names}
    saved_core = {n: getattr(core, n) for n in ("t4_filter", "apply_changes", "time")}
    ft = _FakeTime(saved_core["time"])

    def wrap(name, fn):
        def w(*a, **k):
            # the one-shot RAG refinement re-enters retrieval from inside T3 (after deliberation): part of T3, not a stage
            tag = "rag" if (name == "T2" and "T3" in calls) else name
            calls.append(tag)
            try:
                r = fn(*a, **k)
            except Exception as e:  # a crash INSIDE a stage is that stage's property (C11-C13), not scheduling
                raise _StageCrash(f"{tag}: {type(e).__name__}: {e}") from e
            results.setdefault(tag, r)
            ft.ms += int(case["dur"][name])
            at_ms[tag] = ft.ms
            return r
        return w

    with sandbox("vx_c17_") as d:
        reset_engine_globals()
        cfg = validated_cfg({"scheduler": {"enabled": True, "policy": case["policy"], "quantum_ms": case["quantum"],
                                           "budgets": dict(case["budgets"])},
                             "t4": {"snapshot_dir": os.path.join(d, "snap")},
                             **({"t2": {"sim_threshold": case["sim_threshold"]}} if case.get("sim_threshold") is not None else {})})
        idx = InMemoryIndex()
        enc = DeterministicEmbeddingAdapter(dim=32)
        for i, (txt, owner) in enumerate(case["episodes"]):
            idx.add({"id": f"ep{i}", "owner": owner, "text": txt, "vec_full": enc.encode([txt])[0],
                     "ts": "2025-06-15T00:00:00Z", "aux": {}})
        state = {"store": build_store(case["graphs"]), "active_graphs": list(case["active"]), "mem_index": idx,
                 "_boot_loaded": True, "version_etag": "0"}
        ctx = make_ctx(cfg, agent="A", turn_id=7)
        if case.get("warm") is not None:
            wctx = make_ctx(cfg, agent="A", turn_id=6)
            if case["warm"]:
                wctx.slice_budgets = dict(case["warm"])
            try:
                core._t1_propagate(wctx, state, case["text"])
            except Exception:
                pass  # a crash inside the stage is C12's business
        capture = {}
        if case["mode"] == "capture":  # the demo driver's mode: the orchestrator hands the event over instead of writing it
            ctx._driver_writes_scheduler_log = True
            ctx._sched_capture = capture
            ctx._sched_pick_reason = "ROUND_ROBIN"
        slice_budgets = ref_derive_budgets(json.loads(json.dumps(cfg["scheduler"])))
        try:
            orch.t1_propagate = wrap("T1", core._t1_propagate)
            orch.t2_semantic = wrap("T2", core._t2_semantic)
            orch.t3_deliberate = wrap("T3", lambda c, s, bundle: core.deliberate(bundle))
            orch.t3_dialogue = wrap("speak", lambda db, plan: core.speak(db, plan))
            core.t4_filter = wrap("T4", core._t4_filter)
            core.apply_changes = wrap("Apply", core._default_apply_changes)
            core.time = ft
            try:
                res = core.Orchestrator().run_turn(ctx, state, case["text"])
            except _StageCrash as e:
                if rec is not None:
                    rec.case(nontrivial=False, labels=["discarded:stage-raised"])
                    rec.note("stage_raised_example", str(e)[:300])
                return
            except Exception as e:
                raise Violation(f"scheduled turn raised {type(e).__name__}: {e} after stages {calls}", case, "turn-raises")
        finally:
            for n, v in saved_pkg.items():
                if v is missing:
                    orch.__dict__.pop(n, None)
                else:
                    setattr(orch, n, v)
            for n, v in saved_core.items():
                setattr(core, n, v)
        logs = {fn: _read_jsonl(os.path.join(d, "logs", fn)) for fn in
                ["scheduler.jsonl", "turn.jsonl", "t1.jsonl", "t2.jsonl", "t3.jsonl", "t3_plan.jsonl", "t3_dialogue.jsonl",
                 "t4.jsonl", "apply.jsonl"]}

    if not hasattr(res, "line"):
        raise Violation(f"run_turn returned {res!r}, not a turn result", case, "turn-result")
    events = [dict(capture)] if (case["mode"] == "capture" and capture) else list(logs["scheduler.jsonl"])
    if case["mode"] == "capture" and logs["scheduler.jsonl"]:
        raise Violation("driver-logging mode: orchestrator wrote scheduler.jsonl itself", case, "capture-mode")
    if len(events) > 1:
        raise Violation(f"{len(events)} yield events for one turn: {events}", case, "multi-yield")
    ev = events[0] if events else None
    stage_end = ev.get("stage_end") if ev else None
    if ev is not None and stage_end not in BOUNDARIES:
        raise Violation(f"yield event with stage_end={stage_end!r}: not a stage boundary", case, "not-a-boundary")

    # consumption at each boundary, rebuilt from what the stages really returned and the scripted clock
    def consumed_at(b):
        c = {"ms": at_ms[b]}
        if b == "T1":
            m = results["T1"].metrics
            c["t1_iters"], c["t1_pops"] = int(m["iters"]), int(m["pops"])
        elif b == "T2":
            c["t2_k"] = int(results["T2"].metrics["k_used"])
        elif b == "T3":
            c["t3_ops"] = len(results["T3"].ops)
        return c

    want_calls = CALLS_UNTIL[stage_end]
    rag = "rag" in calls
    if [c for c in calls if c != "rag"] != want_calls or calls.count("rag") > 1 or (rag and calls[calls.index("rag") - 1] != "T3"):
        raise Violation(f"turn yielded at {stage_end!r} but executed stages {calls} (expected exactly {want_calls}): "
                        "work of a later stage ran / a stage was skipped", case, "stage-sequence")
    seen_kinds = []
    for b in BOUNDARIES:
        c = consumed_at(b)
        adm, info = ref_should_yield(slice_budgets, c)
        if b == stage_end:
            if ev.get("reason") not in (adm - {None}):
                raise Violation(f"yield at {b} with reason {ev.get('reason')!r}; consumption {c} under budgets {slice_budgets} "
                                f"gives {sorted(map(str, adm))} (WALL_MS > BUDGET_* > QUANTUM_EXCEEDED)", case, "yield-reason")
            if ev.get("consumed") != c:
                raise Violation(f"yield event records consumption {ev.get('consumed')} at {b}, the stages did {c}", case,
                                "event-consumed")
            seen_kinds = [x for x, on in (("wall", info["wall"]), ("budget", bool(info["hit"])), ("quantum", info["quantum"])) if on]
            break
        if None not in adm:
            raise Violation(f"no yield at boundary {b} although consumption {c} under budgets {slice_budgets} requires "
                            f"{sorted(map(str, adm))}; turn went on to {stage_end!r}", case, "missed-yield")
    # nothing of a later stage is recorded; everything executed is recorded once
    for s in SLOTS:
        for fn in LOGS_OF[s]:
            n = len(logs[fn])
            if s not in calls and n:
                raise Violation(f"turn yielded at {stage_end!r} but {fn} has {n} record(s) of a later stage", case, "later-stage-logged")
            if s in calls and n != 1:
                raise Violation(f"stage {s} ran but {fn} has {n} records", case, "stage-log-count")
    turns = logs["turn.jsonl"]
    if len(turns) != 1:
        raise Violation(f"turn.jsonl has {len(turns)} records for one turn", case, "turn-log-count")
    if ev is not None:
        if turns[0].get("yielded") is not True or turns[0].get("yield_reason") != ev.get("reason"):
            raise Violation(f"turn.jsonl {turns[0]} does not carry the yield ({ev.get('reason')})", case, "turn-log-yield")
    elif turns[0].get("yielded"):
        raise Violation(f"turn.jsonl says yielded but no yield event exists: {turns[0]}", case, "turn-log-yield")
    # budgets bind (aggregate view; exact per-graph clamps are C12's job)
    ng = max(1, len(case["active"]))
    clamp = []
    m1 = results["T1"].metrics
    for key, val, mult in (("t1_pops", int(m1["pops"]), ng), ("t1_iters", int(m1["iters"]), ng),
                           ("t2_k", int(results["T2"].metrics["k_used"]) if "T2" in results else None, 1),
                           ("t3_ops", len(results["T3"].ops) if "T3" in results else None, 1)):
        b = slice_budgets.get(key)
        if b is None or val is None:
            continue
        if val > b * mult:
            raise Violation(f"stage work {key}={val} exceeds slice budget {b}" + (f" x {mult} graphs" if mult > 1 else ""),
                            case, f"clamp-{key}")
        if val == b * mult and b < 50:
            clamp.append(key)
    # "retrieval hits USED": whatever T2 derives from its hits (residual graph nudges) may only come from the first
    # k_used ranked hits, not from hits beyond the slice budget
    if "T2" in results:
        r2 = results["T2"]
        ku = int(r2.metrics["k_used"])
        used_texts = [(getattr(h_, "text", "") or "").lower() for h_ in list(r2.retrieved)[:ku]]
        labels_of = {}
        for spec in case["graphs"].values():
            for n_ in spec["nodes"]:
                if n_["label"]:
                    labels_of.setdefault(n_["id"], set()).add(str(n_["label"]).lower())
        for d_ in list(getattr(r2, "graph_deltas_residual", []) or []):
            nid = d_.get("id")
            if not any(lb in t_ for lb in labels_of.get(nid, ()) for t_ in used_texts):
                raise Violation(f"residual nudge for node {nid!r} is not justified by the {ku} hit(s) the slice budget "
                                f"t2_k={slice_budgets.get('t2_k')} allows T2 to use ({len(r2.retrieved)} retrieved): a hit beyond "
                                "the budget was used", case, "t2-uses-hits-beyond-budget")
    if rec is not None:
        reason = ev.get("reason") if ev else None
        labels = [f"stage_end={stage_end}", f"reason={reason}", f"mode={case['mode']}"]
        labels += [f"clamped:{k}" for k in clamp]
        if len(seen_kinds) >= 2:
            labels.append("precedence-exercised")
        if "T2" in results and int(results["T2"].metrics["k_used"]) > 0:
            labels.append("t2-hits-used")
        if "T2" in results and slice_budgets.get("t2_k") is not None and len(results["T2"].retrieved) > slice_budgets["t2_k"]:
            labels.append("t2_k-budget-binds(retrieved>budget)")
        if rag:
            labels.append("rag-reentry")
        for key in ("t1_pops", "t1_iters"):
            if slice_budgets.get(key) is not None and int(m1[key[3:]]) > slice_budgets[key]:
                labels.append(f"aggregate-over-budget:{key}(undocumented)")
        if int(m1["pops"]) > 0:
            labels.append("t1-pops>0")
        nt = (reason is not None and reason != "QUANTUM_EXCEEDED") or bool(clamp)
        rec.case(nontrivial=nt, dig=digest(case) if nt else None, labels=labels,
                 sample={"budgets": slice_budgets, "dur": case["dur"], "stage_end": stage_end, "reason": reason,
                         "consumed": ev.get("consumed") if ev else None, "calls": calls} if nt else None)


def sub_turns(rec, seed, shard, nshards, n=60, shrink=True):
    run_hypothesis(rec, seed, turn_cases(), lambda c: check_turn(c, rec), max_examples=n, shrink=shrink, name="turns")


def replay_turn(case):
    check_turn(case, None)


SUBCHECKS = [
    Sub("bfs", sub_bfs, quick={"max_states": 40000},
        thorough={"max_states": 2_000_000,
                  "extra": [((2, 3, 4), (1, 2, 3), (1, 5), (0, 2, 3, 11), 2_000_000),
                            ((5,), (1, 2), (0, 1, 5), (0, 1, 5, 7), 400_000),
                            ((2, 3), (4, 5), (0, 1, 5), (0, 1, 5, 7), 400_000)]},
        shards_quick=8, shards_thorough=16, exhaustive=True, replay=replay_history),
    Sub("machine", sub_machine, quick={"n": 75, "steps": 300}, thorough={"n": 700, "steps": 400}, shards_quick=4,
        shards_thorough=16, replay=replay_history),
    Sub("decision", sub_decision, quick={"n": 1250}, thorough={"n": 15000}, shards_quick=4, shards_thorough=16,
        replay=replay_decision),
    Sub("turns", sub_turns, quick={"n": 100}, thorough={"n": 400}, shards_quick=4, shards_thorough=16, replay=replay_turn),
]

KNOWN_PROBES = {}
