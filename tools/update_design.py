#!/usr/bin/env python3
"""Regenerates the tables between the <!-- X-BEGIN --> / <!-- X-END --> markers of DESIGN.md (§7.3, §7.4)."""
import os, re, subprocess, sys
HERE = os.path.dirname(os.path.dirname(os.path.abspath(__file__)))
d = open(os.path.join(HERE, "DESIGN.md")).read()
compact = subprocess.run([sys.executable, os.path.join(HERE, "tools", "mk_tables.py"), "--compact"], capture_output=True, text=True).stdout
full = subprocess.run([sys.executable, os.path.join(HERE, "tools", "mk_tables.py")], capture_output=True, text=True).stdout
mut = full.split("\n\n", 1)[1] if "\n\n" in full else ""


def put(doc, name, body):
    return re.sub(rf"(<!-- {name}-BEGIN -->\n).*?(<!-- {name}-END -->)", lambda m: m.group(1) + body.strip("\n") + "\n" + m.group(2), doc, flags=re.S)


d = put(d, "SEEDED-TABLE", compact)
d = put(d, "MUTANT-TABLE", mut)
open(os.path.join(HERE, "DESIGN.md"), "w").write(d)
