"""Reference model of size-based log rotation (property C16).

Documented scheme (clematis/scripts/rotate_logs.py module docstring, `--backups` = "How many backup
generations to keep", `--max-bytes` = "Rotate files with size >= this many bytes", tests/test_log_rotation.py):
generations live in the numbered slots `path.1` (newest) .. `path.N` (oldest), N = backups.  One rotation is a
*simultaneous* shift: the occupant of slot N is dropped, slot k -> slot k+1 for 1 <= k < N, the live file ->
slot 1.  Nothing else in the directory is touched (slots beyond N, look-alike names, other files).
(The module docstring's index arithmetic says `backups-1`; the option help, the code and the repo test agree on
N = backups, which is what the model uses.)

The model works on a plain dict {file name: bytes} for one flat directory.
"""
from __future__ import annotations

import fnmatch
from typing import Dict, List, Optional, Tuple

Files = Dict[str, bytes]


def slot_of(name: str, base: str) -> Optional[int]:
    """k if `name` is exactly the k-th generation of `base` (canonical decimal, k >= 1), else None."""
    pre = base + "."
    if not name.startswith(pre):
        return None
    suf = name[len(pre):]
    if not suf.isascii() or not suf.isdigit() or str(int(suf)) != suf or int(suf) < 1:
        return None
    return int(suf)


def rotate_one(files: Files, base: str, backups: int) -> Tuple[Files, bool]:
    """Simultaneous shift. Returns (new files, rotated?)."""
    if backups < 1:
        return dict(files), False
    out: Files = {}
    for name, data in files.items():
        if name == base:
            out[f"{base}.1"] = data
            continue
        k = slot_of(name, base)
        if k is None or k > backups:
            out[name] = data
        elif k == backups:
            continue  # the oldest generation of the window is dropped
        else:
            out[f"{base}.{k + 1}"] = data
    return out, base in files


def targets(files: Files, pattern: str) -> List[str]:
    return sorted(n for n in files if fnmatch.fnmatchcase(n, pattern) and not n.startswith("."))


def rotate_dir(files: Files, pattern: str, max_bytes: int, backups: int) -> Tuple[Files, List[str]]:
    """`main --dir D --pattern P --max-bytes M --backups N` on a flat directory.
    Returns (new files, bases that were rotated)."""
    cur = dict(files)
    rotated: List[str] = []
    for base in targets(files, pattern):
        if base not in cur:
            continue
        if len(cur[base]) >= max_bytes:
            cur, did = rotate_one(cur, base, backups)
            if did:
                rotated.append(base)
    return cur, rotated


def generations(files: Files, base: str) -> List[Tuple[int, str]]:
    """[(slot, name)] of every numbered generation of `base`, newest first; slot 0 = live file."""
    out = []
    for n in files:
        if n == base:
            out.append((0, n))
        else:
            k = slot_of(n, base)
            if k is not None:
                out.append((k, n))
    return sorted(out)
