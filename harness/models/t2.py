"""Independent float64 reference for sequential T2 retrieval over the in-memory index (no caches, no rerank),
written from the documented behaviour (README / docs/m2,m7 / docstrings): owner filter, tier rules, cosine rank with
(-score, id), tier walk with de-dupe and k clamp, combined rescoring alpha*(cos+1)/2 + beta*recency + gamma*importance
with id tie-break.  Exact ties that are bit-identical by construction (same vector) share one score here too.
"""
from __future__ import annotations

import datetime as dt
import hashlib
import math

BAND = 1e-6
HORIZON = 365.0


def parse(ts):
    return dt.datetime.fromisoformat(ts.replace("Z", "+00:00")).astimezone(dt.timezone.utc)


def cos(a, b):
    dot = sum(x * y for x, y in zip(a, b))
    if dot == 0:
        return 0.0
    na = math.sqrt(sum(x * x for x in a)) or 1.0
    nb = math.sqrt(sum(x * x for x in b)) or 1.0
    return dot / (na * nb)


def cluster_id(e):
    c = (e.get("aux") or {}).get("cluster_id")
    if c:
        return str(c)
    return "c:" + hashlib.md5(str(e.get("id") or e.get("text", "")).encode("utf-8")).hexdigest()[:8]


def visible(eps, owner):
    return [e for e in eps if owner is None or e.get("owner") == owner]


def owner_of(scope, agent):
    scope = str(scope).lower()
    if scope == "agent":
        return agent
    if scope == "world":
        return "world"
    return None


class Ref:
    """One evaluation of the reference; collects ambiguity (float32-vs-float64 band) notes."""

    def __init__(self, eps, qvec, cfg, now_iso, owner):
        self.eps = eps
        self.q = list(qvec)
        self.cfg = cfg
        self.now = parse(now_iso)
        self.owner = owner
        self.k = int(cfg.get("k_retrieval", 64))
        self.thr = float(cfg.get("sim_threshold", 0.3))
        self.tiers = list(cfg.get("tiers", ["exact_semantic", "cluster_semantic", "archive"]))
        self.days = int(cfg.get("exact_recent_days", 30))
        self.topm = int(cfg.get("clusters_top_m", 3))
        self.ambiguous = []  # reasons
        self.vis = visible(eps, owner)
        self._cos = {}
        for e in self.vis:
            if e.get("vec_full") is not None:
                self._cos[e["id"]] = cos(self.q, e["vec_full"])

    def score(self, e):
        return self._cos.get(e["id"])

    def rank(self, pool, room=None):
        """Top-k of `pool` by (cos desc, id asc) above the threshold.  `room` = how many more hits the walk can take;
        cosine near-ties are only flagged when truncation can make them matter."""
        sc = [(e, self.score(e)) for e in pool if e.get("vec_full") is not None]
        for e, s in sc:
            if abs(s - self.thr) < BAND and not (s == self.thr and (s == 0.0)):
                self.ambiguous.append(f"cos({e['id']})={s!r} within band of threshold {self.thr!r}")
        keep = [(e, s) for e, s in sc if s >= self.thr]
        keep.sort(key=lambda t: (-t[1], str(t[0]["id"])))
        if len(keep) > self.k or (room is not None and len(keep) > room):
            for (e1, s1), (e2, s2) in zip(keep, keep[1:]):
                if abs(s1 - s2) < BAND and tuple(e1["vec_full"]) != tuple(e2["vec_full"]):
                    self.ambiguous.append(f"near-tie in cosine between {e1['id']} and {e2['id']} with truncation")
        return keep[: self.k]

    def pool(self, tier):
        vis = self.vis
        if not vis:
            return []
        if tier == "exact_semantic":
            if self.days <= 0:
                return list(vis)
            cutoff = self.now - dt.timedelta(days=self.days)
            out = []
            for e in vis:
                if not e.get("ts"):
                    self.ambiguous.append(f"episode {e['id']} has no ts (recency filter falls back to the wall clock)")
                    out.append(e)
                elif parse(e["ts"]) >= cutoff:
                    out.append(e)
            return out
        if tier == "cluster_semantic":
            by = {}
            for e in vis:
                by.setdefault(cluster_id(e), []).append(e)
            cs = []
            for cid, items in by.items():
                vs = [it["vec_full"] for it in items if it.get("vec_full") is not None]
                if not vs:
                    continue
                cen = [sum(col) / len(vs) for col in zip(*vs)]
                cs.append((cid, cos(self.q, cen)))
            cs.sort(key=lambda t: (-t[1], t[0]))
            m = max(0, self.topm)
            if 0 < m < len(cs) and abs(cs[m - 1][1] - cs[m][1]) < BAND:
                self.ambiguous.append("near-tie of cluster centroid scores at the top-m boundary")
            chosen = sorted(c for c, _ in cs[:m])
            return [e for c in chosen for e in by[c]]
        if tier == "archive":
            return list(vis)
        return None  # unknown tier: skipped

    def walk(self):
        out, seen = [], set()
        for tier in self.tiers:
            p = self.pool(tier)
            if p is None:
                continue
            for e, s in self.rank(p, room=self.k - len(out)):
                if str(e["id"]) in seen:
                    continue
                out.append((e, s))
                seen.add(str(e["id"]))
                if len(out) >= self.k:
                    break
            if len(out) >= self.k:
                break
        return out

    def combined(self, e, s):
        r = self.cfg.get("ranking", {}) or {}
        a = float(r.get("alpha_sim", 0.75))
        b = float(r.get("beta_recency", 0.2))
        g = float(r.get("gamma_importance", 0.05))
        if e.get("ts"):
            age = max(0.0, (self.now - parse(e["ts"])).total_seconds() / 86400.0)
        else:
            age = HORIZON
        rec = max(0.0, min(1.0, 1.0 - age / HORIZON))
        imp = max(0.0, min(1.0, float((e.get("aux") or {}).get("importance", 0.5))))
        return a * ((s + 1.0) / 2.0) + b * rec + g * imp

    def result(self):
        """[(id, combined, cos)] in documented final order."""
        hits = self.walk()
        res = [(str(e["id"]), self.combined(e, s), s, e) for e, s in hits]
        res.sort(key=lambda t: (-t[1], t[0]))
        for (i1, c1, s1, e1), (i2, c2, s2, e2) in zip(res, res[1:]):
            if abs(c1 - c2) < BAND:
                same = (tuple(e1["vec_full"]) == tuple(e2["vec_full"]) and e1.get("ts") == e2.get("ts")
                        and (e1.get("aux") or {}).get("importance", 0.5) == (e2.get("aux") or {}).get("importance", 0.5))
                if not same:
                    self.ambiguous.append(f"near-tie in combined score between {i1} and {i2}")
        return [(i, c, s) for i, c, s, _ in res]
