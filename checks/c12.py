"""C12 — propagation follows the documented spreading rule within its budgets.

Oracles: (1) seeds == label/tag occurrence (ref); (2) reachability / once / id order / graph order;
(3) per-graph budgets; (4) decomposition over graphs; (5) exact differential vs. the reference propagator
(perf caps off); (6) store never modified; plus purity (same call twice, text/cfg untouched).
"""
from __future__ import annotations

import copy
from types import SimpleNamespace

from hypothesis import strategies as st

from harness.runner import Sub, Violation, run_hypothesis, digest
from harness import world
from harness.models import t1 as ref

LEVEL = "exploration"
RULE = ("Hypothesis-generated worlds: 1-4 concept graphs (0-8 nodes, cycles, self-loops, parallel edges, negative/"
        "zero weights, unknown relations, tags), input text biased to labels of nodes with out-edges, T1 config over "
        "its own surface (decay modes, multipliers, radius/iter/layer/relax caps in {0,1,tight,loose,None}, node and "
        "queue budgets, slice caps, perf caps on/off) or a validated config; sub-check seq: 2-4 calls on one state with the "
        "stage cache ON and slice caps changing between calls (non-trivial = a cache hit and differing caps). Non-trivial = some seed has an out-edge "
        "AND some cap binds (a *_hits counter > 0, pops == budget, or relax cap reached). Distinct = digest of "
        "(graphs, text, config, slice caps).")
ASSUMPTIONS = ["reference propagator in harness/models/t1.py written from the documented rule (float64, same "
               "operation order as documented: w*weight*mult*decay); exact equality of ids and counters",
               "with perf caps on (frontier/visited/dedupe) only the budget/reachability/decomposition predicates "
               "are asserted, not the exact differential (caps legitimately prune)",
               "T1 stage cache disabled here (cache transparency is C05)"]

COUNTERS = ["pops", "iters", "propagations", "radius_cap_hits", "layer_cap_hits", "node_budget_hits"]


# ---------------------------------------------------------------- strategies

def _cap(loose):
    return st.one_of(st.sampled_from([0, 1, 2, 3]), st.just(loose))


@st.composite
def t1_cfgs(draw):
    cfg = {"cache": {"enabled": False}}
    mode = draw(st.sampled_from(["exp_floor", "exp_floor", "attn_quad", "absent", "empty"]))
    if mode == "exp_floor":
        cfg["decay"] = {"mode": "exp_floor", "rate": draw(st.sampled_from([0.6, 0.9, 0.3, 1.0, 0.0])),
                        "floor": draw(st.sampled_from([0.05, 0.0, 0.5, 1.0]))}
    elif mode == "attn_quad":
        cfg["decay"] = {"mode": "attn_quad", "alpha": draw(st.sampled_from([0.8, 0.0, 2.0, 0.1]))}
    elif mode == "empty":
        cfg["decay"] = {}
    if draw(st.booleans()):
        cfg["edge_type_mult"] = draw(st.sampled_from([
            {"supports": 1.0, "associates": 0.6, "contradicts": 0.8},
            {"supports": 1.0, "associates": 1.0, "contradicts": -1.0},
            {"supports": 0.5}, {"supports": 2.0, "associates": 0.0, "contradicts": 0.8, "weird": 1.0}]))
    if draw(st.booleans()):
        cfg["queue_budget"] = draw(st.sampled_from([0, 1, 2, 3, 5, 8, 10000]))
    if draw(st.booleans()):
        cfg["node_budget"] = draw(st.sampled_from([0.5, 1.0, 1.5, 1.0001, 3.0, 100.0]))
    if draw(st.booleans()):
        cfg["radius_cap"] = draw(_cap(4))
    if draw(st.booleans()):
        cfg["iter_cap"] = draw(_cap(50))
    if draw(st.booleans()):
        cfg["iter_cap_layers"] = draw(_cap(50))
    if draw(st.sampled_from([True, False, False, False])):
        cfg["relax_cap"] = draw(st.sampled_from([None, 0, 1, 2, 3, 5]))
    return cfg


@st.composite
def motif_graph(draw):
    """Two-path motif: from a seed s a SHORT weak path and a LONG strong path join at j, followed by a tail.  Best-first
    expansion reaches j over the long path first; hop distances must then be relaxed when the short path arrives, and
    the radius/layer caps decide whether the tail is reached.  Returns (spec, seed_label, suggested radius)."""
    l_short = draw(st.integers(1, 2))
    l_long = l_short + draw(st.integers(1, 2))
    tail = draw(st.integers(1, 2))
    names = iter(["s", "p1", "p2", "p3", "p4", "q1", "q2", "j", "t1", "t2"])
    nodes = [{"id": "s", "label": "apple", "tags": []}]
    edges = []

    def add_path(prefix, length, w, rel):
        prev = "s"
        for i in range(length - 1):
            nid = f"{prefix}{i}"
            nodes.append({"id": nid, "label": draw(st.sampled_from(["", "zzz", "fig"])), "tags": []})
            edges.append({"id": f"e{len(edges)}", "src": prev, "dst": nid, "w": w, "rel": rel})
            prev = nid
        edges.append({"id": f"e{len(edges)}", "src": prev, "dst": "j", "w": w, "rel": rel})

    strong_first = draw(st.booleans())
    order = [("L", l_long, draw(st.sampled_from([1.0, 0.95])), "supports"), ("S", l_short, draw(st.sampled_from([0.05, 0.1, 0.2])), "associates")]
    if not strong_first:
        order.reverse()
    for pfx, ln, w, rel in order:
        add_path(pfx, ln, w, rel)
    nodes.append({"id": "j", "label": "zzz", "tags": []})
    prev = "j"
    for i in range(tail):
        nid = f"t{i}"
        nodes.append({"id": nid, "label": "", "tags": []})
        edges.append({"id": f"e{len(edges)}", "src": prev, "dst": nid, "w": 1.0, "rel": "supports"})
        prev = nid
    for _ in range(draw(st.integers(0, 2))):  # a little noise
        a, b = draw(st.sampled_from(nodes))["id"], draw(st.sampled_from(nodes))["id"]
        edges.append({"id": f"e{len(edges)}", "src": a, "dst": b, "w": draw(st.sampled_from([0.3, -0.4, 0.0])), "rel": "supports"})
    radius = l_short + draw(st.integers(0, tail))
    return {"nodes": nodes, "edges": edges}, radius


@st.composite
def cases(draw):
    ng = draw(st.integers(1, 4))
    gids = draw(st.lists(st.sampled_from(["g1", "g2", "G", "γ", "g10", "main"]), min_size=ng, max_size=ng, unique=True))
    graphs = {gid: draw(world.graph_specs()) for gid in gids}
    text = draw(world.texts_for(graphs))
    motif_radius = None
    if draw(st.sampled_from([True, False, False])):
        spec, motif_radius = draw(motif_graph())
        graphs[gids[0]] = spec
        text = (text + " apple").strip()
    use_validated = draw(st.sampled_from([False] * 5 + [True]))
    if use_validated:
        t1 = None
        over = {"t1": {"cache": {"enabled": False, "max_entries": 8, "ttl_s": 60}}}
        if draw(st.booleans()):
            over["t1"]["radius_cap"] = draw(st.sampled_from([0, 1, 2, 4]))
        if draw(st.booleans()):
            over["t1"]["queue_budget"] = draw(st.sampled_from([1, 2, 3, 10000]))
        if draw(st.booleans()):
            over["t1"]["iter_cap"] = draw(st.sampled_from([1, 2, 50]))
        if draw(st.booleans()):
            over["t1"]["node_budget"] = draw(st.sampled_from([0.5, 1.0, 1.5, 3.0]))
    else:
        t1 = draw(t1_cfgs())
        over = None
        if motif_radius is not None and draw(st.booleans()):
            t1["radius_cap"] = motif_radius
            t1["node_budget"] = 100.0
            t1.pop("relax_cap", None)
            t1.pop("queue_budget", None)
            if draw(st.booleans()):
                t1.pop("iter_cap", None)
                t1.pop("iter_cap_layers", None)
            t1["decay"] = draw(st.sampled_from([{"mode": "exp_floor", "rate": 0.9, "floor": 0.05}, {"mode": "attn_quad", "alpha": 0.1}]))
    slice_caps = None
    if draw(st.sampled_from([True, False, False])):
        slice_caps = {}
        if draw(st.booleans()):
            slice_caps["t1_iters"] = draw(st.sampled_from([0, 1, 2, 50]))
        if draw(st.booleans()):
            slice_caps["t1_pops"] = draw(st.sampled_from([0, 1, 2, 4, 10000]))
    perf = None
    if draw(st.sampled_from([True, False, False, False])):
        perf = {"enabled": draw(st.sampled_from([True, True, False])),
                "t1": {"caps": {"frontier": draw(st.sampled_from([0, 1, 2, 100])), "visited": draw(st.sampled_from([0, 1, 2, 100]))},
                       "dedupe_window": draw(st.sampled_from([0, 1, 4]))},
                "metrics": {"report_memory": draw(st.booleans())}}
    return {"graphs": graphs, "order": gids, "text": text, "t1": t1, "validated": over, "slice": slice_caps, "perf": perf}


# ---------------------------------------------------------------- running the real stage

def _cfg_of(case):
    if case["validated"] is not None:
        cfg = world.validated_cfg(case["validated"])
        if case["perf"] is not None:
            cfg["perf"] = world.to_attr(world.deep_merge(dict(cfg.get("perf") or {}), case["perf"]))
        return cfg
    base = {"t1": copy.deepcopy(case["t1"])}
    if case["perf"] is not None:
        base["perf"] = copy.deepcopy(case["perf"])
    return world.to_attr(base)


def run_t1(case, gids=None):
    from clematis.engine.stages.t1 import t1_propagate

    world.reset_engine_globals()
    cfg = _cfg_of(case)
    gids = list(case["order"] if gids is None else gids)
    store = world.build_store({g: case["graphs"][g] for g in case["order"]})
    ctx = SimpleNamespace(cfg=cfg, config=cfg, agent_id="A", turn_id=1)
    if case["slice"] is not None:
        ctx.slice_budgets = dict(case["slice"])
    state = {"store": store, "active_graphs": gids}
    before = world.store_digest(store)
    cfg_before = copy.deepcopy(dict(cfg))
    res = t1_propagate(ctx, state, case["text"])
    after = world.store_digest(store)
    return res, before, after, (cfg_before == dict(cfg)), ctx, state


def perf_caps_active(case):
    p = case["perf"]
    if not p or not p.get("enabled"):
        return False
    t1 = p.get("t1") or {}
    caps = t1.get("caps") or {}
    return bool(caps.get("frontier") or caps.get("visited") or t1.get("dedupe_window"))


def check_case(case, rec=None):
    cfg = _cfg_of(case)
    t1cfg = dict(cfg["t1"])
    try:
        res, before, after, cfg_same, ctx, state = run_t1(case)
    except Exception as e:
        raise Violation(f"t1_propagate raised {type(e).__name__}: {e}", case, "raises")
    if before != after:
        raise Violation("t1_propagate modified the graph store", case, "store-modified")
    if not cfg_same:
        raise Violation("t1_propagate modified the configuration", case, "cfg-modified")
    m = res.metrics
    deltas = res.graph_deltas
    for d in deltas:
        if set(d) != {"op", "id"} or d["op"] != "upsert_node":
            raise Violation(f"unexpected delta shape {d}", case, "delta-shape")

    # second call: pure
    res2 = run_t1(case)[0]
    if res2.graph_deltas != deltas or {k: res2.metrics[k] for k in COUNTERS} != {k: m[k] for k in COUNTERS}:
        raise Violation("two identical calls differ", case, "nondeterministic")

    # (4) decomposition: per-graph runs (also yields per-graph figures for the budget predicates)
    per = []
    for gid in case["order"]:
        r, b, a, _, _, _ = run_t1(case, gids=[gid])
        if b != a:
            raise Violation("t1_propagate modified the graph store", case, "store-modified")
        per.append((gid, r))
    cat = [d for _, r in per for d in r.graph_deltas]
    if cat != deltas:
        raise Violation(f"result over {case['order']} is not the concatenation of the per-graph results in "
                        f"active_graphs order: {[d['id'] for d in deltas]} vs {[d['id'] for d in cat]}", case, "decomposition")
    for k in COUNTERS:
        if sum(r.metrics[k] for _, r in per) != m[k]:
            raise Violation(f"counter {k}={m[k]} is not the sum of per-graph counters "
                            f"{[r.metrics[k] for _, r in per]}", case, "decomposition-counter")
    if m.get("graphs_touched") != len(case["order"]):
        raise Violation(f"graphs_touched={m.get('graphs_touched')} for {len(case['order'])} active graphs", case, "graphs-touched")

    qb, layers = ref.effective_caps(t1cfg, case["slice"])
    rc = int(t1cfg.get("radius_cap", 4))
    relax = t1cfg.get("relax_cap")
    caps_on = perf_caps_active(case)
    any_seed_out = False
    binding = False
    for gid, r in per:
        spec = case["graphs"][gid]
        ids = [d["id"] for d in r.graph_deltas]
        seeds = ref.ref_seeds(spec, case["text"])
        mm = r.metrics
        # (1) seeds
        if not seeds:
            if ids or any(mm[k] for k in COUNTERS):
                raise Violation(f"graph {gid}: no label/tag occurs in the text but T1 reported {ids} / {mm}", case, "seedless-work")
            continue
        # every seed is reported unless a negative contribution cancelled it; a reported node with no path is wrong
        # (2) once, ascending, reachable
        if len(set(ids)) != len(ids):
            raise Violation(f"graph {gid}: node reported twice: {ids}", case, "dup-node")
        if ids != sorted(ids):
            raise Violation(f"graph {gid}: ids not ascending: {ids}", case, "id-order")
        reach = ref.reachable_within(spec, seeds, min(rc, layers))
        bad = [i for i in ids if i not in reach]
        if bad:
            raise Violation(f"graph {gid}: reported {bad} not reachable from seeds {seeds} within "
                            f"min(radius_cap={rc}, layers={layers}) hops", case, "unreachable")
        # (3) budgets
        if mm["pops"] > qb:
            raise Violation(f"graph {gid}: pops={mm['pops']} exceeds budget {qb}", case, "pops-budget")
        if mm["iters"] > layers:
            raise Violation(f"graph {gid}: iters={mm['iters']} exceeds layer cap {layers}", case, "iters-budget")
        if relax is not None and mm["propagations"] > int(relax):
            raise Violation(f"graph {gid}: propagations={mm['propagations']} exceeds relax_cap {relax}", case, "relax-budget")
        srcs = {e["src"] for e in spec["edges"]}
        if any(s in srcs for s in seeds):
            any_seed_out = True
        if mm["radius_cap_hits"] or mm["layer_cap_hits"] or mm["node_budget_hits"] or mm["pops"] == qb or \
                (relax is not None and mm["propagations"] >= int(relax)):
            binding = True
        # (5) exact differential
        if not caps_on:
            want_ids, want_m = ref.ref_one_graph(spec, case["text"], t1cfg, case["slice"])
            if want_ids != ids:
                raise Violation(f"graph {gid}: touched {ids}, documented rule gives {want_ids} (seeds {seeds})", case, "ref-ids")
            got_m = {k: mm[k] for k in COUNTERS}
            if got_m != want_m:
                raise Violation(f"graph {gid}: counters {got_m}, documented rule gives {want_m}", case, "ref-counters")
            # seeds must all be within ids unless cancelled (covered by the differential)

    if rec is not None:
        nt = any_seed_out and binding
        labels = [f"graphs={len(case['order'])}"] + (["seed_out"] if any_seed_out else []) + (["binding"] if binding else []) + \
                 (["perf_caps"] if caps_on else []) + (["slice"] if case["slice"] else []) + \
                 (["validated"] if case["validated"] is not None else []) + (["deltas>0"] if deltas else []) + \
                 (["motif"] if any(n["id"] == "j" for g in case["graphs"].values() for n in g["nodes"]) else [])
        rec.case(nontrivial=nt, dig=digest(case) if nt else None, labels=labels,
                 sample={"text": case["text"], "graphs": {g: {"nodes": [(n["id"], n["label"]) for n in s["nodes"]],
                                                              "edges": [(e["src"], e["dst"], e["w"], e["rel"]) for e in s["edges"]][:8]}
                                                          for g, s in list(case["graphs"].items())[:2]},
                         "t1": case["t1"] or case["validated"], "slice": case["slice"],
                         "result": [d["id"] for d in deltas], "metrics": {k: m[k] for k in COUNTERS}} if nt else None)


# ---------------------------------------------------------------- sequences on one engine state (stage cache ON)

@st.composite
def seq_cases(draw):
    """2-4 calls on ONE state with the T1 result cache enabled: same graphs, texts from a small pool, slice caps that
    change from call to call.  Whatever the stage keeps between calls, every single call must still obey the rule."""
    base = draw(cases())
    if base["validated"] is not None:
        base["validated"]["t1"]["cache"] = {"enabled": True, "max_entries": draw(st.sampled_from([1, 2, 8])), "ttl_s": 300}
    else:
        base["t1"]["cache"] = draw(st.sampled_from([{"enabled": True}, {"enabled": True, "max_entries": 2}]))
    caps_pool = [None, {}, {"t1_pops": 1}, {"t1_pops": 2, "t1_iters": 1}, {"t1_iters": 0}, {"t1_iters": 2}, {"t1_pops": 10000, "t1_iters": 50},
                 {"t1_pops": 0}]
    texts = [base["text"], base["text"], draw(world.texts_for(base["graphs"]))]
    calls = [{"text": draw(st.sampled_from(texts)), "slice": draw(st.sampled_from(caps_pool))} for _ in range(draw(st.integers(2, 4)))]
    # graph edits between calls (the Apply stage's store.apply_deltas path, or upsert_edges): a weight / relation refresh
    # of an EXISTING edge, or a new edge; the next propagation must follow the edited graph
    editable = [(g, j) for g in base["order"] for j in range(len(base["graphs"][g]["edges"]))]
    for c in calls[1:]:
        if editable and draw(st.sampled_from([True, False])):
            g, j = draw(st.sampled_from(editable))
            c["edit"] = {"gid": g, "edge": j, "via": draw(st.sampled_from(["apply_deltas", "apply_deltas", "upsert_edges"])),
                         "w": draw(st.sampled_from([0.0, 0.9, -0.9, 0.5, 1.0, 0.25])),
                         "rel": draw(st.sampled_from([None, None, "supports", "associates", "contradicts"]))}
    base["calls"] = calls
    return base


def check_seq(case, rec=None):
    from clematis.engine.stages.t1 import t1_propagate

    world.reset_engine_globals()
    cfg = _cfg_of(case)
    t1cfg = dict(cfg["t1"])
    import copy as _copy
    graphs = _copy.deepcopy(case["graphs"])  # the reference's view of the graph contents, edited in step with the store
    case = dict(case, graphs=graphs)
    store = world.build_store({g: graphs[g] for g in case["order"]})
    state = {"store": store, "active_graphs": list(case["order"])}
    caps_on = perf_caps_active(case)
    hits = 0
    edits = 0
    differing_caps = len({json_key(c["slice"]) for c in case["calls"]}) > 1
    for j, call in enumerate(case["calls"], 1):
        ctx = SimpleNamespace(cfg=cfg, config=cfg, agent_id="A", turn_id=j, now_ms=world.NOW_MS)
        if call["slice"] is not None:
            ctx.slice_budgets = dict(call["slice"])
        ed = call.get("edit")
        if ed is not None and ed["edge"] < len(graphs[ed["gid"]]["edges"]):
            from clematis.engine.types import Edge
            spec = graphs[ed["gid"]]["edges"][ed["edge"]]
            spec["w"] = float(ed["w"])
            if ed["rel"] is not None:
                spec["rel"] = ed["rel"]
            if ed["via"] == "apply_deltas":
                store.apply_deltas(ed["gid"], [{"op": "upsert_edge", "id": spec["id"], "src": spec["src"], "dst": spec["dst"],
                                                "weight": spec["w"], "rel": spec["rel"]}])
            else:
                store.upsert_edges(ed["gid"], [Edge(id=spec["id"], src=spec["src"], dst=spec["dst"], weight=spec["w"], rel=spec["rel"])])
            edits += 1
        before = world.store_digest(store)
        try:
            res = t1_propagate(ctx, state, call["text"])
        except Exception as e:
            raise Violation(f"call {j}: t1_propagate raised {type(e).__name__}: {e}", case, "raises")
        if world.store_digest(store) != before:
            raise Violation(f"call {j}: t1_propagate modified the graph store", case, "store-modified")
        hits += int(res.metrics.get("cache_hits", 0) or 0)
        qb, layers = ref.effective_caps(t1cfg, call["slice"])
        want_ids, want_m = [], dict(ref.ZERO)
        n_graphs = len(case["order"])
        for gid in case["order"]:
            ids, m = ref.ref_one_graph(case["graphs"][gid], call["text"], t1cfg, call["slice"])
            want_ids += ids
            for k in want_m:
                want_m[k] += m[k]
        got_ids = [d["id"] for d in res.graph_deltas]
        mm = res.metrics
        # budgets (aggregate over graphs) hold whatever was cached
        if mm["pops"] > qb * n_graphs:
            raise Violation(f"call {j} (slice {call['slice']}): pops={mm['pops']} exceeds {n_graphs} x budget {qb}", case, "seq-pops-budget")
        if mm["iters"] > layers * n_graphs:
            raise Violation(f"call {j} (slice {call['slice']}): iters={mm['iters']} exceeds {n_graphs} x layer cap {layers}", case, "seq-iters-budget")
        if not caps_on:
            if got_ids != want_ids:
                raise Violation(f"call {j} (text {call['text']!r}, slice {call['slice']}): touched {got_ids}, documented rule gives "
                                f"{want_ids}", case, "seq-ref-ids")
            got_m = {k: mm[k] for k in COUNTERS}
            if got_m != want_m:
                raise Violation(f"call {j} (slice {call['slice']}): counters {got_m}, documented rule gives {want_m}", case, "seq-ref-counters")
    if rec is not None:
        nt = hits > 0 and differing_caps
        rec.case(nontrivial=nt, dig=digest(case) if nt else None,
                 labels=[f"calls={len(case['calls'])}"] + (["cache_hit"] if hits else []) + (["caps_differ"] if differing_caps else []) +
                        (["graph_edited_between_calls"] if edits else []),
                 sample={"calls": case["calls"], "text": case["text"], "t1": case["t1"] or case["validated"]} if nt else None)


def json_key(x):
    import json
    return json.dumps(x, sort_keys=True)


def sub_seq(rec, seed, shard, nshards, n=150, shrink=True):
    run_hypothesis(rec, seed, seq_cases(), lambda c: check_seq(c, rec), max_examples=n, shrink=shrink, name="seq")


def sub_rule(rec, seed, shard, nshards, n=500, shrink=True):
    run_hypothesis(rec, seed, cases(), lambda c: check_case(c, rec), max_examples=n, shrink=shrink, name="rule")


def replay_case(case):
    from checks.c03 import _fix_floats
    check_case(_fix_floats(case), None)


def replay_seq(case):
    from checks.c03 import _fix_floats
    check_seq(_fix_floats(case), None)


SUBCHECKS = [
    Sub("seq", sub_seq, quick={"n": 120}, thorough={"n": 2500}, shards_quick=4, shards_thorough=8, replay=replay_seq),
    Sub("rule", sub_rule, quick={"n": 150}, thorough={"n": 2500}, shards_quick=8, shards_thorough=16, replay=replay_case),
]
