"""Reference model for C17 (scheduler core + yield decision), written from the property statement,
the docstrings of clematis/engine/scheduler.py / orchestrator `_should_yield`, the validator's ranges and the
driver loop in clematis/scripts/demo.py. Deliberately tiny and independent of the code under test.

Scheduler model
---------------
state   : queue (list, order matters only for round_robin), last[a] (ms), consec[a] (turns since last reset)
pick    : eligible = {a in queue : consec[a] < m}
          none eligible      -> (min(queue), "RESET_CONSEC")
          round_robin        -> first eligible in queue order, "ROUND_ROBIN"
          fair_queue         -> max tier among eligible, tie -> lexicographically smallest id, "AGING_BOOST"
                                 tier(a) = max(0, now - last[a]) // aging_ms         (aging_ms > 0)
                                 aging_ms == 0: every tier is 0. The docs disagree on the degenerate case
                                 ("fall back to round-robin" = first eligible in queue order  vs  "tie-break lex");
                                 both coincide on a sorted queue (the only queue the demo driver ever produces for
                                 fair_queue), so the model returns BOTH as admissible when they differ.
bookkeep: last[a] = now; reset pick -> every counter 0, else consec[a] += 1
rotate  : picked agent moves to the tail of the queue (driver's job; demo.py does it for round_robin)
bound   : others' selections strictly between two own turns (or since start) <= 2*(n-1)*m + 1
"""
from __future__ import annotations

from typing import Dict, List, Optional, Set, Tuple

RESET = "RESET_CONSEC"
REASON_OF_POLICY = {"round_robin": "ROUND_ROBIN", "fair_queue": "AGING_BOOST"}
POLICIES = ("round_robin", "fair_queue")


def wait_bound(n_agents: int, m: int) -> int:
    return 2 * (n_agents - 1) * m + 1


class RefScheduler:
    def __init__(self, agents: List[str], now: int, policy: str, m: int, aging: int):
        self.queue: List[str] = sorted(agents)
        self.last: Dict[str, int] = {a: int(now) for a in self.queue}
        self.consec: Dict[str, int] = {a: 0 for a in self.queue}
        self.policy = policy
        self.m = int(m)
        self.aging = int(aging)
        self.wait: Dict[str, int] = {a: 0 for a in self.queue}  # others' selections since own last turn / start

    # ----------------------------------------------------------------------------- selection
    def eligible(self) -> List[str]:
        return [a for a in self.queue if self.consec[a] < self.m]

    def tier(self, a: str, now: int) -> int:
        if self.aging <= 0:
            return 0
        return max(0, now - self.last[a]) // self.aging

    def pick(self, now: int) -> Tuple[Set[str], str, dict]:
        """-> (admissible agents, reason, info). `admissible` has one element except in the documented-ambiguous
        degenerate case (fair_queue, aging_ms == 0, unsorted queue)."""
        el = self.eligible()
        info = {"eligible": list(el), "reset": not el, "ambiguous": False, "boost": False, "tie": False}
        if not el:
            return {min(self.queue)}, RESET, info
        if self.policy == "fair_queue":
            tiers = {a: self.tier(a, now) for a in el}
            top = max(tiers.values())
            cands = sorted(a for a in el if tiers[a] == top)
            info["tie"] = len(cands) > 1
            info["boost"] = len(set(tiers.values())) > 1
            adm = {cands[0]}
            if self.aging <= 0 and el[0] != cands[0]:
                adm.add(el[0])
                info["ambiguous"] = True
            return adm, REASON_OF_POLICY["fair_queue"], info
        return {el[0]}, REASON_OF_POLICY["round_robin"], info

    # ----------------------------------------------------------------------------- bookkeeping
    def on_yield(self, agent: str, now: int, reset: bool) -> None:
        self.last[agent] = int(now)
        if reset:
            for a in self.consec:
                self.consec[a] = 0
        else:
            self.consec[agent] += 1

    def rotate(self, agent: str) -> None:
        self.queue.remove(agent)
        self.queue.append(agent)

    def count_wait(self, agent: str) -> Optional[Tuple[str, int]]:
        """Account one completed selection of `agent`; returns (starved agent, its wait) if the bound breaks."""
        worst = None
        b = wait_bound(len(self.queue), self.m)
        for a in self.queue:
            if a == agent:
                self.wait[a] = 0
            else:
                self.wait[a] += 1
                if self.wait[a] > b and (worst is None or self.wait[a] > worst[1]):
                    worst = (a, self.wait[a])
        return worst

    # ----------------------------------------------------------------------------- normal form (memo key)
    def norm(self, now: int) -> tuple:
        """Everything the future behaviour of the *model* depends on, clocks as differences.
        Idle times only matter for fair_queue with aging > 0; queue order only for round_robin (and for the
        ambiguity bookkeeping of the degenerate fair_queue case)."""
        ags = sorted(self.queue)
        idle = tuple(max(0, now - self.last[a]) for a in ags) if (self.policy == "fair_queue" and self.aging > 0) else ()
        return (tuple(self.queue), idle, tuple(self.consec[a] for a in ags), tuple(self.wait[a] for a in ags))


# ------------------------------------------------------------------------------------------------
# yield decision
# ------------------------------------------------------------------------------------------------

STAGE_BUDGETS = (("t1_iters", "BUDGET_T1_ITERS"), ("t1_pops", "BUDGET_T1_POPS"), ("t2_k", "BUDGET_T2_K"),
                 ("t3_ops", "BUDGET_T3_OPS"))
DEFAULT_QUANTUM = 20


def ref_should_yield(budgets: dict, consumed: dict) -> Tuple[Set[Optional[str]], dict]:
    """Documented decision: WALL_MS (elapsed >= wall_ms, equality triggers) > BUDGET_* (stage work reached its
    budget) > QUANTUM_EXCEEDED (elapsed >= quantum_ms, default 20) > None.

    Stage budgets *clamp* stage work, so `consumed <= budget` on every real boundary and "reached" means equality.
    For the (undocumented) over-budget situation consumed > budget the model admits both readings.
    Which BUDGET_* wins when several are reached at once is not documented (cannot happen on a real boundary except
    t1_iters+t1_pops): the model admits any reached budget there, see `multi`.
    Returns (admissible reasons, info)."""
    ms = consumed.get("ms", 0)
    info = {"wall": False, "hit": [], "over": [], "quantum": False}
    wall = budgets.get("wall_ms")
    if wall is not None and ms >= wall:
        info["wall"] = True
    for k, name in STAGE_BUDGETS:
        b = budgets.get(k)
        c = consumed.get(k)
        if b is None or c is None:
            continue
        if c == b:
            info["hit"].append(name)
        elif c > b:
            info["over"].append(name)
    if ms >= budgets.get("quantum_ms", DEFAULT_QUANTUM):
        info["quantum"] = True
    if info["wall"]:
        return {"WALL_MS"}, info
    below = "QUANTUM_EXCEEDED" if info["quantum"] else None
    if info["hit"]:
        adm: Set[Optional[str]] = set(info["hit"])
        return adm | set(info["over"]), info
    if info["over"]:
        return set(info["over"]) | {below}, info
    return {below}, info


def ref_derive_budgets(sched_cfg: dict) -> dict:
    """Slice budgets handed to stages: the non-null stage/wall budgets of scheduler.budgets + quantum_ms."""
    out = {}
    b = (sched_cfg or {}).get("budgets") or {}
    for k in ("t1_pops", "t1_iters", "t2_k", "t3_ops", "wall_ms"):
        if b.get(k) is not None:
            out[k] = int(b[k])
    out["quantum_ms"] = int((sched_cfg or {}).get("quantum_ms", DEFAULT_QUANTUM))
    return out
