"""C14 — config validation is total, pure, consistent, and admits only runnable configs.

Sub-checks
  total     Hypothesis: nested mappings over the frozen v1 key tree (valid / boundary / wrong-type / NaN / inf / 10**400
            leaves, near-miss typos, random and NON-STRING keys at any level, sections replaced by scalars / lists).
            Oracles: outcome in {dict, ConfigError}; deep NaN-safe snapshot of the input (incl. identity of nested
            containers) unchanged by every API variant; validate_config / validate_config_api / validate_config_verbose /
            compat form / in-process CLI main([...]) (file written with the loader's own format and RE-LOADED) agree on
            verdict, message lines, normalised dict and warnings; accepted => every documented range / enumeration /
            cross-field rule of the frozen table holds on the normalised output (NaN satisfies no range).
            1 case in 4 carries edits that make the validator REPEAT a message (apply_dup): the message list is compared
            entry for entry (order, multiplicity) between the variants, the compat form under every keyword spelling, and
            the in-process CLI in its text / --json / --strict / STDIN ('-') forms, YAML and JSON documents, for both
            clematis.scripts.validate and the repository's scripts/validate_config.py.
  leafwise  EXHAUSTIVE single-leaf enumeration: every leaf of the frozen table x every pool value (valid incl. boundaries
            and large magnitudes / just outside / wrong type / NaN, inf, 10**400 ...), every section x every scalar/list
            replacement, every top-level unknown key (typos, random, non-string). Same validator oracles; additionally a
            documented-valid value must be ACCEPTED (only the listed cross-field messages may reject it) and an unknown
            top-level key must be REJECTED with a message naming it.
  hashseed  the same generator, batches evaluated by child interpreters under PYTHONHASHSEED=0,1,2,random: verdict and
            message lines must be identical in all of them.
  cli       sample of real subprocesses: `python -m clematis validate FILE`, `python -m clematis validate --json FILE`,
            `python -m clematis.scripts.validate FILE` (rotating PYTHONHASHSEED) against the in-process verdict/messages/
            normalised dict of the re-loaded file; two more forms per case in rotation (scripts/validate_config.py, '-'
            STDIN, --strict through the umbrella, the default path configs/config.yaml); fixed anchors incl. rejected
            configs whose message list repeats an entry.
  runnable  accepted configs built constructively from the frozen table (in-range values incl. boundaries and large
            magnitudes, >= 3 leaves off default; curated switch SETS such as perf.enabled + report_memory + quality.shadow,
            and for every switch that is on a few leaves of the subtree it governs; numbers on the boundaries inside the
            t1.decay / t1.edge_type_mult mappings) => (a) the validator accepts what the table documents as valid,
            (b) two or three real orchestrator turns on a small non-trivial world do not raise.
  atheris   optional byte target (fuzz/c14_validate_fuzz.py) building the same shapes, same oracle as `total`.

The key tree / ranges below are a FROZEN transcription (pinned commit) of docs/m13/config_freeze.md (top level),
configs/config.yaml + milestone docs (sections) and the validator's own "must be ..." messages.  They are deliberately
not read from configs.validate at run time, so a change that widens or narrows the validator is seen.
"""
from __future__ import annotations

import contextlib
import copy
import datetime
import io
import json
import math
import os
import re
import shutil
import subprocess
import sys
import tempfile
import traceback

from hypothesis import strategies as st

from harness.runner import Sub, Violation, run_hypothesis, digest

LEVEL = "exploration"
RULE = ("leafwise: exhaustive product (table leaf x pool value; section x replacement; top-level unknown keys), distinct by "
        "construction, non-trivial = every non-valid class. total/hashseed/cli/atheris: Hypothesis (or byte-decoded) nested mappings over the frozen v1 key tree: 0-8 leaf "
        "assignments drawn from {valid, boundary, just outside, wrong type (None/str/list/dict/bool), NaN/+-inf, 10**400, "
        "negative, empty containers; near-valid spellings of the pass-through leaves} plus 0-3 structural edits {near-miss typo "
        "of a sibling key, random string key, non-string key (int/None/tuple/bool/float), section replaced by scalar/list/empty} "
        "plus, in 1 case of 4, 1-2 edits after which the validator's message list repeats an entry (label dup_message_lines). "
        "Non-trivial = the input has >=1 invalid leaf, unknown key or mangled section. runnable: accepted configs constructed from the table "
        "(cross-field groups drawn jointly); non-trivial = normalised config differs from the default in >=3 leaves and "
        "both turns executed (network configs t3.backend=llm+provider=ollama are counted and skipped). Distinct = digest "
        "of the encoded input (runnable: config + world + texts).")
ASSUMPTIONS = [
    "JSON/YAML-shaped inputs: dict/list/str/int/float/bool/None (+ tuple, int, None, bool, float KEYS as YAML/Python allow); "
    "ints up to 10**400 (beyond 4300 digits neither json nor yaml can load a value)",
    "documented ranges = frozen table transcribed from docs + validator messages at the pinned commit; leaves the validator "
    "documents no range for (t1.decay, t2.tiers, k_surface, bm25.k1, fusion.alpha_semantic ...) are only type-free pass-through",
    "CLI comparison uses the file as re-loaded by yaml.safe_load (loader quirks are not blamed on the validator); inputs "
    "PyYAML cannot represent (tuple keys) are skipped for the CLI oracles and counted",
    "message comparison is on the stripped message text; suggestion hints are part of the message",
    "runnability world: 1-2 active graphs (3-4 labelled nodes, 3-5 edges; 2 nodes, 2 edges), 3-6 episodes, bag-of-words encoder, 2-3 turns",
    "documented domain of the pass-through leaves the stages read (t1.radius_cap, k_surface, t2.exact_recent_days / clusters_top_m / "
    "residual_cap_per_turn, t2.tiers, t1.decay, t1.edge_type_mult) = the validator's own 'must be ...' messages (PASSTHROUGH_RANGES)",
    "t1.decay documented domain (since repo fix 5619523): rate, floor in [0, 1], alpha >= 0; numbers beyond are drawn too "
    "(whatever the validator still accepts must run)",
    "YAML-native scalars (date / datetime / bytes / set, what yaml.safe_load returns for a timestamp, !!binary, !!set) are leaf values "
    "and (date / datetime / bytes) mapping keys everywhere, also inside accepted pass-through mappings; `--json` may render them any way "
    "(wildcards in the comparison of the normalised dict)",
    "no input makes the validator emit the same WARNING twice (all warning texts are distinct constants), so warning multiplicity is "
    "compared (sorted list equality) but cannot be exercised",
]

NAN = float("nan")
INF = float("inf")
BIG = 10 ** 400
VERIF = os.path.dirname(os.path.dirname(os.path.abspath(__file__)))


def _repo() -> str:
    return os.path.abspath(os.environ.get("VERIF_REPO") or "/repo")


# =====================================================================================================
# Frozen table: v1 key tree + documented ranges (transcribed; NOT read from configs.validate)
# =====================================================================================================

def I(lo=None, hi=None):
    return ("int", lo, hi)


def F(lo=None, hi=None, lo_open=False, hi_open=False):
    return ("float", lo, hi, lo_open, hi_open)


def E(*vals):
    return ("enum", vals)


def IN(lo):
    return ("int?", lo)  # int >= lo, or null


def SL(*allowed):
    return ("strlist", allowed)  # list of strings (each in `allowed` when given)


def FREE(*examples):
    return ("free", examples)  # accepted key; value passes through unvalidated. examples = documented values


def ALIAS(target):
    return ("alias", target)  # accepted input spelling of the sibling `target`; raw value stays in the output


B = ("bool",)
S = ("str",)  # non-empty string path (whitespace-only counts as empty: the validator strips these)
SR = ("str_raw",)  # "non-empty string" taken literally (whitespace-only is non-empty)
SN = ("str?",)  # non-empty string or null
COOLDOWNS = ("cooldowns",)  # mapping op-kind (str) -> int >= 0

_STAGE_CACHE = {"enabled": FREE(True, False), "namespaces": FREE([]), "max_entries": I(0), "ttl_s": I(0),
                "ttl_sec": ALIAS("ttl_s")}

TREE = {
    "version": E("v1"),
    "k_surface": FREE(32, 8),
    "surface_method": FREE("PCA"),
    "budgets": FREE({"time_ms": 1000, "ops": 1000, "tokens": 1024, "time_ms_reflection": 6000}, {}),
    "flags": FREE({"enable_world_memory": False, "allow_reflection": False}, {"enable_world_memory": True}, {}),
    "t1": {
        "cache": dict(_STAGE_CACHE),
        "iter_cap": I(0),
        "queue_budget": I(0),
        "node_budget": F(0, None, lo_open=True),
        "decay": FREE({"mode": "exp_floor", "rate": 0.6, "floor": 0.05}, {"mode": "attn_quad", "alpha": 0.8}, {}),
        "edge_type_mult": FREE({"supports": 1.0, "associates": 0.6, "contradicts": 0.8}, {}),
        "radius_cap": FREE(4, 0, 1),
    },
    "t2": {
        "backend": E("inmemory", "lancedb"),
        "k_retrieval": I(1),
        "sim_threshold": F(-1.0, 1.0),
        "cache": dict(_STAGE_CACHE),
        "ranking": {"alpha_sim": F(0, 1), "beta_recency": F(0, 1), "gamma_importance": F(0, 1)},
        "hybrid": {
            "enabled": B, "use_graph": B, "anchor_top_m": I(1), "walk_hops": E(1, 2), "edge_threshold": F(0, 1),
            "lambda_graph": F(0, 1), "damping": F(0, 1), "degree_norm": E("none", "invdeg"), "max_bonus": F(0, None),
            "k_max": I(1),
        },
        "tiers": FREE(["exact_semantic", "cluster_semantic", "archive"], ["exact_semantic"], ["archive", "cluster_semantic"]),
        "exact_recent_days": FREE(30, 0, 365),
        "clusters_top_m": FREE(3, 0, 1),
        "owner_scope": FREE("any", "agent", "world"),
        "residual_cap_per_turn": FREE(32, 0, 1),
        "lancedb": {
            "uri": FREE("./.data/lancedb"), "table": FREE("episodes"), "meta_table": FREE("meta"),
            "index": FREE({"metric": "cosine", "ef_search": 64, "m": 16}),
            "partitions": {"by": SL(), "shard_order": E("lex", "score")},
        },
        "archive": FREE({}, {"enabled": False}),
        "embed_root": S,
        "reader_batch": I(1),
        "reader": {"mode": E("flat", "partition", "auto")},
        "quality": {
            "enabled": B, "shadow": B, "trace_dir": S, "redact": B,
            "normalizer": {"enabled": B, "case": E("lower"), "unicode": E("NFKC"), "stopwords": SR,
                           "stemmer": E("none", "porter-lite"), "min_token_len": I(1)},
            "aliasing": {"enabled": B, "map_path": SR, "max_expansions_per_token": I(0)},
            "lexical": {"enabled": B, "bm25": {"k1": F(), "b": F(), "doclen_floor": I(0)},
                        "bm25_k1": FREE(1.2), "bm25_b": FREE(0.75), "stopwords": FREE("en-basic", "none")},
            "fusion": {"enabled": B, "mode": FREE("score_interp", "rank"), "alpha_semantic": F(),
                       "score_norm": E("zscore", "minmax")},
            "mmr": {"enabled": B, "lambda": F(0, 1), "lambda_relevance": F(0, 1), "diversity_by_owner": B,
                    "diversity_by_token": B, "k": I(1), "k_final": I(1)},
            "cache": {"salt": FREE("", "s1")},
        },
    },
    "t3": {
        "max_rag_loops": E(0, 1),
        "max_ops_per_turn": I(1, 16),
        "backend": E("rulebased", "llm"),
        "tokens": I(1),
        "temp": F(0, 1),
        "allow_reflection": B,
        "apply_ops": B,
        "dialogue": {"template": SR, "include_top_k_snippets": I(0)},
        "policy": {"tau_high": F(0, 1), "tau_low": F(0, 1), "epsilon_edit": F(0, 1)},
        "llm": {"provider": E("fixture", "ollama"), "model": S, "endpoint": S, "max_tokens": I(1), "temp": F(0, 1),
                "timeout_ms": I(1), "fixtures": {"enabled": B, "path": SN}},
        "reflection": {"backend": E("rulebased", "llm"), "summary_tokens": I(0), "embed": B, "log": B,
                       "topk_snippets": I(0)},
    },
    "t4": {
        "enabled": B,
        "delta_norm_cap_l2": F(0, None, lo_open=True),
        "novelty_cap_per_node": F(0, 1, lo_open=True),
        "churn_cap_edges": I(0),
        "cooldowns": COOLDOWNS,
        "weight_min": F(-1.0, 1.0),
        "weight_max": F(-1.0, 1.0),
        "snapshot_every_n_turns": I(1),
        "snapshot_dir": S,
        "cache_bust_mode": E("none", "on-apply"),
        "cache": {"enabled": B, "namespaces": SL("t2:semantic"), "max_entries": I(0), "ttl_sec": I(0),
                  "ttl_s": ALIAS("ttl_sec")},
    },
    "graph": {
        "enabled": B,
        "coactivation_threshold": F(0, 1),
        "observe_top_k": I(1),
        "pair_cap_per_obs": I(0),
        "update": {"mode": E("additive", "proportional"), "alpha": F(0, None, lo_open=True), "clamp_min": F(), "clamp_max": F()},
        "decay": {"half_life_turns": I(1), "floor": F(0, None)},
        "merge": {"enabled": B, "min_size": I(2), "min_avg_w": F(0, 1), "max_diameter": I(1), "cap_per_turn": I(0)},
        "split": {"enabled": B, "weak_edge_thresh": F(0, 1), "min_component_size": I(2), "cap_per_turn": I(0)},
        "promotion": {"enabled": B, "label_mode": E("lexmin", "concat_k"), "topk_label_ids": I(1),
                      "attach_weight": F(-1, 1), "cap_per_turn": I(0)},
    },
    "scheduler": {
        "enabled": B,
        "policy": E("round_robin", "fair_queue"),
        "quantum_ms": I(1),
        "budgets": {"t1_pops": IN(0), "t1_iters": IN(0), "t2_k": IN(0), "t3_ops": IN(0), "time_ms_reflection": IN(1),
                    "ops_reflection": IN(0), "wall_ms": IN(1)},
        "fairness": {"max_consecutive_turns": I(1), "aging_ms": I(0)},
    },
    "perf": {
        "enabled": B,
        "t1": {"queue_cap": I(1), "dedupe_window": I(1), "cache": {"max_entries": I(0), "max_bytes": I(0)},
               "caps": {"frontier": I(1), "visited": I(1)}},
        "t2": {"embed_dtype": E("fp32", "fp16"), "embed_store_dtype": E("fp32", "fp16"), "precompute_norms": B,
               "cache": {"max_entries": I(0), "max_bytes": I(0)},
               "reader": {"partitions": {"enabled": B, "layout": E("owner_quarter", "none"), "path": S,
                                         "by": SL("owner", "quarter")}}},
        "snapshots": {"compression": E("none", "zstd"), "level": I(1, 19), "delta_mode": B, "every_n_turns": I(1)},
        "metrics": {"report_memory": B},
        "parallel": {"enabled": B, "max_workers": I(0), "t1": B, "t2": B, "agents": B},
    },
}

# cross-field rules on the normalised output: (name, [paths], predicate over values (all present); NaN-aware: `not (a<b)`)
CROSS = [
    ("t4.weight_min < t4.weight_max", [("t4", "weight_min"), ("t4", "weight_max")], lambda a, b: a < b),
    ("graph.update.clamp_min < clamp_max", [("graph", "update", "clamp_min"), ("graph", "update", "clamp_max")], lambda a, b: a < b),
    ("graph.update.clamp_min <= 0 <= clamp_max", [("graph", "update", "clamp_min"), ("graph", "update", "clamp_max")],
     lambda a, b: a <= 0.0 <= b),
    ("graph.decay.floor <= graph.update.clamp_max", [("graph", "decay", "floor"), ("graph", "update", "clamp_max")], lambda a, b: a <= b),
    ("graph.split.weak_edge_thresh <= graph.merge.min_avg_w", [("graph", "split", "weak_edge_thresh"), ("graph", "merge", "min_avg_w")],
     lambda a, b: a <= b),
    ("t3.policy.tau_high >= tau_low", [("t3", "policy", "tau_high"), ("t3", "policy", "tau_low")], lambda a, b: a >= b),
    ("scheduler.budgets.wall_ms >= quantum_ms", [("scheduler", "budgets", "wall_ms"), ("scheduler", "quantum_ms")],
     lambda a, b: a is None or a >= b),
    ("t3.llm.fixtures.enabled => path", [("t3", "llm", "fixtures", "enabled"), ("t3", "llm", "fixtures", "path")],
     lambda en, p: (not en) or (isinstance(p, str) and bool(p.strip()))),
    ("reflection llm => fixtures enabled", [("t3", "allow_reflection"), ("t3", "reflection", "backend"), ("t3", "llm", "fixtures", "enabled")],
     lambda ar, rb, fe: not (ar and rb == "llm") or bool(fe)),
]


def _walk(tree, prefix=()):
    for k, v in tree.items():
        if isinstance(v, dict):
            yield prefix + (k,), None
            yield from _walk(v, prefix + (k,))
        else:
            yield prefix + (k,), v


LEAVES = {p: s for p, s in _walk(TREE) if s is not None}
LEAF_PATHS = sorted(LEAVES)
SECTION_PATHS = [()] + sorted(p for p, s in _walk(TREE) if s is None)


def _subtree(path):
    t = TREE
    for k in path:
        t = t[k]
    return t


def get_path(d, path, default=None):
    for k in path:
        if not isinstance(d, dict) or k not in d:
            return default
        d = d[k]
    return d


_MISSING = object()


# =====================================================================================================
# Encoding of inputs (plain JSON <-> python objects with NaN, big ints, tuples, non-string keys)
# =====================================================================================================

def enc(x):
    if x is None or isinstance(x, (bool, str)):
        return x
    if isinstance(x, int):
        return x if abs(x) < 2 ** 63 else {"__int__": str(x)}
    if isinstance(x, float):
        if x != x or x in (INF, -INF):
            return {"__float__": repr(x)}
        return x
    if isinstance(x, list):
        return [enc(v) for v in x]
    if isinstance(x, tuple):
        return {"__tuple__": [enc(v) for v in x]}
    if isinstance(x, dict):
        if all(isinstance(k, str) and not k.startswith("__") for k in x):
            return {k: enc(v) for k, v in x.items()}
        return {"__map__": [[enc(k), enc(v)] for k, v in x.items()]}
    # YAML-native scalars (what yaml.safe_load returns for a timestamp, !!binary, !!set)
    if isinstance(x, datetime.datetime):
        return {"__datetime__": x.isoformat()}
    if isinstance(x, datetime.date):
        return {"__date__": x.isoformat()}
    if isinstance(x, bytes):
        return {"__bytes__": x.hex()}
    if isinstance(x, (set, frozenset)):
        return {"__set__": [enc(v) for v in sorted(x, key=repr)]}
    raise TypeError(f"c14.enc: unsupported {type(x).__name__}")


def dec(x):
    if isinstance(x, list):
        return [dec(v) for v in x]
    if isinstance(x, dict):
        if set(x) == {"__int__"}:
            return int(x["__int__"])
        if set(x) == {"__float__"}:
            return float(x["__float__"])
        if set(x) == {"__tuple__"}:
            return tuple(dec(v) for v in x["__tuple__"])
        if set(x) == {"__map__"}:
            return {dec(k): dec(v) for k, v in x["__map__"]}
        if set(x) == {"__datetime__"}:
            return datetime.datetime.fromisoformat(x["__datetime__"])
        if set(x) == {"__date__"}:
            return datetime.date.fromisoformat(x["__date__"])
        if set(x) == {"__bytes__"}:
            return bytes.fromhex(x["__bytes__"])
        if set(x) == {"__set__"}:
            return set(dec(v) for v in x["__set__"])
        return {k: dec(v) for k, v in x.items()}
    return x


def canon(x):
    """Order-insensitive, NaN-safe, type-strict canonical form (for comparing normalised dicts / results)."""
    if isinstance(x, dict):
        return ("d", sorted(((type(k).__name__, repr(k)), canon(v)) for k, v in x.items()))
    if isinstance(x, (list, tuple)):
        return ("l" if isinstance(x, list) else "t", [canon(v) for v in x])
    if isinstance(x, (set, frozenset)):
        return ("s", sorted(repr(canon(v)) for v in x))
    if isinstance(x, float):
        return ("f", repr(x))
    return (type(x).__name__, repr(x))


def snapshot(x):
    """Deep, order-sensitive, NaN-safe snapshot including the identity of every container."""
    if isinstance(x, dict):
        return ("d", id(x), [((type(k).__name__, repr(k)), snapshot(v)) for k, v in x.items()])
    if isinstance(x, (list, tuple)):
        return ("l" if isinstance(x, list) else "t", id(x), [snapshot(v) for v in x])
    if isinstance(x, (set, frozenset)):
        return ("s", id(x), sorted(repr(canon(v)) for v in x))
    if isinstance(x, float):
        return ("f", repr(x))
    return (type(x).__name__, repr(x))


def has_nonstring_key(x) -> bool:
    if isinstance(x, dict):
        return any(not isinstance(k, str) for k in x) or any(has_nonstring_key(v) for v in x.values())
    if isinstance(x, (list, tuple)):
        return any(has_nonstring_key(v) for v in x)
    return False


# =====================================================================================================
# Value pools
# =====================================================================================================

WRONG = [None, "abc", "12", "", " ", [], [1, 2], ["a"], {}, {"a": 1}, True, False]
SPECIAL = [NAN, INF, -INF, BIG, -BIG, -1, 0, -0.0, 1e308, 5e-324, -1e-9, "nan", "inf", "-inf", "1e999", "NaN", 2 ** 63,
           -2 ** 63 - 1, 1.5, -2.5]


# YAML-native scalars: a timestamp, !!binary and !!set load as date / datetime / bytes / set (JSON has no such values)
# (a set of >= 2 members: str(set) follows PYTHONHASHSEED, the validator must not echo / stringify it that way)
NATIVE = [datetime.date(2024, 1, 1), datetime.datetime(2024, 1, 1, 12, 30, 0), b"hello", b"", {"a", "b"}, {"a"}, set()]
NATIVE_KEYS = [datetime.date(2024, 1, 1), datetime.datetime(2001, 12, 14, 21, 59, 43), b"hello"]


def _valid_values(spec, big=False):
    """In-range values of a leaf spec (typical first, then boundaries, then large magnitudes if `big`)."""
    kind = spec[0]
    if kind == "int":
        lo, hi = spec[1], spec[2]
        base = lo if lo is not None else 0
        out = [base + 3, base + 1, base, 64, 7]
        if hi is not None:
            out = [v for v in out if v <= hi] + [hi, hi - 1]
        elif big:
            out += [10 ** 6, 2 ** 31, 2 ** 63]
        return [v for v in out if (lo is None or v >= lo) and (hi is None or v <= hi)]
    if kind == "int?":
        lo = spec[1]
        return [None, lo + 2, lo, lo + 50, 1000] + ([10 ** 6, 2 ** 31] if big else [])
    if kind == "float":
        lo, hi, lo_open, hi_open = spec[1:]
        if lo is not None and hi is not None:
            mid = (lo + hi) / 2.0
            out = [mid, lo + (hi - lo) * 0.25, lo + (hi - lo) * 0.9]
            out += [hi] if not hi_open else [math.nextafter(hi, lo)]
            out += [lo] if not lo_open else [math.nextafter(lo, hi), lo + 1e-9]
            return out
        if lo is not None:
            out = [lo + 1.5, lo + 0.3, lo + 10.0]
            out += [lo] if not lo_open else [math.nextafter(lo, INF), lo + 1e-9]
            return out + ([1e6, 1e308, INF] if big else [])
        return [0.5, 1.2, 0.75, 0.0, 2.0, -0.5]
    if kind == "enum":
        return list(spec[1])
    if kind == "bool":
        return [True, False]
    if kind in ("str", "str_raw"):
        return ["x", "./p/q", "logs/quality", "Ünï"]
    if kind == "str?":
        return [None, "fixtures/llm.jsonl"]
    if kind == "strlist":
        al = list(spec[1])
        if al:
            return [[al[0]], list(al), list(reversed(al))] + ([[]] if al == ["t2:semantic"] else [])
        return [["owner", "quarter"], ["owner"], []]
    if kind == "cooldowns":
        return [{}, {"EditGraph": 2, "CreateGraph": 10}, {"Speak": 0}, {"EditGraph": 1}]
    if kind == "free":
        return [copy.deepcopy(v) for v in spec[1]]
    if kind == "alias":
        return [0, 30, 600]
    raise AssertionError(spec)


def _outside_values(spec):
    kind = spec[0]
    if kind == "int":
        lo, hi = spec[1], spec[2]
        out = []
        if lo is not None:
            out += [lo - 1, lo - 100]
        if hi is not None:
            out += [hi + 1, hi + 1000]
        return out or [-1]
    if kind == "int?":
        return [spec[1] - 1, -5]
    if kind == "float":
        lo, hi, lo_open, hi_open = spec[1:]
        out = []
        if lo is not None:
            out += [lo - 0.5, math.nextafter(lo, -INF)] + ([lo] if lo_open else [])
        if hi is not None:
            out += [hi + 0.5, math.nextafter(hi, INF)] + ([hi] if hi_open else [])
        return out or [NAN]
    if kind == "enum":
        vals = spec[1]
        if isinstance(vals[0], str):
            return ["bogus", vals[0].upper(), vals[0] + " ", ""]
        return [max(vals) + 1, min(vals) - 1, 3]
    if kind == "bool":
        return ["yes", "off", 1, 0, "maybe"]
    if kind in ("str", "str?", "str_raw"):
        return ["", "   ", 5]
    if kind == "strlist":
        return [["bogus"], [1], "owner", [""], []]
    if kind == "cooldowns":
        return [{"EditGraph": -1}, {1: 2}, {"x": "y"}, {None: 1}]
    return [None]


def leaf_values(spec):
    """Strategy over (class, value) for the totality generator."""
    valid = _valid_values(spec)
    outside = _outside_values(spec)
    return st.one_of(
        st.tuples(st.just("valid"), st.sampled_from(valid)),
        st.tuples(st.just("valid"), st.sampled_from(valid)),
        st.tuples(st.just("valid"), st.sampled_from(valid)),
        st.tuples(st.just("valid"), st.sampled_from(valid)),
        st.tuples(st.just("outside"), st.sampled_from(outside)),
        st.tuples(st.just("outside"), st.sampled_from(outside)),
        st.tuples(st.just("wrongtype"), st.sampled_from(WRONG)),
        st.tuples(st.just("wrongtype"), st.sampled_from(WRONG)),
        st.tuples(st.just("special"), st.sampled_from(SPECIAL)),
        st.tuples(st.just("special"), st.sampled_from(SPECIAL)),
        st.tuples(st.just("native"), st.sampled_from(NATIVE)),
    ).map(lambda cv: (cv[0], copy.deepcopy(cv[1])))


RANDOM_KEYS = ["zzz", "x", "", " ", "T1", "t 1", "ключ", "a.b", "{x}", "did you mean", "a\nb", "enabled ", "__x",
               # every character str.splitlines() treats as a line boundary (messages are joined and split on "\n" ONLY)
               "a\rb", "a\r\nb", "a\x0bb", "a\x0cb", "a\x1cb", "a\x1db", "a\x1eb", "a\x85b", "a\u2028b", "a\u2029b"]
NONSTR_KEYS = [0, 1, 7, -3, None, True, False, (1, 2), ("a",), (), 1.5, NAN, BIG]
TOP_TYPOS = ["t5", "t0", "grap", "perfs", "schedular", "versoin", "flag", "t", "k_surfac"]
SECTION_REPLACEMENTS = [None, 5, "abc", [], [1, 2], [{"a": 1}], True, 0.0, NAN, {}, ""]


def _typo(draw, key: str) -> str:
    op = draw(st.sampled_from(["del", "sub", "ins", "swap", "dup", "case"]))
    if not key:
        return "x"
    i = draw(st.integers(0, len(key) - 1))
    ch = draw(st.sampled_from("abcxyz_019"))
    if op == "del":
        return key[:i] + key[i + 1:]
    if op == "sub":
        return key[:i] + ch + key[i + 1:]
    if op == "ins":
        return key[:i] + ch + key[i:]
    if op == "swap" and len(key) >= 2:
        j = min(i, len(key) - 2)
        return key[:j] + key[j + 1] + key[j] + key[j + 2:]
    if op == "case":
        return key.upper()
    return key + key[-1]


def _descend(cfg, path, create=True):
    """Walk `path` inside cfg creating dicts; returns the dict at path or None when a non-dict sits on the way."""
    d = cfg
    for k in path:
        if not isinstance(d, dict):
            return None
        if k not in d:
            if not create:
                return None
            d[k] = {}
        d = d[k]
    return d if isinstance(d, dict) else None


# ---------------------------------------------------------------- inputs that make the validator REPEAT a message
# The error list is a list, not a set: the same text may occur more than once (the same problem flagged by two checks, one
# entry per offending list element / mapping key, keys 7 and "7" rendering alike, echoed keys that contain "\n" and share
# a tail).  Every variant and the CLI must report such a list entry for entry: same multiplicity, same order.

class _HypChooser:
    def __init__(self, draw):
        self._draw = draw

    def choice(self, seq):
        return self._draw(st.sampled_from(list(seq)))


DUP_KINDS = ["fixtures", "namespaces", "partitions_by", "cooldowns_nonstr", "cooldowns_collide", "key_collide", "key_collide",
             "newline_tail"]
_COLLIDE_KEYS = [7, 0, None, True, False, 1.5, -3]  # k and str(k) are different keys that render identically in a message
_UNKNOWN_VALS = [1, {}, None, "v", [1]]


def _spread(ch, item, k, others):
    """`item` k times among `others`: adjacent / split / at both ends (adjacent-only de-duplication differs from global)."""
    how = ch.choice(["adjacent", "split", "ends"])
    others = list(others)
    if how == "adjacent" or not others:
        return others + [item] * k if ch.choice([True, False]) else [item] * k + others
    if how == "split":
        return [item] + others + [item] * (k - 1)
    return [item] * (k - 1) + others + [item]


def apply_dup(ch, cfg, labels):
    """One edit of `cfg` (in place) after which the validator's error list repeats an entry / a line.  `ch.choice(seq)`."""
    kind = ch.choice(DUP_KINDS)
    if kind == "fixtures":  # blank path flagged by the fixtures block AND by the reflection(llm) cross-check
        t3 = _descend(cfg, ("t3",))
        rf = _descend(cfg, ("t3", "reflection"))
        fx = _descend(cfg, ("t3", "llm", "fixtures"))
        if t3 is None or rf is None or fx is None:
            return
        t3["allow_reflection"] = ch.choice([True, "yes", 1, "on"])
        rf["backend"] = ch.choice(["llm", "LLM"])
        fx["enabled"] = ch.choice([True, "true", 1])
        p = ch.choice(["", "  ", None, _MISSING, 5, []])
        if p is _MISSING:
            fx.pop("path", None)
        else:
            fx["path"] = copy.deepcopy(p)
    elif kind == "namespaces":  # one entry per offending list element
        c = _descend(cfg, ("t4", "cache"))
        if c is None:
            return
        u = ch.choice(["zz", "T2:SEMANTIC", "t2:semantic ", "", "x y", "a\rb"])
        c["namespaces"] = _spread(ch, u, ch.choice([2, 2, 3]), ch.choice([[], ["t2:semantic"], ["other"], ["t2:semantic", "other"]]))
    elif kind == "partitions_by":
        d = _descend(cfg, ("perf", "t2", "reader", "partitions"))
        if d is None:
            return
        f = ch.choice(["month", "Owner", "zz", "owner ", "q r"])
        d["by"] = _spread(ch, f, ch.choice([2, 2, 3]), ch.choice([[], ["owner"], ["quarter", "other"], ["owner", "quarter"]]))
    elif kind == "cooldowns_nonstr":  # one "keys must be strings" entry per non-string key
        t4 = _descend(cfg, ("t4",))
        if t4 is None:
            return
        pool = [2, 7, None, 1.5, -3, True]
        n = ch.choice([2, 2, 3])
        keys = []
        for _ in range(n):  # distinct keys (an exhausted byte reader keeps answering 0: no retry loop)
            rest = [k for k in pool if not any(k is q for q in keys)]
            keys.append(ch.choice(rest))
        cd = {"EditGraph": 1} if ch.choice([True, False]) else {}
        for k in keys:
            cd[k] = ch.choice([0, 3, -1])
        t4["cooldowns"] = cd
    elif kind == "cooldowns_collide":  # t4.cooldowns[1] for the keys 1 and "1"
        t4 = _descend(cfg, ("t4",))
        if t4 is None:
            return
        k = ch.choice([1, None, True, 2.5])
        pair = [(k, -1), (str(k), -2)]
        if ch.choice([True, False]):
            pair.reverse()
        t4["cooldowns"] = dict(pair)
    elif kind == "key_collide":  # unknown keys 7 and "7" of one section: "<sec>.7 unknown key" twice
        sec = ch.choice(SECTION_PATHS)
        d = _descend(cfg, sec)
        if d is None:
            return
        k = ch.choice(_COLLIDE_KEYS)
        first, second = (k, str(k)) if ch.choice([True, False]) else (str(k), k)
        d[first] = copy.deepcopy(ch.choice(_UNKNOWN_VALS))
        if ch.choice([True, False]):
            d["zzz"] = 1  # another message in between
        d[second] = copy.deepcopy(ch.choice(_UNKNOWN_VALS))
    else:  # newline_tail: echoed keys "p\nTAIL" and "q\nTAIL" -> the LINE "TAIL unknown key" twice
        tail = ch.choice(["b", "zz", "t1.iter_cap must be >= 0", ""])
        secs = [p for p in SECTION_PATHS if p]
        for head in ("p", "q"):
            d = _descend(cfg, ch.choice(secs))
            if d is not None:
                d[head + "\n" + tail] = copy.deepcopy(ch.choice(_UNKNOWN_VALS))
    labels.update(["dup_built", "dup_" + kind, "unknown_key" if kind in ("key_collide", "newline_tail") else "invalid_leaf"])


@st.composite
def cfg_inputs(draw):
    """(cfg, meta) — meta = labels describing what was built."""
    labels = set()
    cfg = {}
    n = draw(st.integers(0, 8))
    # leaves cluster in one or two sections so that sections get several keys
    focus = draw(st.lists(st.sampled_from([p for p in SECTION_PATHS if p]), min_size=1, max_size=3))
    for _ in range(n):
        if draw(st.booleans()):
            sec = draw(st.sampled_from(focus))
            cands = [p for p in LEAF_PATHS if p[:len(sec)] == sec]
            path = draw(st.sampled_from(cands))
        else:
            path = draw(st.sampled_from(LEAF_PATHS))
        cls, val = draw(leaf_values(LEAVES[path]))
        if path in _FREE_NEAR and draw(st.sampled_from([True, False, False])):
            # almost-documented spellings of a pass-through leaf (numbers as text / ints / bools): accepted or not, the input
            # must come back untouched and every variant must agree
            cls, val = "near", copy.deepcopy(draw(st.sampled_from(_FREE_NEAR[path])))
        elif path in _PATH_OUTSIDE and draw(st.sampled_from([True, False, False])):
            cls, val = "outside", copy.deepcopy(draw(st.sampled_from(_PATH_OUTSIDE[path])))
        d = _descend(cfg, path[:-1])
        if d is None:
            continue
        d[path[-1]] = val
        labels.add("leaf_" + cls)
        if cls not in ("valid", "near"):
            labels.add("invalid_leaf")
        if isinstance(val, float) and val != val:
            labels.add("nan_leaf")
        if isinstance(val, int) and not isinstance(val, bool) and abs(val) >= BIG:
            labels.add("bigint_leaf")
    m = draw(st.sampled_from([0, 0, 1, 1, 1, 2, 3]))
    for _ in range(m):
        op = draw(st.sampled_from(["typo", "typo", "randkey", "nonstr", "nonstr", "section_repl", "free_nonstr"]))
        sec = draw(st.sampled_from(SECTION_PATHS if draw(st.booleans()) else ([()] + [p for p in focus])))
        if op == "section_repl":
            if not sec:
                continue
            d = _descend(cfg, sec[:-1])
            if d is None:
                continue
            d[sec[-1]] = copy.deepcopy(draw(st.sampled_from(SECTION_REPLACEMENTS)))
            labels.update(["section_replaced", "mangled"])
            continue
        d = _descend(cfg, sec)
        if d is None:
            continue
        val = copy.deepcopy(draw(st.sampled_from([1, {}, None, "v", [1], {"x": 1}, NAN, True])))
        if op == "typo":
            sibs = sorted(_subtree(sec).keys()) if sec else sorted(TREE.keys())
            key = draw(st.sampled_from(TOP_TYPOS)) if (not sec and draw(st.booleans())) else _typo(draw, draw(st.sampled_from(sibs)))
            if key in sibs:
                continue
            d[key] = val
            labels.update(["unknown_key", "typo_key"])
        elif op == "randkey":
            d[draw(st.sampled_from(RANDOM_KEYS))] = val
            labels.update(["unknown_key", "random_key"])
        elif op == "nonstr":
            k = draw(st.sampled_from(NONSTR_KEYS + NATIVE_KEYS))
            d[k] = val
            labels.update(["unknown_key", "nonstring_key", "nonstring_key_" + type(k).__name__])
        else:  # non-string key inside a pass-through (free) mapping: documented as accepted unvalidated
            free = [p for p, s in LEAVES.items() if s[0] == "free" and any(isinstance(e, dict) for e in s[1])]
            p = draw(st.sampled_from(sorted(free)))
            dd = _descend(cfg, p[:-1])
            if dd is None:
                continue
            k = draw(st.sampled_from([1, None, True, 2.5] + NATIVE_KEYS))
            dd[p[-1]] = {k: 1, "a": 2}
            labels.update(["free_nonstring_key"] + (["free_native_key"] if k in NATIVE_KEYS else []))
    # 1 case in 5: the SAME misspelt key under 2-3 sections with different allowed-key sets (a hint computed for one
    # section must not be replayed for another)
    if draw(st.sampled_from([True, False, False, False, False])):
        s1 = draw(st.sampled_from(SECTION_PATHS))
        key = _typo(draw, draw(st.sampled_from(sorted(_allowed(s1)))))
        for sec in [s1] + draw(st.lists(st.sampled_from(SECTION_PATHS), min_size=1, max_size=2)):
            d = _descend(cfg, sec)
            if d is not None and key not in _allowed(sec):
                d[key] = 1
                labels.update(["unknown_key", "typo_key", "shared_typo"])
    # 1 case in 4: one or two edits that make the validator repeat a message (different kinds interleave)
    for _ in range(draw(st.sampled_from([0, 0, 0, 0, 0, 0, 1, 2]))):
        apply_dup(_HypChooser(draw), cfg, labels)
    top = draw(st.sampled_from(["dict"] * 30 + ["nondict"]))
    if top == "nondict":
        cfg = copy.deepcopy(draw(st.sampled_from([None, [], [1], "abc", 5, 0, NAN, True, [{"t1": {}}], ""])))
        labels.update(["top_nondict", "mangled"])
    return cfg, sorted(labels)


def is_nontrivial(labels) -> bool:
    return any(lb in labels for lb in ("invalid_leaf", "unknown_key", "mangled"))


# =====================================================================================================
# Oracles on the validator (in-process)
# =====================================================================================================

KNOWN_NONSTR = "validator-nonstring-key-typeerror"
KNOWN_NAN = "validator-nan-passes-one-sided-range"
KNOWN_HINT = "validator-messages-depend-on-hashseed"
KNOWN_CLI_PATH = "cli-validate-drops-path"
KNOWN_CLI_JSON = "cli-validate-json-sniffs-error-output"

KNOWN_NONMAPPING = "validator-nonmapping-perf-quality-leaks"
KNOWN_PASSTHROUGH = "validator-passthrough-leaves-unvalidated"
KNOWN_PAR_T2 = "runnable-parallel-t2-fanout-typeerror"
KNOWN_RECENT = "t2-exact-recent-days-overflow"


def nonmapping_leak(norm) -> bool:
    """The normalised config still carries a truthy non-mapping where the perf / t2.quality section belongs."""
    if not isinstance(norm, dict):
        return False
    perf, q = norm.get("perf"), get_path(norm, ("t2", "quality"))
    return bool((perf and not isinstance(perf, dict)) or (q and not isinstance(q, dict)))


_HINT_RE = re.compile(r" \(did you mean '[^'\n]*'\)")
_POLICY_SET_RE = re.compile(r"scheduler\.policy must be one of \{[^}\n]*\}")


def strip_hints(msg: str) -> str:
    """Message with the two set-order dependent fragments masked (the narrow exclusion of KNOWN_HINT):
    the did-you-mean suggestion and the repr of the scheduler policy set."""
    return _POLICY_SET_RE.sub("scheduler.policy must be one of {?}", _HINT_RE.sub(" (did you mean ?)", msg))


def _is_known(rec, fid) -> bool:
    return rec is not None and rec.is_known(fid)


def _innermost(e: BaseException):
    tb = traceback.extract_tb(e.__traceback__)
    return tb[-1] if tb else None


def _lev_typeerror(e: BaseException, cfg) -> bool:
    """The specific failure mode of KNOWN_NONSTR: TypeError raised inside the edit-distance helper for a non-str key."""
    fr = _innermost(e)
    return isinstance(e, TypeError) and fr is not None and fr.name == "_lev" and has_nonstring_key(cfg)


def _apis():
    from configs.validate import validate_config, validate_config_api, validate_config_verbose
    from clematis.errors import ConfigError
    return validate_config, validate_config_api, validate_config_verbose, ConfigError


def _lines(msg: str):
    return str(msg).strip().split("\n")


def holds(spec, v) -> bool:
    """Documented range/enumeration of `spec` holds for the normalised value v (NaN satisfies no range)."""
    kind = spec[0]
    if kind == "int":
        if not isinstance(v, int) or isinstance(v, bool):
            return False
        return (spec[1] is None or v >= spec[1]) and (spec[2] is None or v <= spec[2])
    if kind == "int?":
        return v is None or (isinstance(v, int) and not isinstance(v, bool) and v >= spec[1])
    if kind == "float":
        if not isinstance(v, (int, float)) or isinstance(v, bool):
            return False
        lo, hi, lo_open, hi_open = spec[1:]
        if lo is None and hi is None:
            return True  # no documented range: only numeric type
        if v != v:
            return False
        if lo is not None and not (v > lo if lo_open else v >= lo):
            return False
        if hi is not None and not (v < hi if hi_open else v <= hi):
            return False
        return True
    if kind == "enum":
        return any(type(v) is type(a) and v == a for a in spec[1])
    if kind == "bool":
        return isinstance(v, bool)
    if kind == "str":
        return isinstance(v, str) and bool(v.strip())
    if kind == "str_raw":
        return isinstance(v, str) and bool(v)
    if kind == "str?":
        return v is None or (isinstance(v, str) and bool(v.strip()))
    if kind == "strlist":
        return isinstance(v, list) and all(isinstance(x, str) for x in v) and (not spec[1] or all(x in spec[1] for x in v))
    if kind == "cooldowns":
        return isinstance(v, dict) and all(isinstance(k, str) and isinstance(x, int) and not isinstance(x, bool) and x >= 0
                                           for k, x in v.items())
    if kind == "decay":  # object with string keys; mode from the enumeration; rate, floor numbers in [0, 1]; alpha a number >= 0
        return (isinstance(v, dict) and all(isinstance(k, str) for k in v) and ("mode" not in v or v["mode"] in ("exp_floor", "attn_quad"))
                and all(_is_num(v[k]) and 0.0 <= float(v[k]) <= hi for k, hi in (("rate", 1.0), ("floor", 1.0), ("alpha", INF)) if k in v))
    if kind == "numdict":  # relation name -> number
        return isinstance(v, dict) and all(isinstance(k, str) and _is_num(x) for k, x in v.items())
    return True  # free / alias


# Leaves the stages read directly; the validator documents their domain in its own messages ("t1.radius_cap must be an
# integer >= 0", "t2.tiers must be a list of strings", "t1.decay.rate must be a number" ...).  The generator keeps treating
# them as free-form (so junk keeps being thrown at them); an ACCEPTED config must satisfy the documented domain.
PASSTHROUGH_RANGES = {
    ("t1", "radius_cap"): I(0), ("k_surface",): I(1), ("t2", "exact_recent_days"): I(0), ("t2", "clusters_top_m"): I(0),
    ("t2", "residual_cap_per_turn"): I(0), ("t2", "tiers"): SL(), ("t1", "decay"): ("decay",), ("t1", "edge_type_mult"): ("numdict",),
}


def _is_num(v) -> bool:
    """A number in the validator's documented sense: int/float or numeric text, not a bool, not NaN."""
    if isinstance(v, bool) or not isinstance(v, (int, float, str)):
        return False
    try:
        f = float(v)
    except (ValueError, OverflowError):
        return False
    return f == f


def check_ranges(norm, case, rec):
    if get_path(norm, ("version",)) != "v1":
        raise Violation(f"accepted config has version {get_path(norm, ('version',))!r}", case, "range:version")
    for path, spec in LEAVES.items():
        spec = PASSTHROUGH_RANGES.get(path, spec)
        v = get_path(norm, path, _MISSING)
        if v is _MISSING:
            continue
        if holds(spec, v):
            continue
        if isinstance(v, float) and v != v and spec[0] == "float":
            if _is_known(rec, KNOWN_NAN):
                continue
            raise Violation(f"accepted config carries NaN at {'.'.join(path)} (documented range {_fmt(spec)}; NaN satisfies no range)",
                            case, "nan-accepted")
        raise Violation(f"accepted config violates documented range at {'.'.join(path)}: {v!r} not in {_fmt(spec)}",
                        case, "range:" + ".".join(path))
    for name, paths, pred in CROSS:
        vals = [get_path(norm, p, _MISSING) for p in paths]
        if any(v is _MISSING for v in vals):
            continue
        try:
            ok = bool(pred(*vals))
        except TypeError:
            ok = False
        if not ok:
            if any(isinstance(v, float) and v != v for v in vals) and _is_known(rec, KNOWN_NAN):
                continue
            raise Violation(f"accepted config violates cross-field rule {name}: {vals!r}", case, "cross:" + name)


def _fmt(spec):
    if spec[0] == "float":
        lo, hi, lo_open, hi_open = spec[1:]
        return f"{'(' if lo_open else '['}{lo if lo is not None else '-inf'}, {hi if hi is not None else 'inf'}{')' if hi_open else ']'}"
    if spec[0] in ("int", "int?"):
        return f"int>={spec[1]}" + (f",<={spec[2]}" if len(spec) > 2 and spec[2] is not None else "") + (" or null" if spec[0] == "int?" else "")
    return repr(spec)


def _call(fn, cfg, case, what, rec, snap0, ConfigError, **kw):
    """Call one API variant. Returns ("ok", value) / ("err", message) / ("known", None)."""
    try:
        out = fn(cfg, **kw)
        res = ("ok", out)
    except ConfigError as e:
        res = ("err", str(e))
    except Exception as e:  # property: never another exception
        if _lev_typeerror(e, cfg):
            if _is_known(rec, KNOWN_NONSTR):
                return ("known", None)
            raise Violation(f"{what} raised TypeError (not ConfigError) for a non-string key: {e}", case, "nonstring-key-typeerror")
        fr = _innermost(e)
        raise Violation(f"{what} raised {type(e).__name__}: {e} (at {fr.name if fr else '?'})", case,
                        f"raises:{type(e).__name__}@{fr.name if fr else '?'}")
    if snapshot(cfg) != snap0:
        raise Violation(f"{what} mutated its input", case, "mutates-input")
    return res


COMPAT_KWARGS = [{"strict": False}, {"verbose": True}, {"strict": False, "verbose": False}]

# ---------------------------------------------------------------- history independence (purity across calls)
# The verdict and the messages of a config must not depend on what the process validated before.  A sibling config carries
# the SAME unknown keys under OTHER sections (other allowed-key sets, so another did-you-mean answer): validating it first
# must change nothing, in this process (A, sibling, A) and against a fresh interpreter (warm view vs CLI / cold child).
_SIB_TARGETS = [(), ("t1",), ("t1", "cache"), ("t4",), ("t4", "cache"), ("graph", "update"), ("t2", "hybrid"), ("t3", "llm"),
                ("perf", "parallel"), ("t2", "quality", "mmr"), ("graph",), ("t3",)]


def _allowed(sec):
    return set(TREE.keys()) if not sec else set(_subtree(sec).keys())


def unknown_keys(cfg):
    """[(section path, key)] for keys of `cfg` the frozen tree does not list (in the validator's look-up order)."""
    out = []
    for sec in SECTION_PATHS:
        d = get_path(cfg, sec, None) if sec else cfg
        if isinstance(d, dict):
            out.extend((sec, k) for k in d if not (isinstance(k, str) and k in _allowed(sec)))
    return out


def sibling_configs(cfg, limit=4):
    out = []
    if not isinstance(cfg, dict):
        return out
    for sec, k in unknown_keys(cfg)[:limit]:
        text = str(k)
        start = (len(text) + sum(map(ord, text))) % len(_SIB_TARGETS)
        for j in range(len(_SIB_TARGETS)):
            tgt = _SIB_TARGETS[(start + j) % len(_SIB_TARGETS)]
            if tgt != sec and _allowed(tgt) != _allowed(sec) and not (isinstance(k, str) and k in _allowed(tgt)):
                out.append(_nest(tgt, {k: 1}) if tgt else {k: 1})
                break
    return out


def warm_with_siblings(cfg):
    """Validate the siblings of `cfg` (results ignored; the validator's own failures are the other oracles' business)."""
    _, validate_config_api, _, _ = _apis()
    n = 0
    for sib in sibling_configs(cfg):
        try:
            validate_config_api(sib)
        except Exception:
            pass
        n += 1
    return n


_HINT_ENTRY_RE = re.compile(r"^(.*) unknown (top-level key|key) \(did you mean '([^'\n]*)'\)$", re.S)


def check_hint_content(entries, case):
    """A did-you-mean hint must name a key that is allowed in the section the message is about."""
    for e in entries:
        m = _HINT_ENTRY_RE.match(e)
        if not m:
            continue
        path, kind, hint = m.group(1), m.group(2), m.group(3)
        if kind == "top-level key":
            ok = hint in TREE
        else:
            secs = [sec for sec in SECTION_PATHS if sec and path.startswith(".".join(sec) + ".")]
            if not secs:  # a fragment of an echoed key that contains a line break: nothing to decide
                continue
            ok = any(hint in _allowed(sec) for sec in secs)
        if not ok:
            raise Violation(f"message suggests a key that is not allowed in that section: {e!r}", case, "hint-not-allowed-here")


def validator_view(cfg, case, rec):
    """Run every in-process API variant on the SAME object; check totality, purity and mutual agreement.
    Returns None (known failure mode hit) or {"ok": bool, "lines": [...], "norm": dict|None, "warnings": [...]}"""
    validate_config, validate_config_api, validate_config_verbose, ConfigError = _apis()
    import configs.validate as V

    snap0 = snapshot(cfg)
    defaults0 = canon(V.DEFAULTS)
    r_plain = _call(validate_config, cfg, case, "validate_config", rec, snap0, ConfigError)
    r_api = _call(validate_config_api, cfg, case, "validate_config_api", rec, snap0, ConfigError)
    r_verb = _call(validate_config_verbose, cfg, case, "validate_config_verbose", rec, snap0, ConfigError)
    r_compat = _call(validate_config, cfg, case, "validate_config(strict=True)", rec, snap0, ConfigError, strict=True)
    # the compat form is selected by the presence of ANY keyword (strict / verbose, whatever their value)
    r_compat_more = [(kw, _call(validate_config, cfg, case, f"validate_config({', '.join(f'{k}={v}' for k, v in kw.items())})", rec, snap0,
                                ConfigError, **kw)) for kw in COMPAT_KWARGS]
    r_again = _call(validate_config_api, cfg, case, "validate_config_api (2nd call)", rec, snap0, ConfigError)
    if canon(V.DEFAULTS) != defaults0:
        raise Violation("validation modified the module-level DEFAULTS table (not pure)", case, "mutates-defaults")
    rs = [r_plain, r_api, r_verb, r_compat, r_again] + [r for _, r in r_compat_more]
    if any(r[0] == "known" for r in rs):
        if not all(r[0] == "known" for r in rs):
            raise Violation("API variants disagree: some raise TypeError for the non-string key, others do not", case, "variants-disagree")
        return None

    # shapes
    if r_api[0] != "ok" or not (isinstance(r_api[1], tuple) and len(r_api[1]) == 3):
        raise Violation(f"validate_config_api must return (ok, errs, cfg) and never raise; got {r_api!r:.200}", case, "api-shape")
    if r_compat[0] != "ok" or not (isinstance(r_compat[1], tuple) and len(r_compat[1]) == 2):
        raise Violation(f"compat form must return (errors, warnings); got {r_compat!r:.200}", case, "compat-shape")
    ok_api, errs_api, norm_api = r_api[1]
    errs_c, warns_c = r_compat[1]
    for kw, r in r_compat_more:
        if r[0] != "ok" or canon(r[1]) != canon(r_compat[1]):
            raise Violation(f"compat form validate_config(cfg, **{kw}) differs from validate_config(cfg, strict=True): "
                            f"{r!r:.300} vs {r_compat!r:.300}", case, "compat-kwargs-disagree")
    accepted = r_plain[0] == "ok"
    verdicts = {"validate_config": accepted, "validate_config_api": bool(ok_api), "validate_config_verbose": r_verb[0] == "ok",
                "compat": not errs_c}
    if len(set(verdicts.values())) != 1:
        raise Violation(f"API variants disagree on the verdict: {verdicts}", case, "verdict-disagree")
    if canon(r_again[1]) != canon(r_api[1]):
        raise Violation("two calls of validate_config_api on the same input differ", case, "nondeterministic")
    if accepted:
        norm = r_plain[1]
        if not isinstance(norm, dict):
            raise Violation(f"validate_config returned {type(norm).__name__}, not a dict", case, "return-type")
        if not (isinstance(r_verb[1], tuple) and len(r_verb[1]) == 2 and isinstance(r_verb[1][1], list)):
            raise Violation("validate_config_verbose must return (dict, list)", case, "verbose-shape")
        norm_v, warns_v = r_verb[1]
        if list(errs_api) != [] or list(errs_c) != []:
            raise Violation(f"accepted, but error lists are not empty: api={errs_api!r} compat={errs_c!r}", case, "errs-on-accept")
        if canon(norm) != canon(norm_api):
            raise Violation("normalised dict differs: validate_config vs validate_config_api", case, "norm-disagree")
        if canon(norm) != canon(norm_v):
            raise Violation("normalised dict differs: validate_config vs validate_config_verbose", case, "norm-disagree")
        if list(warns_v) != list(warns_c):
            raise Violation(f"warnings differ: verbose={warns_v!r} compat={warns_c!r}", case, "warnings-disagree")
        if not all(isinstance(w, str) for w in warns_v):
            raise Violation("warnings must be strings", case, "verbose-shape")
        return {"ok": True, "lines": [], "raw": "", "norm": norm, "warnings": list(warns_v)}
    lines = _lines(r_plain[1])
    if not str(r_plain[1]).strip():
        raise Violation("ConfigError raised with an empty message", case, "empty-message")
    if norm_api is not None:
        raise Violation("validate_config_api returned a config together with ok=False", case, "api-shape")
    others = {"validate_config_api": list(errs_api), "validate_config_verbose": _lines(r_verb[1]), "compat": list(errs_c)}
    for name, ls in others.items():
        if ls != lines:
            raise Violation(f"message lines differ: validate_config={lines!r} {name}={ls!r}", case, "messages-disagree")
    if list(warns_c) != []:
        raise Violation("compat form returned warnings together with errors", case, "compat-shape")
    check_hint_content(list(errs_api), case)
    return {"ok": False, "lines": lines, "raw": str(r_plain[1]), "norm": None, "warnings": []}


# ---------------------------------------------------------------- in-process CLI

def yaml_roundtrip(cfg):
    """Serialise with the loader's own format and re-load. Returns (text, loaded_arg) or None when not representable."""
    import yaml

    try:
        text = yaml.safe_dump(cfg, allow_unicode=True, sort_keys=False)
        loaded = yaml.safe_load(text)
    except yaml.YAMLError:
        return None
    except (ValueError, TypeError, OverflowError, RecursionError):
        return None
    return text, (loaded or {})


def json_roundtrip(cfg):
    """The same input as a JSON document (the loader takes YAML or JSON), re-loaded the way the CLI loads a file.
    None when JSON cannot carry it faithfully (non-string keys, tuples) or the loader refuses the text."""
    import yaml

    if has_nonstring_key(cfg):
        return None
    try:
        text = json.dumps(cfg, ensure_ascii=False)
        loaded = yaml.safe_load(text)
    except yaml.YAMLError:
        return None
    except (ValueError, TypeError, OverflowError, RecursionError):
        return None
    return text, (loaded or {})


_ROOT_SCRIPT = {}


def root_script_module():
    """<repo>/scripts/validate_config.py (the documented entry point CI calls; twin of the packaged shim), loaded by path.
    None when the tree does not ship it."""
    path = os.path.join(_repo(), "scripts", "validate_config.py")
    if path not in _ROOT_SCRIPT:
        mod = None
        if os.path.isfile(path):
            import importlib.util

            spec = importlib.util.spec_from_file_location("c14_root_validate_config", path)
            mod = importlib.util.module_from_spec(spec)
            spec.loader.exec_module(mod)
            if not callable(getattr(mod, "main", None)):
                mod = None
        _ROOT_SCRIPT[path] = mod
    return _ROOT_SCRIPT[path]


def _run_main(argv, mod=None, stdin_text=None):
    if mod is None:
        from clematis.scripts import validate as mod

    out, err = io.StringIO(), io.StringIO()
    old_stdin = sys.stdin
    if stdin_text is not None:
        sys.stdin = io.StringIO(stdin_text)
    try:
        with contextlib.redirect_stdout(out), contextlib.redirect_stderr(err):
            rc = mod.main(argv)
    finally:
        sys.stdin = old_stdin
    return rc, out.getvalue(), err.getvalue()


def has_dup_lines(view) -> bool:
    return bool(view) and not view["ok"] and len(set(view["lines"])) < len(view["lines"])


def expected_text(view) -> str:
    return "CONFIG INVALID\n" + view["raw"]


def compare_cli_text(rc, out, view, case, who, rec=None, hints_may_differ=False):
    """Oracle for the text form: exit code, first stdout line, message lines / warning lines."""
    if view["ok"]:
        ls = out.split("\n")
        if rc != 0 or not ls or ls[0] != "OK":
            raise Violation(f"{who}: in-process verdict is ACCEPT but exit={rc}, first stdout line={ls[:1]!r}", case, "cli-verdict")
        got_w = [ln for ln in ls[4:] if ln != ""]
        want_w = [x for w in sorted(view["warnings"]) for x in w.split("\n")]
        if got_w != want_w:
            raise Violation(f"{who}: warning lines differ: cli={got_w!r} api={want_w!r}", case, "cli-warnings")
        return
    if rc != 1 or not out.startswith("CONFIG INVALID"):
        raise Violation(f"{who}: in-process verdict is REJECT but exit={rc}, stdout starts {out[:60]!r}", case, "cli-verdict")
    want = expected_text(view).strip()
    got = out.strip()
    if got != want:  # entry for entry: same messages, same order, same multiplicity
        if hints_may_differ and strip_hints(got) == strip_hints(want):
            if _is_known(rec, KNOWN_HINT):
                return
            raise Violation(f"{who}: suggestion text differs between processes: cli={got!r} in-process={want!r}", case, "hint-differs")
        gl, wl = got.split("\n")[1:], want.split("\n")[1:]
        how = ("the same lines with another multiplicity" if set(gl) == set(wl) and sorted(gl) != sorted(wl)
               else "the same lines in another order" if sorted(gl) == sorted(wl) else "different lines")
        raise Violation(f"{who}: message lines differ ({how}: {len(gl)} printed, {len(wl)} returned by the API): cli={got!r} api={want!r}",
                        case, "cli-messages")


def expect_cli(rc, out, view, flags, case, who, rec=None, hints_may_differ=False):
    """Oracle for one CLI run of the text/--json/--strict forms against the in-process view of the same (re-loaded) input."""
    if view["ok"] and "--strict" in flags and view["warnings"]:
        if rc != 1 or not out.startswith("CONFIG WARNINGS"):
            raise Violation(f"{who}: warnings present, expected exit 1 + CONFIG WARNINGS, got exit={rc} {out[:40]!r}", case, "cli-strict")
        got_w = [ln for ln in out.split("\n")[1:] if ln != ""]
        want_w = [x for w in sorted(view["warnings"]) for x in w.split("\n")]
        if got_w != want_w:
            raise Violation(f"{who}: warning lines differ: cli={got_w!r} api={want_w!r}", case, "cli-warnings")
    elif view["ok"] and "--json" in flags:
        compare_cli_json(rc, out, view, case, who)
    else:
        compare_cli_text(rc, out, view, case, who, rec, hints_may_differ)


_JSON_ANY = "__c14_any__"


def _json_prepare(x, counter):
    """The normalised config with wildcards where JSON has no form: values -> {_JSON_ANY: 1}, keys -> _JSON_ANY<n>."""
    if isinstance(x, dict):
        out = {}
        for k, v in x.items():
            if not (k is None or isinstance(k, (str, int, float, bool))):
                counter[0] += 1
                k = f"{_JSON_ANY}{counter[0]}"
            out[k] = _json_prepare(v, counter)
        return out
    if isinstance(x, (list, tuple)):
        return [_json_prepare(v, counter) for v in x]
    if isinstance(x, (set, frozenset, bytes, datetime.date)):
        return {_JSON_ANY: 1}
    return x


def _json_match(got, want) -> bool:
    if isinstance(want, dict) and set(want) == {_JSON_ANY}:
        return True
    if isinstance(want, dict):
        if not isinstance(got, dict) or len(got) != len(want):
            return False
        plain = [k for k in want if not k.startswith(_JSON_ANY)]
        if any(k not in got or not _json_match(got[k], want[k]) for k in plain):
            return False
        rest = [k for k in got if k not in plain]  # keys the CLI chose for the wildcard keys: pair them up by value
        for wk in (k for k in want if k.startswith(_JSON_ANY)):
            hit = next((gk for gk in rest if _json_match(got[gk], want[wk])), None)
            if hit is None:
                return False
            rest.remove(hit)
        return True
    if isinstance(want, list):
        return isinstance(got, list) and len(got) == len(want) and all(_json_match(g, w) for g, w in zip(got, want))
    return canon(got) == canon(want)


def compare_cli_json(rc, out, view, case, who):
    try:
        doc = json.loads(out)
    except ValueError:
        raise Violation(f"{who}: accepted config but stdout is not JSON: {out[:120]!r} (exit={rc})", case, "cli-json")
    if rc != 0 or not isinstance(doc, dict) or "normalized" not in doc:
        raise Violation(f"{who}: accepted config but exit={rc} / no 'normalized' in output", case, "cli-json")
    # what JSON cannot carry (a date, bytes, a set in a pass-through leaf, as a value or as a key) may be rendered any way
    want = json.loads(json.dumps(_json_prepare(view["norm"], [0]), ensure_ascii=False))
    if not _json_match(doc["normalized"], want):
        raise Violation(f"{who}: normalised dict differs from validate_config's", case, "cli-norm")
    if list(doc.get("warnings") or []) != sorted(view["warnings"]):
        raise Violation(f"{who}: warnings differ: {doc.get('warnings')!r} vs {sorted(view['warnings'])!r}", case, "cli-warnings")


def check_cli_inprocess(cfg, case, rec, tmpdir):
    """in-process CLI main([...]) on the re-loaded file vs the API verdict on the re-loaded object."""
    rt = yaml_roundtrip(cfg)
    if rt is None:
        return "unrepresentable"
    text, arg = rt
    view = validator_view(arg, case, rec)
    if view is None:
        return "known"
    path = os.path.join(tmpdir, "cfg.yaml")
    with open(path, "w", encoding="utf-8") as f:
        f.write(text)
    # every flag form (also on rejected configs: the verdict and the messages do not depend on the output mode), the flag
    # after the path, the file read from STDIN ('-'); the packaged shim and the repository's scripts/validate_config.py
    # (each main() call re-parses the file with the pure-python YAML loader, ~1.5 ms: the list is kept short; the byte target
    # runs the three basic forms only)
    ok = view["ok"]
    light = bool(os.environ.get("C14_CLI_LIGHT"))
    runs = [("shim", None, [*flags, path], None, view) for flags in ([], ["--json"]) + ((["--strict"],) if ok else ())]
    if ok and not light:
        runs.append(("shim", None, [path, "--strict", "--json"], None, view))  # flags after the path; --strict wins over --json
    if not light:
        runs.append(("shim", None, ["-"] if ok else ["--strict", "-"], text, view))
    root = root_script_module()
    if root is not None:
        runs += [("script", root, [*flags, path], None, view)
                 for flags in (([],) if light else ([], ["--strict"]) + ((["--json"],) if ok else ()))]
    jt = None if light else json_roundtrip(cfg)
    if jt is not None:  # the same input as a JSON document
        jtext, jarg = jt
        jview = view if canon(jarg) == canon(arg) else validator_view(jarg, case, rec)
        if jview is not None:
            jpath = os.path.join(tmpdir, "cfg.json")
            with open(jpath, "w", encoding="utf-8") as f:
                f.write(jtext)
            runs.append(("shim", None, [jpath], None, jview))
    for name, mod, args, stdin_text, vw in runs:
        flags = [a for a in args if a.startswith("--")]
        what = f"{name} main({' '.join('FILE' if a in (path, os.path.join(tmpdir, 'cfg.json')) else a for a in args)})"
        try:
            rc, out, err = _run_main(["validate_config.py", *args], mod, stdin_text)
        except SystemExit as e:
            raise Violation(f"CLI {what} exited via SystemExit({e.code})", case, "cli-systemexit")
        except Exception as e:
            if _lev_typeerror(e, arg) and _is_known(rec, KNOWN_NONSTR):
                return "known"
            if isinstance(e, AttributeError) and vw["ok"] and nonmapping_leak(vw["norm"]) and _is_known(rec, KNOWN_NONMAPPING):
                return "known"
            fr = _innermost(e)
            raise Violation(f"CLI {what} raised {type(e).__name__}: {e}", case, f"cli-raises:{type(e).__name__}@{fr.name if fr else '?'}")
        expect_cli(rc, out, vw, flags, case, what, rec)
    return "ok"


def check_total(cfg, rec=None, tmpdir=None, labels=(), with_cli=True):
    case = {"cfg": enc(cfg)}
    view = validator_view(cfg, case, rec)
    out_labels = list(labels)
    if view is None:
        out_labels.append("excluded_known")
    else:
        out_labels.append("accepted" if view["ok"] else "rejected")
        if view["ok"]:
            check_ranges(view["norm"], case, rec)
            if view["warnings"]:
                out_labels.append("warnings")
        elif any("did you mean" in ln for ln in view["lines"]):
            out_labels.append("suggestion")
        if has_dup_lines(view):
            out_labels.append("dup_message_lines")
        if not view["ok"] and warm_with_siblings(cfg):
            _, validate_config_api, _, _ = _apis()
            again = validate_config_api(cfg)
            if list(again[1]) != view["lines"] or bool(again[0]):
                raise Violation(f"messages change after validating another config that carries the same unknown keys elsewhere: "
                                f"before={view['lines']!r} after={list(again[1])!r}", case, "history-dependent")
            out_labels.append("history_probe")
    if not with_cli:
        return view, out_labels
    own_tmp = None
    if tmpdir is None:
        own_tmp = tmpdir = tempfile.mkdtemp(prefix="c14_cli_", dir=os.environ.get("VERIF_TMP") or None)
    try:
        out_labels.append("cli_" + check_cli_inprocess(cfg, case, rec, tmpdir))
    finally:
        if own_tmp:
            shutil.rmtree(own_tmp, ignore_errors=True)
    return view, out_labels


def _paths_of(cfg, prefix=()):
    out = []
    if isinstance(cfg, dict):
        for k, v in cfg.items():
            out.append(prefix + (k,))
            out.extend(_paths_of(v, prefix + (k,)))
    return out


def _without(cfg, path):
    c = copy.deepcopy(cfg)
    d = c
    for k in path[:-1]:
        d = d[k]
    del d[path[-1]]
    return c


def minimise_cfg(cfg, sig, fails, budget=200):
    """Greedy deletion of key paths (any depth) while `fails(cfg)` keeps returning the same signature."""
    if not isinstance(cfg, dict):
        return cfg
    cur = cfg
    progress = True
    while progress and budget > 0:
        progress = False
        for path in sorted(_paths_of(cur), key=lambda p: (len(p), repr(p))):
            if budget <= 0:
                break
            budget -= 1
            try:
                cand = _without(cur, path)
            except (KeyError, TypeError):
                continue
            if fails(cand) == sig:
                cur = cand
                progress = True
                break
    return cur


def _sig_total(cfg):
    try:
        check_total(cfg, None, None)
    except Violation as v:
        return v.sig
    return None


def _post_minimise(rec, prefix, sig_fn, key="cfg"):
    """Shrink the recorded (already Hypothesis-shrunk) failing inputs a bit further by key deletion."""
    for v in rec.violations:
        if not v["message"].startswith(prefix) or not isinstance(v.get("case"), dict) or key not in v["case"]:
            continue
        cfg = dec(v["case"][key])
        small = minimise_cfg(cfg, v["sig"], sig_fn)
        if small is not cfg:
            v["case"] = dict(v["case"], **{key: enc(small)})


def sub_total(rec, seed, shard, nshards, n=750, shrink=True):
    tmpdir = tempfile.mkdtemp(prefix="c14_total_", dir=os.environ.get("VERIF_TMP") or None)

    def body(cv):
        cfg, labels = cv
        view, out_labels = check_total(cfg, rec, tmpdir, labels)
        nt = is_nontrivial(labels)
        rec.case(nontrivial=nt, dig=digest(enc(cfg)) if nt else None, labels=out_labels,
                 sample={"cfg": enc(cfg), "verdict": None if view is None else ("accept" if view["ok"] else view["lines"][:3])} if nt else None)

    try:
        run_hypothesis(rec, seed, cfg_inputs(), body, max_examples=n, shrink=shrink, name="total")
        _post_minimise(rec, "total:", _sig_total)
    finally:
        shutil.rmtree(tmpdir, ignore_errors=True)


def replay_total(case):
    check_total(dec(case["cfg"]), None, None)


# =====================================================================================================
# leafwise: exhaustive single-leaf enumeration (every leaf of the table x every pool value; every top-level unknown key)
# =====================================================================================================

# error lines that a documented-valid single leaf may legitimately trigger together with the DEFAULT siblings
_CROSS_PREFIXES = (
    "t4.weight_min/weight_max must satisfy", "graph.update.clamp_min/clamp_max must satisfy",
    "graph.decay.floor must be <= graph.update.clamp_max", "graph.split.weak_edge_thresh should be <= graph.merge.min_avg_w",
    "t3.policy tau_high should be >= tau_low", "scheduler.budgets.wall_ms must be >= scheduler.quantum_ms",
    "t3.llm.fixtures.path must be a non-empty string when fixtures.enabled=true",
    "t3.llm.fixtures.enabled must be true when t3.reflection.backend=llm",
)


def _nest(path, value):
    d = value
    for k in reversed(path):
        d = {k: d}
    return d


def leafwise_space():
    """Deterministic list of (kind, path, cls, value)."""
    out = []
    for path in LEAF_PATHS:
        spec = LEAVES[path]
        for v in _valid_values(spec, big=True):
            out.append(("leaf", path, "valid", v))
        for v in _outside_values(spec) + _PATH_OUTSIDE.get(path, []):
            out.append(("leaf", path, "outside", v))
        for v in WRONG:
            out.append(("leaf", path, "wrongtype", v))
        for v in SPECIAL:
            out.append(("leaf", path, "special", v))
        for v in _FREE_NEAR.get(path, []):
            out.append(("leaf", path, "near", v))
        for v in NATIVE:
            out.append(("leaf", path, "native", v))
    for sec in SECTION_PATHS:
        if sec:
            for v in SECTION_REPLACEMENTS:
                out.append(("section", sec, "mangled", v))
    tops = sorted(TREE.keys())
    unknown = list(TOP_TYPOS) + [k[1:] for k in tops if len(k) > 1] + [k + "x" for k in tops] + RANDOM_KEYS
    for k in unknown:
        if k not in tops:
            out.append(("topkey", (k,), "unknown", 1))
    for k in NONSTR_KEYS + NATIVE_KEYS:
        out.append(("topkey", (k,), "unknown", 1))
    return out


def check_leaf(kind, path, cls, value, rec=None):
    cfg = _nest(path, copy.deepcopy(value))
    case = {"cfg": enc(cfg), "kind": kind, "cls": cls, "path": enc(list(path)), "value": enc(value)}
    view = validator_view(cfg, case, rec)
    if view is None:
        return "excluded_known"
    if view["ok"]:
        check_ranges(view["norm"], case, rec)
        if kind == "topkey":
            raise Violation(f"unknown top-level key {path[0]!r} accepted (the v1 freeze rejects unknown top-level keys)", case, "unknown-top-level-accepted")
        return "accepted"
    if kind == "topkey" and str(path[0]) not in view["raw"]:
        raise Violation(f"rejection of unknown top-level key {path[0]!r} does not name the key: {view['lines']!r}", case, "unknown-key-message")
    if kind == "leaf" and cls == "valid":
        bad = [ln for ln in view["lines"] if not ln.startswith(_CROSS_PREFIXES)]
        if bad:
            raise Violation(f"validator rejects a documented-valid value {value!r} for {'.'.join(path)}: {bad!r}", case, "rejects-documented-valid")
        return "rejected_cross_field"
    return "rejected"


def sub_leafwise(rec, seed, shard, nshards):
    space = leafwise_space()
    for i, (kind, path, cls, value) in enumerate(space):
        if i % nshards != shard:
            continue
        try:
            outcome = check_leaf(kind, path, cls, value, rec)
        except Violation as v:
            rec.violation("leafwise: " + v.message, v.case, v.sig)
            outcome = "violation"
        rec.case(nontrivial=(cls != "valid"), dig=None, labels=[kind + "_" + cls, outcome],
                 sample={"path": enc(list(path)), "value": enc(value), "outcome": outcome} if (cls != "valid" and i % 997 == shard) else None)
    rec.note("space", len(space))


def replay_leafwise(case):
    check_leaf(case["kind"], tuple(dec(case["path"])), case["cls"], dec(case["value"]), None)


# =====================================================================================================
# hashseed: batches evaluated in child interpreters under different PYTHONHASHSEED values
# =====================================================================================================

_CHILD = r"""
import json, sys
import hashlib
from checks.c14 import dec, canon
from configs.validate import validate_config_api, validate_config_verbose
from clematis.errors import ConfigError
from checks.c14 import warm_with_siblings
cases = json.load(open(sys.argv[1], encoding="utf-8"))
mode = sys.argv[3] if len(sys.argv) > 3 else "plain"
order = list(range(len(cases)))
if mode == "reversed":
    order.reverse()
out = [None] * len(cases)
for i in order:
    c = cases[i]
    try:
        cfg = dec(c)
        if mode == "warm":
            warm_with_siblings(cfg)
        ok, errs, norm = validate_config_api(cfg)
        row = [bool(ok), list(errs)]
        if ok:  # normalised dict and warnings must not depend on the hash seed either
            row.append(hashlib.sha1(repr(canon(norm)).encode()).hexdigest()[:16])
            row.append(list(validate_config_verbose(cfg)[1]))
        out[i] = row
    except Exception as e:
        out[i] = ["exc", type(e).__name__]
json.dump(out, open(sys.argv[2], "w", encoding="utf-8"))
"""


def _child_env(hashseed: str):
    env = dict(os.environ)
    env["PYTHONHASHSEED"] = hashseed
    env["PYTHONPATH"] = os.pathsep.join([_repo(), VERIF, os.path.join(VERIF, ".deps")])
    return env


_HS_MODE = {"1": "warm", "2": "reversed"}


def eval_under_hashseeds(encoded_cases, seeds=("0", "1", "2", "random")):
    work = tempfile.mkdtemp(prefix="c14_hs_", dir=os.environ.get("VERIF_TMP") or None)
    try:
        inp = os.path.join(work, "cases.json")
        with open(inp, "w", encoding="utf-8") as f:
            json.dump(encoded_cases, f)
        res = {}
        for hs in seeds:
            outp = os.path.join(work, f"out_{hs}.json")
            # besides the hash seed the children differ in HISTORY: "1" validates sibling configs (same unknown keys under
            # other sections) before each case, "2" walks the batch backwards; "0" and "random" take it cold and in order
            p = subprocess.run([sys.executable, "-c", _CHILD, inp, outp, _HS_MODE.get(hs, "plain")], env=_child_env(hs), cwd=work,
                               stdout=subprocess.PIPE, stderr=subprocess.STDOUT)
            if p.returncode != 0 or not os.path.exists(outp):
                raise RuntimeError(f"c14 hashseed child failed rc={p.returncode}\n{p.stdout.decode(errors='replace')[-2000:]}")
            with open(outp, "r", encoding="utf-8") as f:
                res[hs] = json.load(f)
        return res
    finally:
        shutil.rmtree(work, ignore_errors=True)


def _hs_differs(results, i):
    vals = [json.dumps(results[hs][i], sort_keys=True) for hs in sorted(results)]
    return len(set(vals)) > 1


def _single_key_subconfigs(cfg, prefix=()):
    """Every sub-config that keeps exactly one key path of cfg (candidates for minimisation)."""
    out = []
    if isinstance(cfg, dict):
        for k, v in cfg.items():
            def wrap(x, pre=prefix, key=k):
                d = {key: x}
                for p in reversed(pre):
                    d = {p: d}
                return d
            out.append(wrap(1))
            out.append(wrap({}))
            if isinstance(v, dict):
                out.extend(_single_key_subconfigs(v, prefix + (k,)))
    return out


def check_hashseed_batch(cfgs, rec=None):
    """Returns list of (cfg, results-per-seed) for cases whose verdict/messages differ between hash seeds."""
    encs = [enc(c) for c in cfgs]
    res = eval_under_hashseeds(encs)
    return [(cfgs[i], {hs: res[hs][i] for hs in res}) for i in range(len(cfgs)) if _hs_differs(res, i)]


def _report_hashseed(rec, cfg, per_seed):
    msgs = {hs: "\n".join(r[1]) if isinstance(r[1], list) else str(r) for hs, r in per_seed.items()}
    only_hints = len({strip_hints(m) for m in msgs.values()}) == 1 and len({json.dumps(r[0]) for r in per_seed.values()}) == 1
    if only_hints and _is_known(rec, KNOWN_HINT):
        return
    case = {"cfg": enc(cfg)}
    cold = {json.dumps(per_seed[hs], sort_keys=True) for hs in per_seed if hs not in _HS_MODE}
    if len(cold) == 1:  # the cold in-order children agree: what differs is what was validated BEFORE this config
        rec.violation("hashseed: messages depend on the validation history of the process (1: sibling configs with the same unknown keys "
                      "validated first, 2: batch walked backwards): " + "; ".join(f"{hs}: {m!r}" for hs, m in sorted(msgs.items())),
                      case, "history-dependent")
        return
    rec.violation(f"hashseed: messages depend on PYTHONHASHSEED: " + "; ".join(f"{hs}: {m!r}" for hs, m in sorted(msgs.items())),
                  case, "hint-hashseed" if only_hints else "hashseed-dependent")


def sub_hashseed(rec, seed, shard, nshards, n=200):
    collected = []

    def body(cv):
        cfg, labels = cv
        try:
            enc(cfg)
        except TypeError:
            return
        collected.append((cfg, labels))

    run_hypothesis(rec, seed, cfg_inputs(), body, max_examples=n, shrink=False, name="hashseed")
    # always include the dense near-miss family (every top-level / section typo at distance 1 from >= 2 siblings)
    for k in TOP_TYPOS:
        collected.append(({k: 1}, ["unknown_key", "typo_key"]))
    cfgs = [c for c, _ in collected]
    res = eval_under_hashseeds([enc(c) for c in cfgs])
    bad = []
    for i, (cfg, labels) in enumerate(collected):
        nt = is_nontrivial(labels)
        r0 = res["0"][i]
        lbs = list(labels) + (["suggestion"] if isinstance(r0[1], list) and any("did you mean" in x for x in r0[1]) else [])
        rec.case(nontrivial=nt, dig=digest(enc(cfg)) if nt else None, labels=lbs)
        if _hs_differs(res, i):
            bad.append(cfg)
    if not bad:
        return
    # minimise: smallest single-key sub-config of the first failing inputs that still differs
    cands = []
    for cfg in bad[:5]:
        cands.extend(_single_key_subconfigs(cfg))
    uniq = {}
    for c in cands:
        uniq.setdefault(json.dumps(enc(c), sort_keys=True), c)
    small = check_hashseed_batch(list(uniq.values()), rec) if uniq else []
    if small:
        small.sort(key=lambda t: len(json.dumps(enc(t[0]))))
        _report_hashseed(rec, *small[0])
    else:
        i = cfgs.index(bad[0])
        _report_hashseed(rec, bad[0], {hs: res[hs][i] for hs in res})
    rec.note("hashseed_dependent_cases", len(bad))


def replay_hashseed(case):
    cfgs = [dec(case["cfg"])] + [dec(c) for c in case.get("more") or []]  # one batch of child interpreters for all of them
    diff = check_hashseed_batch(cfgs)
    if diff:
        msgs = {hs: r for hs, r in diff[0][1].items()}
        raise Violation(f"messages depend on PYTHONHASHSEED: {msgs}", case, "hashseed-dependent")


# =====================================================================================================
# cli: real subprocesses
# =====================================================================================================

def _run_cli(args, cwd, hashseed, stdin_text=None, script=None):
    """`python -m <args...>` (or `python <script> <args...>`) in a child process; bytes in, bytes out (no newline translation)."""
    env = _child_env(hashseed)
    cmd = [sys.executable, script, *args] if script else [sys.executable, "-m", *args]
    p = subprocess.run(cmd, cwd=cwd, env=env, stdout=subprocess.PIPE, stderr=subprocess.PIPE,
                       input=(stdin_text.encode("utf-8") if stdin_text is not None else None),
                       stdin=(None if stdin_text is not None else subprocess.DEVNULL))
    return p.returncode, p.stdout.decode("utf-8", "replace"), p.stderr.decode("utf-8", "replace")


def check_cli_case(cfg, hashseed="0", rec=None, forms=0):
    """Real subprocess forms vs the in-process view of the re-loaded file. Returns labels."""
    case = {"cfg": enc(cfg), "hashseed": hashseed, "forms": forms}
    rt = yaml_roundtrip(cfg)
    if rt is None:
        return ["cli_unrepresentable"]
    text, arg = rt
    warmed = warm_with_siblings(arg)  # the CLI runs in a fresh interpreter; the in-process view is made as warm as can be
    view = validator_view(arg, case, rec)
    labels = ["warmed"] if warmed else []
    work = tempfile.mkdtemp(prefix="c14_clip_", dir=os.environ.get("VERIF_TMP") or None)
    try:
        path = os.path.join(work, "cfg.yaml")
        with open(path, "w", encoding="utf-8") as f:
            f.write(text)
        if view is None:
            # known non-string-key crash in-process: the CLI is another route to the same root cause
            rc, out, err = _run_cli(["clematis.scripts.validate", path], work, hashseed)
            if not ("TypeError" in err and "_lev" in err):
                raise Violation(f"in-process validation crashes (known) but the CLI reports exit={rc} {out[:80]!r}", case, "cli-verdict")
            return ["cli_known_nonstring"]
        labels.append("accepted" if view["ok"] else "rejected")
        if view["ok"] and nonmapping_leak(view["norm"]):
            rc, out, err = _run_cli(["clematis.scripts.validate", path], work, hashseed)
            if rc != 0 and "AttributeError" in err:
                if not _is_known(rec, KNOWN_NONMAPPING):
                    raise Violation(f"CLI crashes on an accepted config (non-mapping perf / t2.quality survives validation): {err[-200:]!r}",
                                    case, "cli-raises:AttributeError@main")
                return labels + ["cli_known_nonmapping"]

        # (c) the packaged shim the umbrella command delegates to
        rc, out, err = _run_cli(["clematis.scripts.validate", path], work, hashseed)
        compare_cli_text(rc, out, view, case, "python -m clematis.scripts.validate FILE", rec, hints_may_differ=True)

        # (a) umbrella, text form
        rc, out, err = _run_cli(["clematis", "validate", path], work, hashseed)
        if rc == 2 and "config file not found: " + os.path.join("configs", "config.yaml") in err:
            if not _is_known(rec, KNOWN_CLI_PATH):
                raise Violation(f"`python -m clematis validate FILE` ignores FILE and looks for configs/config.yaml: exit=2 {err[:100]!r}",
                                case, "cli-drops-path")
            labels.append("umbrella_text_known")
        else:
            compare_cli_text(rc, out, view, case, "python -m clematis validate FILE", rec, hints_may_differ=True)
            labels.append("umbrella_text")

        # (b) umbrella, JSON form: stdout carries only JSON; a rejection is forwarded verbatim (stdout or stderr)
        rc, out, err = _run_cli(["clematis", "validate", "--json", path], work, hashseed)
        who = "python -m clematis validate --json FILE"
        if view["ok"]:
            compare_cli_json(rc, out, view, case, who)
            labels.append("umbrella_json")
        else:
            want = expected_text(view)
            sniffed = "{" in want and "}" in want[want.index("{"):]
            stream = out if out.startswith("CONFIG INVALID") else err
            if sniffed and not stream.startswith("CONFIG INVALID") and ("JSONDecodeError" in err or out.strip()):
                if not _is_known(rec, KNOWN_CLI_JSON):
                    raise Violation("`python -m clematis validate --json FILE` mistakes braces inside the error message for a JSON "
                                    f"document: exit={rc} stdout={out[:80]!r} stderr tail={err[-160:]!r}; expected {want[:120]!r}",
                                    case, "cli-json-sniffs-errors")
                labels.append("umbrella_json_known")
            else:
                compare_cli_text(rc, stream, view, case, who, rec, hints_may_differ=True)
                labels.append("umbrella_json")

        # two more forms per case, rotating: the repository's scripts/validate_config.py, STDIN ('-'), --strict through the
        # umbrella command, the default path (configs/config.yaml under the working directory)
        script = os.path.join(_repo(), "scripts", "validate_config.py")
        script = script if os.path.isfile(script) else None
        extra = []
        if forms < 0:
            pass
        elif forms % 3 == 0:
            extra = [("python scripts/validate_config.py FILE", [path], None, True, []),
                     ("python -m clematis.scripts.validate - <FILE", ["clematis.scripts.validate", "-"], text, False, [])]
        elif forms % 3 == 1:
            extra = [("python -m clematis validate --strict FILE", ["clematis", "validate", "--strict", path], None, False, ["--strict"]),
                     ("python scripts/validate_config.py --strict FILE", ["--strict", path], None, True, ["--strict"])]
        elif forms % 3 == 2:
            os.makedirs(os.path.join(work, "configs"))
            shutil.copyfile(path, os.path.join(work, "configs", "config.yaml"))
            extra = [("python -m clematis validate  (default path configs/config.yaml)", ["clematis", "validate"], None, False, []),
                     ("python -m clematis validate - <FILE", ["clematis", "validate", "-"], text, False, [])]
        for who, args, stdin_text, use_script, flags in extra:
            if use_script and script is None:
                labels.append("no_root_script")
                continue
            rc, out, err = _run_cli(args, work, hashseed, stdin_text, script if use_script else None)
            expect_cli(rc, out, view, flags, case, who, rec, hints_may_differ=True)
        labels.append(f"forms_{forms % 3}" if forms >= 0 else "forms_none")
        if has_dup_lines(view):
            labels.append("dup_message_lines")
    finally:
        shutil.rmtree(work, ignore_errors=True)
    return labels


def _minimise_cli(cfg, hashseed, rec, sig, forms=0, budget=14):
    """Smallest single-key sub-config that still fails with the same signature (subprocess oracles: no Hypothesis shrink)."""
    best = None
    cands = _single_key_subconfigs(cfg) if isinstance(cfg, dict) else []
    cands.sort(key=lambda c: len(json.dumps(enc(c))))
    for c in cands[:budget]:
        try:
            check_cli_case(c, hashseed, rec, forms)
        except Violation as v:
            if v.sig == sig:
                best = v
                break
    return best


# fixed anchors of the subprocess forms (spread over the shards, every one runs in every run): an enumeration message
# (braces), a tie-prone typo, the default config, and rejected configs whose message list REPEATS an entry
CLI_ANCHORS = [
    {"t2": {"backend": "x"}},
    {"t5": 1},
    {},
    {"t3": {"allow_reflection": True, "reflection": {"backend": "llm"}, "llm": {"fixtures": {"enabled": True, "path": "  "}}},
     "t2": {"k_retrieval": 0}},
    {"t4": {"cache": {"namespaces": ["zz", "t2:semantic", "other", "zz"]}, "cooldowns": {1: 0, 2: 3}},
     "perf": {"t2": {"reader": {"partitions": {"by": ["month", "month", "owner"]}}}}},
    {"t1": {7: 1, "7": 2, "p\nb": 1}, "graph": {"q\nb": 1}, None: 1, "None": 2},
]


def sub_cli(rec, seed, shard, nshards, n=12):
    count = [0]

    def body(cv):
        cfg, labels = cv
        hs, forms = str(count[0] % 3), (count[0] + shard) % 3
        count[0] += 1
        try:
            out_labels = check_cli_case(cfg, hs, rec, forms)
        except Violation as v:
            raise (_minimise_cli(cfg, hs, rec, v.sig, forms) or v)
        nt = is_nontrivial(labels) and "cli_unrepresentable" not in out_labels
        rec.case(nontrivial=nt, dig=digest(enc(cfg)) if nt else None, labels=list(labels) + out_labels + ["hashseed_" + hs],
                 sample={"cfg": enc(cfg), "labels": out_labels} if nt else None)

    for i, cfg in enumerate(CLI_ANCHORS):
        if i % nshards != shard:
            continue
        try:
            out_labels = check_cli_case(copy.deepcopy(cfg), "1", rec, i)
        except Violation as v:
            rec.violation("cli: " + v.message, v.case, v.sig)
            continue
        rec.case(nontrivial=bool(cfg), dig=digest(enc(cfg)) if cfg else None, labels=out_labels + ["anchor"])
    run_hypothesis(rec, seed, cfg_inputs(), body, max_examples=n, shrink=False, name="cli")


def replay_cli(case):
    # replay files written before the extra forms existed carry no "forms": they re-run exactly the forms they recorded
    check_cli_case(dec(case["cfg"]), str(case.get("hashseed", "0")), None, int(case.get("forms", -1)))


# =====================================================================================================
# runnable: accepted configs must run
# =====================================================================================================

# leaves drawn jointly (cross-field rules) — each group returns {path: value}
def _g_weights(draw):
    pts = [-1.0, -0.5, -0.25, 0.0, 0.3, 0.75, 1.0]
    a = draw(st.integers(0, len(pts) - 2))
    b = draw(st.integers(a + 1, len(pts) - 1))
    return {("t4", "weight_min"): pts[a], ("t4", "weight_max"): pts[b]}


def _g_clamp(draw):
    lo = draw(st.sampled_from([-1.0, -0.5, 0.0, -2.0]))
    hi = draw(st.sampled_from([1.0, 0.5, 2.0] + ([0.0] if lo < 0 else [])))
    out = {("graph", "update", "clamp_min"): lo, ("graph", "update", "clamp_max"): hi}
    if draw(st.booleans()):
        out[("graph", "decay", "floor")] = draw(st.sampled_from([0.0, hi, hi / 2.0, 0.01 if hi >= 0.01 else 0.0]))
    return out


def _g_merge_split(draw):
    m = draw(st.sampled_from([0.2, 0.0, 0.5, 1.0]))
    w = draw(st.sampled_from([0.0, m, m / 2.0]))
    return {("graph", "merge", "min_avg_w"): m, ("graph", "split", "weak_edge_thresh"): w}


def _g_policy(draw):
    lo = draw(st.sampled_from([0.0, 0.4, 1.0]))
    hi = draw(st.sampled_from([v for v in (0.0, 0.4, 0.8, 1.0) if v >= lo]))
    return {("t3", "policy", "tau_low"): lo, ("t3", "policy", "tau_high"): hi}


def _g_sched(draw):
    q = draw(st.sampled_from([1, 20, 50]))
    w = draw(st.sampled_from([None, q, q + 1, 200 if q <= 200 else q, 10 ** 6]))
    return {("scheduler", "quantum_ms"): q, ("scheduler", "budgets", "wall_ms"): w}


def _g_llm(draw):
    """fixtures + reflection backend drawn jointly (reflection backend llm requires enabled fixtures with a path)."""
    be = draw(st.sampled_from(["rulebased", "llm"]))
    en = True if be == "llm" else draw(st.booleans())
    return {("t3", "reflection", "backend"): be, ("t3", "allow_reflection"): draw(st.booleans()),
            ("t3", "llm", "fixtures", "enabled"): en,
            ("t3", "llm", "fixtures", "path"): "fixtures/llm/none.jsonl" if en else draw(st.sampled_from([None, "p.jsonl"]))}


GROUPS = [_g_weights, _g_clamp, _g_merge_split, _g_policy, _g_sched, _g_llm]
_GROUPED = {("t4", "weight_min"), ("t4", "weight_max"), ("graph", "update", "clamp_min"), ("graph", "update", "clamp_max"),
            ("graph", "decay", "floor"), ("graph", "merge", "min_avg_w"), ("graph", "split", "weak_edge_thresh"),
            ("t3", "policy", "tau_low"), ("t3", "policy", "tau_high"), ("scheduler", "quantum_ms"), ("scheduler", "budgets", "wall_ms"),
            ("t3", "llm", "fixtures", "enabled"), ("t3", "llm", "fixtures", "path"), ("t3", "reflection", "backend"), ("t3", "allow_reflection")}
# version is fixed; snapshot_dir is owned by the sandbox; aliases are generated as the canonical spelling's sibling
_SOLO_PATHS = [p for p in LEAF_PATHS if p not in _GROUPED and p not in {("version",), ("t4", "snapshot_dir")}]
# switches that put more of the engine to work: drawn more often than a uniform leaf pick would
_GATES = [("perf", "enabled"), ("t2", "hybrid", "enabled"), ("t2", "quality", "enabled"), ("graph", "enabled"), ("scheduler", "enabled"),
          ("perf", "parallel", "enabled"), ("t3", "apply_ops"), ("perf", "metrics", "report_memory"), ("t2", "quality", "mmr", "enabled"),
          ("t2", "quality", "shadow"), ("perf", "parallel", "t1"), ("perf", "parallel", "t2"), ("graph", "merge", "enabled"),
          ("graph", "split", "enabled"), ("graph", "promotion", "enabled"), ("perf", "snapshots", "delta_mode")]

# Switches only matter together (perf.enabled AND the feature flag AND ...), and a section's leaves are only READ while its
# switch is on.  Uniform leaf picks almost never produce such a combination, so: curated switch sets, and for every switch
# that is on a few more leaves drawn from the subtree it governs (in-range values incl. the boundaries 0 / 1 / null).
_GATE_SETS = [
    {("perf", "enabled"): True, ("perf", "metrics", "report_memory"): True, ("t2", "quality", "shadow"): True},
    {("perf", "enabled"): True, ("perf", "metrics", "report_memory"): True, ("t2", "quality", "enabled"): True,
     ("t2", "quality", "mmr", "enabled"): True, ("t2", "quality", "lexical", "enabled"): True, ("t2", "quality", "fusion", "enabled"): True},
    {("perf", "enabled"): True, ("t2", "quality", "enabled"): True, ("t2", "quality", "normalizer", "enabled"): True,
     ("t2", "quality", "aliasing", "enabled"): True},
    {("perf", "enabled"): True, ("perf", "parallel", "enabled"): True, ("perf", "parallel", "t1"): True, ("perf", "parallel", "max_workers"): 2},
    {("perf", "enabled"): True, ("perf", "metrics", "report_memory"): True, ("t2", "hybrid", "enabled"): True, ("t2", "hybrid", "walk_hops"): 2},
    {("perf", "enabled"): True, ("t2", "reader", "mode"): "partition", ("perf", "t2", "reader", "partitions", "enabled"): True},
    {("perf", "enabled"): True, ("perf", "snapshots", "delta_mode"): True, ("perf", "snapshots", "every_n_turns"): 1, ("t3", "apply_ops"): True},
    {("graph", "enabled"): True, ("graph", "merge", "enabled"): True, ("graph", "split", "enabled"): True, ("graph", "promotion", "enabled"): True},
    {("scheduler", "enabled"): True, ("scheduler", "policy"): "fair_queue"},
    {("scheduler", "enabled"): True, ("perf", "enabled"): True, ("perf", "metrics", "report_memory"): True},
    {("t3", "apply_ops"): True, ("t4", "enabled"): True, ("t4", "cache_bust_mode"): "on-apply", ("t4", "cache", "enabled"): True},
    {("t4", "enabled"): False, ("t3", "apply_ops"): True},
]
# switch -> subtrees it governs
_GATE_SCOPE = {
    ("perf", "enabled"): [("perf",)], ("perf", "metrics", "report_memory"): [("perf",), ("t2", "quality")],
    ("perf", "parallel", "enabled"): [("perf", "parallel")], ("perf", "parallel", "t1"): [("perf", "parallel"), ("t1",)],
    ("perf", "parallel", "t2"): [("perf", "parallel"), ("t2",)], ("perf", "snapshots", "delta_mode"): [("perf", "snapshots"), ("t4",)],
    ("t2", "hybrid", "enabled"): [("t2", "hybrid")], ("t2", "quality", "enabled"): [("t2", "quality")],
    ("t2", "quality", "mmr", "enabled"): [("t2", "quality", "mmr")], ("t2", "quality", "shadow"): [("t2", "quality")],
    ("graph", "enabled"): [("graph",)], ("graph", "merge", "enabled"): [("graph", "merge")], ("graph", "split", "enabled"): [("graph", "split")],
    ("graph", "promotion", "enabled"): [("graph", "promotion")], ("scheduler", "enabled"): [("scheduler",)],
    ("t3", "apply_ops"): [("t3",), ("t4",)],
}


def _under(path, prefix):
    return path[:len(prefix)] == prefix


_FREE_PATHS = sorted(p for p, sp in LEAVES.items() if sp[0] == "free")
_FREE_NEAR = {
    ("t1", "decay"): [{"floor": "0.05"}, {"mode": "exp_floor", "rate": "0.6", "floor": "0.05"}, {"rate": "0.5"}, {"mode": "attn_quad", "alpha": "2"},
                      {"mode": "exp_floor", "rate": 1, "floor": 0}, {"mode": "exp_floor", "rate": True, "floor": False}, {"floor": "1e-3"},
                      {"mode": "attn_quad", "alpha": 1}, {"mode": "exp_floor", "floor": " 0.1 "}],
    ("t1", "edge_type_mult"): [{"supports": "1.0", "associates": "0.6", "contradicts": "0.8"}, {"supports": 1, "associates": 0, "contradicts": True},
                               {"supports": "1"}, {"associates": " 0.5"}],
    ("t1", "radius_cap"): ["2", 2.0, True, " 1 ", "0"],
    ("k_surface",): ["8", 8.0, True],
    ("t2", "tiers"): [("exact_semantic",), ["exact_semantic", "exact_semantic"], "exact_semantic"],
}
_FREE_NEAR = {p: v for p, v in _FREE_NEAR.items() if p in LEAVES}

# Numbers INSIDE the pass-through mappings.  The validator documents rate, floor in [0, 1] and alpha >= 0 for t1.decay
# (t1._compute_decay overflows in rate**distance beyond that and divides by zero for a negative alpha) and just "a number"
# for t1.edge_type_mult.  Boundary values must be accepted AND run; values beyond are thrown at the validator as well:
# whatever it still accepts must run.
_DECAY_BOUNDARY = {"rate": [0, 1, 0.0, 1.0, "1", 5e-324, 0.999, "0.5"], "floor": [0, 1, "0", 1.0, 5e-324, 0.5],
                   "alpha": [0, 0.0, 1e308, "inf", 5e-324, 3, "2"]}
_DECAY_EXTREME = {"rate": [-1, -1e200, 1e200, "inf", "-inf", 2, 1e308, -0.5, 1.0000000000000002], "floor": [-1, "inf", "-inf", 1e308, 2, -5e-324],
                  "alpha": [-1, -0.25, -1, -0.25, -1e308, "-inf", -1e-320, -4]}
_ETM_NUMS = [0, -1, "inf", "-inf", 1e308, -1e308, 5e-324, 2, "1e-3", 1, 0.0, -0.0]
# whole-leaf values outside the documented domain of t1.decay (leafwise / total: must be REJECTED or, if accepted, in range)
_PATH_OUTSIDE = {
    ("t1", "decay"): [{"mode": "attn_quad", "alpha": -1}, {"mode": "attn_quad", "alpha": -0.25}, {"rate": -1e200}, {"rate": 2}, {"rate": "inf"},
                      {"rate": 1.0000000000000002}, {"floor": -0.1}, {"floor": "inf"}, {"floor": 1.5}, {"alpha": "-inf"}, {"alpha": -1e-320},
                      {"mode": "exp_floor", "rate": 0.6, "floor": -1}],
}


_ALIAS_JUNK = ["1e3", "soon", INF, -INF, NAN, None, [], "", " 7 ", 2.5, True, BIG, "0x10", {"a": 1}, "600", 0, "1_0", b"5"]


def _draw_numeric_mapping(draw):
    """(path, value): a t1.decay / t1.edge_type_mult mapping whose numbers sit on boundaries (or beyond, see above)."""
    if draw(st.booleans()):
        d = {}
        mode = draw(st.sampled_from([None, "exp_floor", "attn_quad", "attn_quad"]))
        if mode:
            d["mode"] = mode
        for k in draw(st.lists(st.sampled_from(["rate", "floor", "alpha"]), min_size=1, max_size=3, unique=True)):
            pool = _DECAY_EXTREME[k] if draw(st.sampled_from([True, False, False])) else _DECAY_BOUNDARY[k]
            d[k] = draw(st.sampled_from(pool))
        return ("t1", "decay"), d
    rels = draw(st.lists(st.sampled_from(["supports", "associates", "contradicts", "weird", ""]), min_size=1, max_size=4, unique=True))
    return ("t1", "edge_type_mult"), {r: draw(st.sampled_from(_ETM_NUMS)) for r in rels}
_WORLD_TEXTS = ["apple pear", "kiwi", "apple", "pear fig APPLE", "zzz", ""]


@st.composite
def runnable_cases(draw):
    assigns = {}
    for g in draw(st.lists(st.sampled_from(GROUPS), max_size=2, unique=True)):
        assigns.update(g(draw))
    for p in draw(st.lists(st.sampled_from(_GATES), max_size=4, unique=True)):
        assigns[p] = True
    if draw(st.booleans()):
        for p, v in draw(st.sampled_from(_GATE_SETS)).items():
            if p not in _GROUPED:
                assigns[p] = v
    big = draw(st.sampled_from([False, False, True]))
    for gate in [p for p in sorted(assigns) if p in _GATE_SCOPE and assigns[p] is True]:
        scope = [p for p in _SOLO_PATHS if any(_under(p, pre) for pre in _GATE_SCOPE[gate]) and p not in _GATE_SCOPE and LEAVES[p][0] != "free"]
        for p in (draw(st.lists(st.sampled_from(scope), max_size=3, unique=True)) if scope else []):
            assigns.setdefault(p, copy.deepcopy(draw(st.sampled_from(_valid_values(LEAVES[p], big=big)))))
    k = draw(st.integers(3, 7))
    for p in draw(st.lists(st.sampled_from(_SOLO_PATHS), min_size=k, max_size=k, unique=True)):
        vals = _valid_values(LEAVES[p], big=big)
        assigns.setdefault(p, copy.deepcopy(draw(st.sampled_from(vals))))
    if ("perf", "parallel", "enabled") in assigns and draw(st.booleans()):
        assigns[("perf", "parallel", "max_workers")] = draw(st.sampled_from([2, 4]))
    items = [[list(p), enc(v)] for p, v in sorted(assigns.items())]
    # lenient part: values the table does NOT document (wrong types, NaN, huge, non-string keys) on pass-through leaves,
    # coercible junk on validated leaves, sections replaced by scalars. Whatever the validator ACCEPTS must still run.
    lenient = []
    for _ in range(draw(st.sampled_from([0, 0, 1, 1, 2, 3]))):
        kind = draw(st.sampled_from(["free", "free", "free", "validated", "section"]))
        if kind == "free":
            p = draw(st.sampled_from(_FREE_PATHS))
            v = draw(st.sampled_from(WRONG + SPECIAL + [{1: 1, "a": 2}, {None: 1}, {"mode": 5}, {"rate": "x"}, {"supports": "x"}, ["bogus", 1], [None]]
                                     + NATIVE + [{NATIVE_KEYS[0]: 1, "a": NATIVE[2]}, {NATIVE_KEYS[2]: [NATIVE[0]]}]))
            if p in _FREE_NEAR and draw(st.booleans()):
                # almost-documented spellings (numbers as strings / ints / bools) a YAML author produces
                v = draw(st.sampled_from(_FREE_NEAR[p]))
        elif kind == "validated":
            p = draw(st.sampled_from(_SOLO_PATHS))
            v = draw(st.sampled_from(WRONG + SPECIAL))
        else:
            p = draw(st.sampled_from([q for q in SECTION_PATHS if q]))
            v = draw(st.sampled_from(SECTION_REPLACEMENTS))
        lenient.append([list(p), enc(copy.deepcopy(v))])
    if draw(st.sampled_from([True, False, False])):
        p = draw(st.sampled_from(sorted(_FREE_NEAR)))
        lenient.append([list(p), enc(copy.deepcopy(draw(st.sampled_from(_FREE_NEAR[p]))))])
    if draw(st.sampled_from([True, False, False])):
        p, v = _draw_numeric_mapping(draw)
        lenient.append([list(p), enc(v)])
    if draw(st.sampled_from([True, False, False])):
        # TTL alias spellings of the three caches (t1/t2: ttl_s canonical, ttl_sec alias; t4: the other way round) with values
        # the validator tolerates by falling back (it normalises only the canonical leaf and hands the alias back RAW):
        # alone, or next to the canonical key carrying another value.  Whatever is accepted must run on a fresh state.
        sec, canonical, alias = draw(st.sampled_from([(("t1", "cache"), "ttl_s", "ttl_sec"), (("t2", "cache"), "ttl_s", "ttl_sec"),
                                                      (("t4", "cache"), "ttl_sec", "ttl_s"), (("t4", "cache"), "ttl_sec", "ttl_s")]))
        lenient.append([list(sec) + [alias], enc(copy.deepcopy(draw(st.sampled_from(_ALIAS_JUNK))))])
        how = draw(st.sampled_from(["alone", "both", "both_junk"]))
        if how == "both":
            lenient.append([list(sec) + [canonical], draw(st.sampled_from([0, 30, 600, 7]))])
        elif how == "both_junk":
            lenient.append([list(sec) + [canonical], enc(copy.deepcopy(draw(st.sampled_from(_ALIAS_JUNK))))])
        if sec == ("t4", "cache") and draw(st.booleans()):
            lenient.append([["t4", "cache", "enabled"], True])
    # world: fixed non-trivial core + drawn variation
    w_ab = draw(st.sampled_from([0.9, 1.0, 0.5, -0.5]))
    rel = draw(st.sampled_from(["supports", "associates", "contradicts", "weird"]))
    extra_edge = draw(st.booleans())
    n_eps = draw(st.integers(3, 6))
    texts = [draw(st.sampled_from(_WORLD_TEXTS[:4])), draw(st.sampled_from(_WORLD_TEXTS))]
    if draw(st.sampled_from([False, False, True])):
        texts.append(draw(st.sampled_from(_WORLD_TEXTS)))  # a third turn: every-2-turns cadences fire, caches are warm
    world = {"w_ab": w_ab, "rel": rel, "extra_edge": extra_edge, "n_eps": n_eps}
    if draw(st.sampled_from([False, False, True])):
        world["two_graphs"] = True
    return {"assign": items, "lenient": lenient, "world": world, "texts": texts}


def build_overrides(items):
    cfg = {}
    for p, v in items:
        d = _descend(cfg, tuple(p[:-1]))
        if d is not None:
            d[p[-1]] = dec(v)
    return cfg


def build_world(w):
    from harness import world as W

    nodes = [{"id": "a", "label": "apple", "tags": ["fruit"]}, {"id": "b", "label": "pear", "tags": []},
             {"id": "c", "label": "kiwi", "tags": ["fig"]}, {"id": "d", "label": "", "tags": []}]
    edges = [{"id": "e0", "src": "a", "dst": "b", "w": w["w_ab"], "rel": w["rel"]},
             {"id": "e1", "src": "b", "dst": "c", "w": 0.5, "rel": "associates"},
             {"id": "e2", "src": "c", "dst": "a", "w": 0.25, "rel": "contradicts"}]
    if w["extra_edge"]:
        edges += [{"id": "e3", "src": "a", "dst": "a", "w": 1.0, "rel": "supports"}, {"id": "e4", "src": "a", "dst": "d", "w": 0.9, "rel": "supports"}]
    enc_ = W.BowEncoder()
    base = [("e1", "A", "apple pear", 0, "c1", 0.5), ("e2", "world", "apple apple kiwi", 86400, "c1", 1.0), ("e3", "A", "pear fig", 7 * 86400, "c2", 0.0),
            ("e4", "B", "kiwi lime", 40 * 86400, "c2", 0.9), ("e5", "", "apple", 3600, "c3", 0.25), ("e6", "A", "plum nut", 400 * 86400, "c1", 0.5)]
    eps = []
    for eid, owner, text, age, cl, imp in base[:w["n_eps"]]:
        eps.append({"id": eid, "owner": owner, "text": text, "vec_full": enc_.vec(text), "ts": W.iso_minus(W.NOW_ISO, age),
                    "aux": {"cluster_id": cl, "importance": imp}})
    ids = [e["id"] for e in eps]
    gel_edges = {}
    for s, d_, wt in (("e1", "e2", 0.9), ("e2", "e3", 0.5)):
        if s in ids and d_ in ids:
            gel_edges[f"{s}→{d_}"] = {"id": f"{s}→{d_}", "src": s, "dst": d_, "weight": wt, "rel": "coact", "attrs": {}}
    gel = {"nodes": {i: {"id": i} for i in ids}, "edges": gel_edges, "meta": {}}
    graphs = {"g1": {"nodes": nodes, "edges": edges}}
    active = ["g1"]
    if w.get("two_graphs"):  # a second active graph: T1 merges across graphs / fans out two tasks under perf.parallel.t1
        graphs["g0"] = {"nodes": [{"id": "a", "label": "apple", "tags": []}, {"id": "z", "label": "lime", "tags": ["kiwi"]}],
                        "edges": [{"id": "f0", "src": "a", "dst": "z", "w": 0.7, "rel": "supports"},
                                  {"id": "f1", "src": "z", "dst": "a", "w": -0.4, "rel": "contradicts"}]}
        active = ["g1", "g0"]  # not in sorted order
    return {"graphs": graphs, "eps": eps, "gel": gel, "version": "0", "agents": {"A": active}}


def _leaf_diff(a, b, prefix=()):
    """Number of leaves that differ between two normalised configs."""
    if isinstance(a, dict) and isinstance(b, dict):
        n = 0
        for k in set(a) | set(b):
            if k in a and k in b:
                n += _leaf_diff(a[k], b[k], prefix + (k,))
            else:
                n += 1
        return n
    return 0 if canon(a) == canon(b) else 1


def _root_cause(e: BaseException) -> str:
    repo = _repo()
    frames = traceback.extract_tb(e.__traceback__)
    inner = None
    for fr in frames:
        if os.path.abspath(fr.filename).startswith(repo):
            inner = fr
    if inner is None:
        return type(e).__name__
    return f"{type(e).__name__}@{os.path.basename(inner.filename)}:{inner.name}"


def needs_network(cfg) -> bool:
    t3 = cfg.get("t3", {})
    return str(t3.get("backend")) == "llm" and str((t3.get("llm") or {}).get("provider")) == "ollama"


# stage functions that read the pass-through leaves with int()/float()/.get()/iteration/JSON-sort (root cause frames)
_PASSTHROUGH_FRAMES = {"t1.py:t1_propagate", "t1.py:_t1_one_graph", "t1.py:_compute_decay", "core.py:t2_semantic", "cache.py:stable_key",
                       "core.py:_init_index_from_cfg", "t1.py:_get_cache"}


def _undocumented_passthrough(case) -> bool:
    """The case assigns an undocumented value (not one of the table's examples) to a pass-through leaf."""
    for p, v in case.get("lenient") or []:
        spec = LEAVES.get(tuple(p))
        if spec is not None and spec[0] == "free" and not any(canon(dec(v)) == canon(ex) for ex in spec[1]):
            return True
    return False


def _known_runnable(case, cfg, e, rec) -> bool:
    """Narrow exclusions for listed findings (root cause frame + the specific config feature responsible)."""
    rc = _root_cause(e)
    frame = rc.split("@", 1)[1] if "@" in rc else ""
    if frame == "parallel.py:<lambda>" and isinstance(e, TypeError) and get_path(cfg, ("perf", "parallel", "t2")) is True:
        return _is_known(rec, KNOWN_PAR_T2)
    perf, q = cfg.get("perf"), get_path(cfg, ("t2", "quality"))
    if isinstance(e, AttributeError) and ((perf and not isinstance(perf, dict)) or (q and not isinstance(q, dict))):
        return _is_known(rec, KNOWN_NONMAPPING)
    if frame == "index.py:_filter_recent" and isinstance(e, OverflowError):
        return _is_known(rec, KNOWN_RECENT)
    if frame in _PASSTHROUGH_FRAMES and isinstance(e, (TypeError, ValueError, AttributeError, OverflowError)) and _undocumented_passthrough(case):
        return _is_known(rec, KNOWN_PASSTHROUGH)
    # the same failure inside a parallel T1 task surfaces wrapped: "ParallelError: ... AttributeError: 'str' object has no ..."
    if frame == "parallel.py:run_parallel" and type(e).__name__ == "ParallelError" and _undocumented_passthrough(case) \
            and any(t in str(e) for t in ("TypeError", "ValueError", "AttributeError", "OverflowError")):
        return _is_known(rec, KNOWN_PASSTHROUGH)
    return False


def check_runnable(case, rec=None):
    from harness import world as W, observe
    from clematis.errors import ConfigError

    overrides = build_overrides(case["assign"])
    lenient = case.get("lenient") or []
    for p, v in lenient:  # applied last: may replace whole sections
        d = _descend(overrides, tuple(p[:-1]))
        if d is not None:
            d[p[-1]] = dec(v)
    W.reset_engine_globals()
    labels = ["lenient" if lenient else "table_valid"]
    if any(tuple(p) in (("t1", "decay"), ("t1", "edge_type_mult")) and isinstance(dec(v), dict) and dec(v) for p, v in lenient):
        labels.append("numeric_mapping")
    if any(list(p[:2]) in (["t1", "cache"], ["t2", "cache"], ["t4", "cache"]) and len(p) == 3 and p[2] in ("ttl_s", "ttl_sec") for p, _ in lenient):
        labels.append("ttl_alias")
    with W.sandbox("c14_run_") as root:
        eng = observe.Engine(build_world(case["world"]), root)
        base = eng.cfg({})
        o = copy.deepcopy(overrides)
        if not isinstance(o.get("t4", {}), dict):
            o.pop("t4")  # keep the snapshot dir inside the sandbox even when the lenient part mangles t4
        try:
            cfg = eng.cfg(o)
        except ConfigError as e:
            if lenient:
                if rec is not None:
                    rec.case(nontrivial=False, labels=["lenient_rejected"])
                return
            raise Violation(f"validator rejects a configuration the documented table allows: {str(e)[:300]}", case, "rejects-documented-valid")
        except Exception as e:  # the validator may only raise ConfigError
            if lenient and _lev_typeerror(e, o) and _is_known(rec, KNOWN_NONSTR):
                rec.case(nontrivial=False, labels=["lenient_nonstring_key"])
                return
            fr = _innermost(e)
            raise Violation(f"validate_config raised {type(e).__name__}: {e}", case, f"raises:{type(e).__name__}@{fr.name if fr else '?'}")
        ndiff = _leaf_diff(cfg, base)
        if needs_network(cfg):
            if rec is not None:
                rec.case(nontrivial=False, labels=["skipped_network"])
            return
        turns_ok = 0
        for i, text in enumerate(case["texts"]):
            r = eng.turn("A", text, cfg, turn_id=i + 1, now_ms=W.NOW_MS + i * 1000)
            if r["exc"] is not None:
                e = r["exc_obj"]
                if _known_runnable(case, cfg, e, rec):
                    labels.append("excluded_known")
                    break
                raise Violation(f"accepted config makes turn {i + 1} raise {r['exc'][:300]} [{_root_cause(e)}]", case, "turn-raises:" + _root_cause(e))
            turns_ok += 1
            if (r.get("t1") or {}).get("counters", {}).get("pops"):
                labels.append("t1_pops")
            if (r.get("t2") or {}).get("k_returned"):
                labels.append("t2_hits")
        labels = sorted(set(labels))
        for p, _ in case["assign"]:
            if tuple(p) in _GATES:
                labels.append("gate_" + ".".join(p))
        got = {tuple(p): dec(v) for p, v in case["assign"]}
        for i, gs in enumerate(_GATE_SETS):
            if all(p in got and canon(got[p]) == canon(v) for p, v in gs.items()):
                labels.append(f"gateset_{i}")
        if len(case["texts"]) > 2:
            labels.append("turns_3")
        if case["world"].get("two_graphs"):
            labels.append("graphs_2")
        nt = ndiff >= 3 and turns_ok == len(case["texts"])
        if rec is not None:
            rec.case(nontrivial=nt, dig=digest(case) if nt else None, labels=labels + [f"off_default>={min(ndiff, 6)}"],
                     sample={"overrides": enc(overrides), "texts": case["texts"], "leaves_off_default": ndiff} if nt else None)


def sub_runnable(rec, seed, shard, nshards, n=75, shrink=True):
    import logging

    logging.disable(logging.CRITICAL)
    run_hypothesis(rec, seed, runnable_cases(), lambda c: check_runnable(c, rec), max_examples=n, shrink=shrink, name="runnable")
    _minimise_runnable(rec)


def _sig_runnable(case):
    try:
        check_runnable(case, None)
    except Violation as v:
        return v.sig
    return None


def _minimise_runnable(rec):
    for v in rec.violations:
        case = v.get("case")
        if not v["message"].startswith("runnable:") or not isinstance(case, dict) or "assign" not in case:
            continue
        cur = copy.deepcopy(case)
        for field in ("assign", "lenient"):
            i = 0
            while i < len(cur.get(field) or []):
                cand = copy.deepcopy(cur)
                del cand[field][i]
                if _sig_runnable(cand) == v["sig"]:
                    cur = cand
                else:
                    i += 1
        v["case"] = cur


def replay_runnable(case):
    check_runnable(case, None)


# =====================================================================================================
# atheris byte target (optional): same shapes from bytes, same oracle as `total`
# =====================================================================================================

class ByteReader:
    def __init__(self, data: bytes):
        self.d, self.i = data, 0

    def pick(self, n: int) -> int:
        if n <= 1 or self.i >= len(self.d):
            return 0
        v = self.d[self.i]
        self.i += 1
        if n > 256 and self.i < len(self.d):
            v = v * 256 + self.d[self.i]
            self.i += 1
        return v % n

    def choice(self, seq):
        return seq[self.pick(len(seq))]

    def left(self) -> int:
        return len(self.d) - self.i


def decode_bytes(data: bytes):
    """bytes -> (cfg, labels): the same construction as cfg_inputs, driven by a byte reader."""
    r = ByteReader(data)
    labels = set()
    cfg = {}
    n = r.pick(9)
    for _ in range(n):
        if r.left() <= 0:
            break
        path = r.choice(LEAF_PATHS)
        spec = LEAVES[path]
        cls = r.choice(["valid", "valid", "outside", "wrongtype", "special", "valid", "outside", "wrongtype", "special", "native"])
        pool = {"valid": _valid_values(spec), "outside": _outside_values(spec), "wrongtype": WRONG, "special": SPECIAL, "native": NATIVE}[cls]
        d = _descend(cfg, path[:-1])
        if d is None:
            continue
        d[path[-1]] = copy.deepcopy(r.choice(pool))
        labels.add("leaf_" + cls)
        if cls != "valid":
            labels.add("invalid_leaf")
    m = r.pick(4)
    for _ in range(m):
        if r.left() <= 0:
            break
        op = r.choice(["typo", "randkey", "nonstr", "section_repl", "dup"])
        if op == "dup":
            apply_dup(r, cfg, labels)
            continue
        sec = r.choice(SECTION_PATHS)
        if op == "section_repl":
            if not sec:
                continue
            d = _descend(cfg, sec[:-1])
            if d is not None:
                d[sec[-1]] = copy.deepcopy(r.choice(SECTION_REPLACEMENTS))
                labels.add("mangled")
            continue
        d = _descend(cfg, sec)
        if d is None:
            continue
        val = copy.deepcopy(r.choice([1, {}, None, "v", [1], NAN]))
        if op == "typo":
            sibs = sorted(_subtree(sec).keys()) if sec else sorted(TREE.keys())
            key = r.choice(sibs)
            i = r.pick(max(1, len(key)))
            how = r.pick(3)
            key = (key[:i] + key[i + 1:]) if how == 0 else (key[:i] + r.choice("abxyz_01") + key[i + 1:]) if how == 1 else key[:i] + r.choice("abxyz_01") + key[i:]
            if key in sibs:
                continue
            d[key] = val
            labels.update(["unknown_key", "typo_key"])
        elif op == "randkey":
            d[r.choice(RANDOM_KEYS)] = val
            labels.update(["unknown_key", "random_key"])
        else:
            d[r.choice(NONSTR_KEYS)] = val
            labels.update(["unknown_key", "nonstring_key"])
    return cfg, sorted(labels)


def atheris_available() -> bool:
    try:
        import atheris  # noqa: F401
        return True
    except Exception:
        return False


def sub_atheris(rec, seed, shard, nshards, runs=3000):
    if not atheris_available():
        rec.note("atheris", "not importable: fuzz sub-check skipped (the Hypothesis sub-checks decide the property)")
        return
    target = os.path.join(VERIF, "fuzz", "c14_validate_fuzz.py")
    work = tempfile.mkdtemp(prefix="c14_fz_", dir=os.environ.get("VERIF_TMP") or None)
    try:
        corpus = os.path.join(work, "corpus")
        os.makedirs(corpus)
        env = dict(os.environ)
        env["C14_FUZZ_OUT"] = work
        env["C14_FUZZ_KNOWN"] = ",".join(sorted(rec.known))
        env["C14_CLI_LIGHT"] = "1"
        cmd = [sys.executable, target, f"-runs={int(runs)}", f"-seed={seed % (2 ** 31 - 1) + 1}", "-max_len=96",
               f"-artifact_prefix={work}/", "-verbosity=0", corpus]
        seeds = os.path.join(VERIF, "corpus", "C14")
        if os.path.isdir(seeds):
            cmd.append(seeds)
        p = subprocess.run(cmd, env=env, cwd=work, stdout=subprocess.PIPE, stderr=subprocess.STDOUT)
        out = p.stdout.decode(errors="replace")
        stats = {}
        sp = os.path.join(work, "stats.json")
        if os.path.exists(sp):
            with open(sp, "r", encoding="utf-8") as f:
                stats = json.load(f)
        execs = int(stats.get("execs", 0))
        rec.case(nontrivial=False, n=execs)
        for lb, k in (stats.get("labels") or {}).items():
            rec.label(lb, k)
        for d in stats.get("nontrivial", []):
            rec.case(nontrivial=True, dig=d, n=0)
        for fid, k in (stats.get("excluded") or {}).items():
            rec.excluded[fid] = rec.excluded.get(fid, 0) + int(k)
        rec.note("atheris_execs", execs)
        fp = os.path.join(work, "failure.json")
        if os.path.exists(fp):
            with open(fp, "r", encoding="utf-8") as f:
                fail = json.load(f)
            rec.violation("atheris: " + fail["message"], fail["case"], fail["sig"])
            _post_minimise(rec, "atheris:", _sig_total)
            return
        if p.returncode != 0 or execs == 0:
            raise RuntimeError(f"atheris target failed rc={p.returncode}\n{out[-3000:]}")
    finally:
        shutil.rmtree(work, ignore_errors=True)


# =====================================================================================================
# known-finding probes (True while the defect still reproduces)
# =====================================================================================================

def probe_nonstring_key():
    validate_config, _, _, ConfigError = _apis()
    for cfg in ({1: 2}, {"t1": {3: 4}}):
        try:
            validate_config(cfg)
        except ConfigError:
            continue
        except TypeError:
            return True
    return False


def probe_nan():
    validate_config, _, _, ConfigError = _apis()
    for cfg in ({"t4": {"delta_norm_cap_l2": NAN}}, {"t1": {"node_budget": NAN}}, {"t2": {"hybrid": {"max_bonus": NAN}}},
                {"graph": {"decay": {"floor": NAN}}}):
        try:
            validate_config(cfg)
            return True
        except ConfigError:
            continue
    return False


def probe_hint():
    return bool(check_hashseed_batch([{"t5": 1}, {"t1": {"cach": 1}}, {"grap": 1}, {"scheduler": {"policy": "x"}}]))


def probe_cli_path():
    work = tempfile.mkdtemp(prefix="c14_probe_", dir=os.environ.get("VERIF_TMP") or None)
    try:
        p = os.path.join(work, "c.yaml")
        with open(p, "w") as f:
            f.write("t5: 1\n")
        rc, out, err = _run_cli(["clematis", "validate", p], work, "0")
        return rc == 2 and "config file not found" in err
    finally:
        shutil.rmtree(work, ignore_errors=True)


def probe_cli_json():
    work = tempfile.mkdtemp(prefix="c14_probe_", dir=os.environ.get("VERIF_TMP") or None)
    try:
        p = os.path.join(work, "c.yaml")
        with open(p, "w") as f:
            f.write("t2: {backend: x}\n")
        rc, out, err = _run_cli(["clematis", "validate", "--json", p], work, "0")
        return not out.startswith("CONFIG INVALID")
    finally:
        shutil.rmtree(work, ignore_errors=True)


def _probe_turn(overrides, want_exc):
    from harness import world as W, observe
    import logging

    logging.disable(logging.CRITICAL)
    try:
        W.reset_engine_globals()
        with W.sandbox("c14_probe_") as root:
            eng = observe.Engine(build_world({"w_ab": 0.9, "rel": "supports", "extra_edge": False, "n_eps": 3}), root)
            try:
                cfg = eng.cfg(overrides)
            except Exception:
                return False  # rejected now
            r = eng.turn("A", "apple pear", cfg, turn_id=1, now_ms=W.NOW_MS)
            return r["exc"] is not None and isinstance(r["exc_obj"], want_exc)
    finally:
        logging.disable(logging.NOTSET)


def probe_passthrough():
    return _probe_turn({"t1": {"radius_cap": None}}, TypeError) or _probe_turn({"t2": {"tiers": None}}, TypeError)


def probe_nonmapping():
    return _probe_turn({"perf": 5}, AttributeError)


def probe_recent():
    return _probe_turn({"t2": {"exact_recent_days": 2 ** 63}}, OverflowError)


def probe_par_t2():
    return _probe_turn({"perf": {"enabled": True, "parallel": {"enabled": True, "max_workers": 2, "t2": True}}}, TypeError)


KNOWN_PROBES = {
    KNOWN_PASSTHROUGH: probe_passthrough,
    KNOWN_NONMAPPING: probe_nonmapping,
    KNOWN_PAR_T2: probe_par_t2,
    KNOWN_RECENT: probe_recent,
    KNOWN_NONSTR: probe_nonstring_key,
    KNOWN_NAN: probe_nan,
    KNOWN_HINT: probe_hint,
    KNOWN_CLI_PATH: probe_cli_path,
    KNOWN_CLI_JSON: probe_cli_json,
}

# (shards are started in this order: the one long single shard first, the short ones last)
SUBCHECKS = [
    Sub("atheris", sub_atheris, quick={"runs": 4000}, thorough={"runs": 80000}, shards_quick=1, shards_thorough=4, replay=replay_total),
    Sub("total", sub_total, quick={"n": 500}, thorough={"n": 4000}, shards_quick=4, shards_thorough=16, replay=replay_total),
    Sub("cli", sub_cli, quick={"n": 8}, thorough={"n": 50}, shards_quick=4, shards_thorough=16, replay=replay_cli),
    Sub("hashseed", sub_hashseed, quick={"n": 200}, thorough={"n": 2500}, shards_quick=2, shards_thorough=8, replay=replay_hashseed),
    Sub("leafwise", sub_leafwise, quick={}, thorough={}, shards_quick=4, shards_thorough=8, exhaustive=True, replay=replay_leafwise),
    Sub("runnable", sub_runnable, quick={"n": 75}, thorough={"n": 650}, shards_quick=4, shards_thorough=16, replay=replay_runnable),
]
