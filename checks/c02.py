"""C02 — features behind a closed gate are inert.

Differential: for a gate G, run the same world + step script under (base config) and (base config + an arbitrary
validated subtree for G with G closed).  Everything the property names must be identical and no artefact of the gated
feature may appear.
"""
from __future__ import annotations

import copy
import json
import os

from hypothesis import strategies as st

from harness.runner import Sub, Violation, run_hypothesis, digest
from harness import world, observe

LEVEL = "exploration"
RULE = ("Hypothesis-generated worlds (2 graphs, 4-10 episodes of 3 owners, GEL edges between episodes, 2 agents, optionally an "
        "on-disk embedding store the partition reader could use), 2-5 step scripts (single turns, repeated requests, equal / "
        "sub-second / long clock steps, batches through the agent batch driver, process restarts that boot from the latest "
        "snapshot), validated base configs (retrieval/propagation knobs, other features on or off, shadow traces, forced RAG) "
        "and, per gate in {perf master, parallel (closed 3 ways), GEL, quality, hybrid, reflection, scheduler}, an arbitrary "
        "subtree over EVERY leaf the validator admits below the gate (numbers / booleans also in the string and 0/1 "
        "spellings the validator coerces; the closed flag spelled False/0/'false'/'off'/'no'/null), optionally together "
        "with populated subtrees of other closed gates. Non-trivial = the subtree differs from defaults in >=1 leaf AND "
        "the world gives the gated code work (T1 pops>0 and T2 hits>0 in some turn; >=2 hits and >=1 GEL edge for "
        "GEL/hybrid; >=2 graphs/episodes for parallel; non-empty utterance for reflection). Distinct = (gate, subtree, "
        "world, script).")
ASSUMPTIONS = ["t3.jsonl / t3_plan.jsonl / t3_dialogue.jsonl / gel.jsonl carry raw timings even under CI=true: compared by "
               "record count and by content with ms* fields masked",
               "perf.parallel.* is part of the perf.* subtree: below a closed master switch it is drawn open as well as closed "
               "(agent batch driver: repo fix 8643ca9; T1/T2 stage fan-out is output-identical and its metrics need perf.enabled)",
               "t2.quality.shadow (a perf feature designed to run while quality is off: needs perf.enabled && "
               "perf.metrics.report_memory) is only set inside a closed subtree while the perf master switch is closed; the "
               "two reflection budgets belong to the reflection gate, not the scheduler gate",
               "snapshot sidecars (.meta) excluded (created_at only depends on SOURCE_DATE_EPOCH, which is fixed)",
               "several closed gates populated at once must equal the run omitting all of them (chain of single-gate "
               "differentials, each over a validated base configuration)",
               "engine state = every key of the state dict: store / memory index / GEL graph deeply, JSON-like values by "
               "content, the stage-cache slots by (kind, sizing tuple), other objects by type name",
               "the agent batch driver is entered through orchestrator._run_agents_parallel_batch with a driver context "
               "that carries no encoder (k_surface matches the episode vectors)"]

GATES = ["perf", "parallel", "gel", "quality", "hybrid", "reflection", "scheduler"]

GATED_ARTEFACTS = {
    "gel": ["gel.jsonl"],
    "reflection": ["t3_reflection.jsonl"],
    "scheduler": ["scheduler.jsonl"],
    "perf": ["perf", "-perf.jsonl", "rq_traces.jsonl", "quality"],
    "quality": ["rq_traces.jsonl", "quality"],
    "parallel": [],
    "hybrid": ["t2_hybrid-perf.jsonl"],
}


def opt(d):
    """fixed_dictionaries with every key optional."""
    return st.fixed_dictionaries({}, optional=d)


_B = st.booleans()
_POSINT = st.sampled_from([1, 2, 3, 8, 100])
_NN = st.sampled_from([0, 1, 2, 64, 100000])
_U = st.sampled_from([0.0, 0.1, 0.5, 0.9, 1.0])
# a closed gate flag in every spelling the validator's boolean coercion maps to False
_OFF = st.sampled_from([False, False, False, False, False, False, 0, "false", "off", "no", "0", " False ", None])

PERF_SUB = opt({
    "t1": opt({"queue_cap": _POSINT, "dedupe_window": _POSINT, "cache": opt({"max_entries": _NN, "max_bytes": _NN}),
               "caps": opt({"frontier": _POSINT, "visited": _POSINT})}),
    "t2": opt({"embed_dtype": st.sampled_from(["fp32", "fp16", "FP16"]), "embed_store_dtype": st.sampled_from(["fp32", "fp16", "FP16"]),
               "precompute_norms": _B, "cache": opt({"max_entries": _NN, "max_bytes": _NN}),
               "reader": opt({"partitions": opt({"enabled": _B, "layout": st.sampled_from(["owner_quarter", "none"]),
                                                 "path": st.sampled_from(["./parts", "x", ".data/t2"]),
                                                 "by": st.sampled_from([["owner"], ["owner", "quarter"], ["quarter"]])})})}),
    "snapshots": opt({"compression": st.sampled_from(["none", "zstd", "ZSTD"]), "level": st.sampled_from([1, 3, 19]), "delta_mode": _B,
                      "every_n_turns": _POSINT}),
    "metrics": opt({"report_memory": _B}),
})
PARALLEL_SUB = opt({"max_workers": st.sampled_from([0, 1, 2, 4, 8]), "t1": _B, "t2": _B, "agents": _B})
GEL_SUB = opt({
    "coactivation_threshold": _U, "observe_top_k": _POSINT, "pair_cap_per_obs": _NN,
    "update": opt({"mode": st.sampled_from(["additive", "proportional"]), "alpha": st.sampled_from([0.02, 0.5, 1.0, 5.0]),
                   "clamp_min": st.sampled_from([-1.0, -0.25, 0.0]), "clamp_max": st.sampled_from([0.05, 0.25, 1.0])}),
    "decay": opt({"half_life_turns": _POSINT, "floor": st.sampled_from([0.0, 0.01, 0.5])}),
    "merge": opt({"enabled": _B, "min_size": st.sampled_from([2, 3]), "min_avg_w": _U, "max_diameter": _POSINT, "cap_per_turn": _NN}),
    "split": opt({"enabled": _B, "weak_edge_thresh": _U, "min_component_size": st.sampled_from([2, 3]), "cap_per_turn": _NN}),
    "promotion": opt({"enabled": _B, "label_mode": st.sampled_from(["lexmin", "concat_k"]), "topk_label_ids": _POSINT,
                      "attach_weight": st.sampled_from([-1.0, 0.0, 0.5, 1.0]), "cap_per_turn": _NN}),
})
QUALITY_SUB = opt({
    # "<ROOT>" is replaced by the sandbox directory: an absolute trace directory outside logs/, snap/ and the cwd
    "trace_dir": st.sampled_from(["logs/quality", "qtrace", "<ROOT>/qabs"]), "redact": _B,
    "normalizer": opt({"enabled": _B, "stemmer": st.sampled_from(["none", "porter-lite"]), "min_token_len": _POSINT,
                       "case": st.sampled_from(["lower", "LOWER"]), "unicode": st.sampled_from(["NFKC", "nfkc"]),
                       "stopwords": st.sampled_from(["en-basic", "none"])}),
    "aliasing": opt({"enabled": _B, "max_expansions_per_token": _NN, "map_path": st.sampled_from(["aliases.yaml", "missing.yaml"])}),
    "lexical": opt({"enabled": _B, "bm25_k1": st.sampled_from([0.0, 1.2, 3.0]), "bm25_b": _U, "stopwords": st.sampled_from(["none", "en-basic"]),
                    "bm25": opt({"k1": st.sampled_from([0.0, 1.2, 3.0]), "b": _U, "doclen_floor": _NN})}),
    "fusion": opt({"enabled": _B, "mode": st.just("score_interp"), "alpha_semantic": _U, "score_norm": st.sampled_from(["zscore", "minmax"])}),
    "mmr": opt({"enabled": _B, "lambda": _U, "lambda_relevance": _U, "k": _POSINT, "k_final": _POSINT, "diversity_by_owner": _B,
                "diversity_by_token": _B}),
    "cache": opt({"salt": st.sampled_from(["", "s1"])}),
})
HYBRID_SUB = opt({"use_graph": _B, "anchor_top_m": _POSINT, "walk_hops": st.sampled_from([1, 2]), "edge_threshold": _U,
                  "lambda_graph": _U, "damping": _U, "degree_norm": st.sampled_from(["none", "invdeg"]),
                  "max_bonus": st.sampled_from([0.0, 0.5, 10.0]), "k_max": _POSINT})
REFLECTION_SUB = opt({"backend": st.sampled_from(["rulebased", "llm", "LLM"]), "summary_tokens": st.sampled_from([0, 1, 8, 128]), "embed": _B,
                      "log": _B, "topk_snippets": st.sampled_from([0, 1, 3])})
REFL_BUDGETS = opt({"time_ms_reflection": st.sampled_from([1, 5, 6000, None]), "ops_reflection": st.sampled_from([0, 1, 5, None])})
SCHED_SUB = opt({"policy": st.sampled_from(["round_robin", "fair_queue"]), "quantum_ms": st.sampled_from([1, 20, 100000]),
                 "budgets": opt({"t1_pops": st.sampled_from([0, 1, 2, 64, None]), "t1_iters": _NN, "t2_k": _NN, "t3_ops": _NN,
                                 "wall_ms": st.sampled_from([100000, 200000])}),
                 "fairness": opt({"max_consecutive_turns": _POSINT, "aging_ms": _NN})})


# "Aggressive" presets: subtrees that would visibly change behaviour if the gate were ignored (mixed in 50 %).
AGGRESSIVE = {
    "perf": {"t1": {"caps": {"frontier": 1, "visited": 1}, "dedupe_window": 1, "queue_cap": 1, "cache": {"max_entries": 4, "max_bytes": 100000}},
             "t2": {"cache": {"max_entries": 4, "max_bytes": 100000}, "precompute_norms": True},
             "snapshots": {"compression": "zstd", "delta_mode": True, "every_n_turns": 2}, "metrics": {"report_memory": True}},
    "parallel": {"max_workers": 4, "t1": True, "t2": True, "agents": True},
    "gel": {"coactivation_threshold": 0.0, "observe_top_k": 8, "pair_cap_per_obs": 64, "update": {"alpha": 1.0, "clamp_min": 0.0, "clamp_max": 0.05},
            "decay": {"half_life_turns": 1, "floor": 0.0}, "merge": {"enabled": True, "min_size": 2, "min_avg_w": 0.0, "cap_per_turn": 4},
            "split": {"enabled": True, "weak_edge_thresh": 0.0, "cap_per_turn": 4},
            "promotion": {"enabled": True, "attach_weight": 1.0, "cap_per_turn": 4}},
    "quality": {"fusion": {"enabled": True, "alpha_semantic": 0.0}, "mmr": {"enabled": True, "lambda": 1.0, "k": 8},
                "lexical": {"bm25_k1": 3.0, "stopwords": "none"}, "aliasing": {"enabled": True, "map_path": "aliases.yaml"},
                "normalizer": {"enabled": True, "stemmer": "porter-lite"}},
    "hybrid": {"use_graph": True, "anchor_top_m": 8, "walk_hops": 2, "edge_threshold": 0.0, "lambda_graph": 1.0, "damping": 1.0,
               "max_bonus": 10.0, "k_max": 100},
    "reflection": {"backend": "rulebased", "summary_tokens": 8, "embed": True, "log": True, "topk_snippets": 3},
    "scheduler": {"policy": "fair_queue", "quantum_ms": 1, "budgets": {"t1_pops": 0, "t1_iters": 0, "t2_k": 0, "t3_ops": 0, "wall_ms": 100000},
                  "fairness": {"max_consecutive_turns": 1, "aging_ms": 0}},
}
_SUB_STRATEGY = {"perf": PERF_SUB, "parallel": PARALLEL_SUB, "gel": GEL_SUB, "quality": QUALITY_SUB, "hybrid": HYBRID_SUB,
                 "reflection": REFLECTION_SUB, "scheduler": SCHED_SUB}

# base features that OPEN a gate (a populated closed subtree of that gate cannot be added next to them)
_OPENERS = {"perf": ("perf_on", "trace_on"), "parallel": (), "gel": ("gel_on",), "quality": ("quality_on", "trace_on", "shadow_on"),
            "hybrid": ("hybrid_on",), "reflection": ("reflection_on", "refl_top1", "refl_top2"),
            "scheduler": ("sched_on", "slice_t2k", "slice_t2k2")}

# (feature, probability in percent by default, {gate: probability})
_FEATS = [
    ("perf_on", 24, {"parallel": 50, "quality": 16}),  # metrics keys of a closed feature can only leak into records while the metrics gate is open
    ("gel_on", 12, {"hybrid": 24}), ("hybrid_on", 12, {"gel": 24}), ("quality_on", 8, {}),
    ("reflection_on", 12, {}), ("sched_on", 8, {}), ("t1cache_off", 8, {}), ("t2cache_off", 8, {}), ("t4cache_off", 8, {}),
    ("snippet_template", 16, {}), ("shadow_on", 0, {"perf": 32}),
    # what makes the ORDER of the retrieved hits observable (the dialogue / RAG / GEL layers re-sort hits by raw score; the
    # residual nudges, the slice cap on hits used and the reflection snippets take them in T2's order)
    # (both rerank layers keep the first hit in place: the caps of 2 are the sensitive ones there)
    ("slice_t2k", 8, {}), ("slice_t2k2", 4, {"quality": 28, "hybrid": 28, "scheduler": 0}),
    ("residual_cap1", 8, {"quality": 12, "hybrid": 12}), ("residual_cap2", 4, {"quality": 16, "hybrid": 16}),
    ("refl_top1", 4, {"reflection": 0}), ("refl_top2", 4, {"quality": 36, "hybrid": 36, "reflection": 0}),
    ("trace_on", 8, {"perf": 0, "quality": 0, "hybrid": 24, "gel": 16}), ("rag_always", 8, {}), ("t4_off", 4, {}),
    ("reader_mode", 4, {"perf": 20}),
]


@st.composite
def bases(draw, gate=None):
    """Validated base overrides; never contains the subtree of the gate under test (removed later per gate)."""
    b = {"t1": {}, "t2": {}, "t3": {}, "t4": {}}
    rerank = gate in ("quality", "hybrid")  # the rerank layers need >= 3 hits to have something to permute
    if draw(_B):
        b["t2"]["k_retrieval"] = draw(st.sampled_from([3, 10, 10] if rerank else [1, 2, 3, 10]))
    if draw(_B):
        b["t2"]["sim_threshold"] = draw(st.sampled_from([0.0, 0.0, 0.3] if rerank else [0.0, 0.3, 0.6]))
    if draw(_B):
        b["t2"]["owner_scope"] = draw(st.sampled_from(["any", "any", "agent", "world"] if rerank else ["any", "agent", "world"]))
    if draw(_B):
        b["t1"]["radius_cap"] = draw(st.sampled_from([1, 2, 4]))
    if draw(_B):
        b["t1"]["queue_budget"] = draw(st.sampled_from([2, 5, 10000]))
    feats = []
    for name, p, per_gate in _FEATS:
        p = per_gate.get(gate, p)
        if p and _pct(draw) < p:
            feats.append(name)
    return {"over": b, "feats": sorted(feats)}


def feature_overrides(feats, gate):
    """Overrides switching other features ON (never the gate under test)."""
    o = {}
    if "perf_on" in feats and gate not in ("perf",):
        o = world.deep_merge(o, {"perf": {"enabled": True, "metrics": {"report_memory": True}}})
    if "gel_on" in feats and gate != "gel":
        o = world.deep_merge(o, {"graph": {"enabled": True}})
    if "hybrid_on" in feats and gate != "hybrid":
        o = world.deep_merge(o, {"t2": {"hybrid": {"enabled": True, "lambda_graph": 1.0, "edge_threshold": 0.0}}})
    if "quality_on" in feats and gate not in ("quality",):
        o = world.deep_merge(o, {"t2": {"quality": {"enabled": True, "mmr": {"enabled": True}}}})
    if "shadow_on" in feats and gate == "perf" and "quality_on" not in feats:
        # shadow tracing requested (quality off) on BOTH sides; it is a perf feature (perf.enabled && report_memory), so
        # with the perf master switch closed no trace may appear whatever perf.metrics says
        o = world.deep_merge(o, {"t2": {"quality": {"enabled": False, "shadow": True}}})
    if "trace_on" in feats and gate not in ("perf", "quality") and "quality_on" not in feats:
        # shadow traces legitimately written on BOTH sides (perf + metrics gate open, quality off): rq_traces.jsonl lists the
        # whole ranking with scores, unredacted, so the retrieval order is observable byte for byte
        o = world.deep_merge(o, {"perf": {"enabled": True, "metrics": {"report_memory": True}},
                                 "t2": {"quality": {"enabled": False, "shadow": True, "redact": False}}})
    if "reflection_on" in feats and gate != "reflection":
        o = world.deep_merge(o, {"t3": {"allow_reflection": True}})
    if "sched_on" in feats and gate != "scheduler":
        o = world.deep_merge(o, {"scheduler": {"enabled": True, "quantum_ms": 10 ** 8, "budgets": {"wall_ms": 10 ** 9}}})
    if "caches_off" in feats:  # older replay files
        o = world.deep_merge(o, {"t1": {"cache": {"enabled": False}}, "t2": {"cache": {"enabled": False}}, "t4": {"cache": {"enabled": False}}})
    for f, sec in (("t1cache_off", "t1"), ("t2cache_off", "t2"), ("t4cache_off", "t4")):
        if f in feats:
            o = world.deep_merge(o, {sec: {"cache": {"enabled": False}}})
    for f, cap in (("residual_cap1", 1), ("residual_cap2", 2)):
        if f in feats:
            # `cap` residual nudges per turn: they come from the first hits (in T2's order) whose text names a node label
            o = world.deep_merge(o, {"t2": {"residual_cap_per_turn": cap}})
    for f, k in (("refl_top1", 1), ("refl_top2", 2)):
        if f in feats and gate != "reflection":
            # reflection summarises the utterance plus the FIRST k retrieved snippets (T2's order) into a new memory episode
            o = world.deep_merge(o, {"t3": {"allow_reflection": True, "reflection": {"topk_snippets": k}}})
    if "snippet_template" in feats:
        # the utterance names the three best-scored retrieved episodes (re-sorted by raw score: set, not order, of the hits)
        o = world.deep_merge(o, {"t3": {"dialogue": {"template": "say {labels} | {snippets} | {intent}", "include_top_k_snippets": 3}}})
    for f, k in (("slice_t2k", 1), ("slice_t2k2", 2)):
        if f in feats and gate != "scheduler" and "sched_on" not in feats:
            # slice cap on hits used: the residual nudges (k_residual in t2.jsonl, then T4/apply) depend on which hits come first
            o = world.deep_merge(o, {"scheduler": {"enabled": True, "quantum_ms": 10 ** 8, "budgets": {"wall_ms": 10 ** 9, "t2_k": k}}})
    if "rag_always" in feats:
        # every plan asks for one retrieval refinement: a second T2 pass per turn, its hit ids land in the engine state
        o = world.deep_merge(o, {"t3": {"policy": {"tau_high": 1.0, "tau_low": 1.0}}})
    if "t4_off" in feats:
        o = world.deep_merge(o, {"t4": {"enabled": False}})
    if "reader_mode" in feats:
        # reader mode asks for the partitioned fixture; outside the perf gate this is documented as "flat behaviour"
        o = world.deep_merge(o, {"t2": {"reader": {"mode": "partition"}}})
    return o


_HUNDRED = st.sampled_from(list(range(0, 100, 4)))  # uniform (st.integers favours small values): "_pct(draw) < p" holds with p %


def _pct(draw):
    return draw(_HUNDRED)


def _respell(draw, tree, p=12):
    """Numbers / booleans in the spellings the validator coerces ("4", "0.5", "true", 1): whatever validates must be inert."""
    if isinstance(tree, dict):
        return {k: _respell(draw, v, p) for k, v in tree.items()}
    if isinstance(tree, bool):
        if _pct(draw) < p:
            return draw(st.sampled_from(["true", "on", "yes", 1, "1"] if tree else ["false", "off", "no", 0, "0"]))
        return tree
    if isinstance(tree, (int, float)):
        if _pct(draw) < p:
            return str(tree)
        return tree
    return tree


def _closed_subtree(draw, gate, feats, aggressive, main):
    """Override putting a populated subtree below `gate` with the gate closed."""
    def _d(g=gate):
        return copy.deepcopy(AGGRESSIVE[g]) if aggressive else draw(_SUB_STRATEGY[g])

    if gate == "perf":
        sub = {"perf": world.deep_merge(_respell(draw, _d()), {"enabled": draw(_OFF)})}
        if draw(_B):
            par = _respell(draw, draw(PARALLEL_SUB))
            if draw(_B):
                # perf.parallel.* lies below the master switch as well: an OPEN parallel subtree (agent batch driver, T1/T2
                # stage fan-out) must stay without effect while perf.enabled is off
                par.update({"enabled": draw(st.sampled_from([True, True, "true", 1])), "max_workers": draw(st.sampled_from([2, 4, 8, "4"])),
                            "agents": draw(st.sampled_from([True, True, True, "on", False]))})
            else:
                par["enabled"] = draw(_OFF)
            sub["perf"]["parallel"] = par
    elif gate == "parallel":
        way = draw(st.sampled_from(["enabled_false", "workers_le_1", "all_stage_gates_false"]))
        p = _respell(draw, _d())
        if way == "enabled_false":
            p["enabled"] = draw(_OFF)
        elif way == "workers_le_1":
            p["enabled"] = draw(st.sampled_from([True, True, "true", 1]))
            p["max_workers"] = draw(st.sampled_from([0, 1, 0, 1, -2, "1", "0", None]))
        else:
            p["enabled"] = draw(st.sampled_from([True, True, "on", 1]))
            p.update({"t1": draw(_OFF), "t2": draw(_OFF), "agents": draw(_OFF)})
        sub = {"perf": {"parallel": p}}
    elif gate == "gel":
        sub = {"graph": world.deep_merge(_respell(draw, _d()), {"enabled": draw(_OFF)})}
    elif gate == "quality":
        # shadow tracing also needs perf.enabled && perf.metrics.report_memory: only asked for while the base keeps perf off
        perf_open = any(f in feats for f in _OPENERS["perf"])
        shadow = (not perf_open) and draw(_B)
        sub = {"t2": {"quality": world.deep_merge(_respell(draw, _d()), {"enabled": draw(_OFF), "shadow": shadow})}}
        if shadow and draw(_B):
            sub["t2"]["quality"]["trace_dir"] = draw(st.sampled_from(["logs/quality", "qtrace", "<ROOT>/qabs", "<ROOT>/qabs"]))
        if shadow and main and draw(_B):
            sub["perf"] = {"enabled": draw(_OFF), "metrics": {"report_memory": True}}  # second closed gate, populated as well
    elif gate == "hybrid":
        sub = {"t2": {"hybrid": world.deep_merge(_respell(draw, _d()), {"enabled": draw(_OFF)})}}
    elif gate == "reflection":
        sub = {"t3": {"allow_reflection": draw(_OFF), "reflection": _respell(draw, _d())}}
        rb = draw(REFL_BUDGETS)
        if rb:
            sub["scheduler"] = {"budgets": rb}
    elif gate == "scheduler":
        sub = {"scheduler": world.deep_merge(_respell(draw, _d()), {"enabled": draw(_OFF)})}
    else:  # pragma: no cover
        raise ValueError(gate)
    return sub


@st.composite
def cases(draw, gate=None):
    gate = gate or draw(st.sampled_from(GATES))
    base = draw(bases(gate))
    feats = base["feats"]
    # world
    eps = draw(world.episode_lists(max_eps=10, owners=["A", "B", "world"], allow_missing_ts=False,
                                   ids=["e1", "e2", "e3", "e4", "e5", "e6", "e7", "e8", "e9", "e10"])
               .filter(lambda l: len(l) >= (5 if gate in ("quality", "hybrid") else 0)))
    for e in eps:
        # the engine's own embedders (default query encoder, reflection summaries) are 32-dimensional: pad the bag-of-words
        # vectors so that reflection-written episodes and the batch driver's default encoder live in the same space
        if e.get("vec_full") is not None:
            e["vec_full"] = list(e["vec_full"]) + [0.0] * (_DIM - len(e["vec_full"]))
    graphs = {"g1": draw(world.graph_specs(max_nodes=5, max_edges=6, ids=["a", "b", "c", "d", "e"])),
              "g2": draw(world.graph_specs(max_nodes=4, max_edges=4, ids=["a", "x", "y", "z"]))}
    gel = draw(world.gel_graphs([e["id"] for e in eps])) if draw(st.sampled_from([True, True, False])) else None
    words = [w for e in eps for w in (e.get("text") or "").lower().split()] or world.VOCAB[:4]
    glabels = [n["label"] for g in graphs.values() for n in g["nodes"] if n["label"]]
    n = draw(st.integers(2, 5))
    # (Hypothesis repeats choices: the observed rates are about twice the nominal ones, see the evidence labels)
    p_batch = {"parallel": 24, "perf": 20}.get(gate, 4)
    p_restart = {"gel": 16, "perf": 8}.get(gate, 4)
    script = []

    def _text():
        text_words = draw(st.lists(st.sampled_from(words + world.VOCAB[:4]), min_size=1, max_size=3))
        if glabels:
            text_words.append(draw(st.sampled_from(glabels)))
        return " ".join(text_words)

    for i in range(n):
        adv = draw(st.sampled_from([1000, 60000, 60000, 400000, 0, 1]))  # 0: two turns at one logical instant; 1: sub-second
        if _pct(draw) < p_batch:
            # a batch handed to the agent batch driver (sequential loop while the agents gate is closed)
            agents = draw(st.sampled_from([["A", "B"], ["B", "A"], ["A"], ["A", "A"]]))
            step = {"batch": [[a, _text()] for a in agents], "adv_ms": adv}
        else:
            step = {"agent": draw(st.sampled_from(["A", "B"])), "text": _text(), "adv_ms": adv}
            prev = [s_ for s_ in script if "batch" not in s_]
            if prev and draw(st.sampled_from([True, False])):
                # repeat an earlier request verbatim: gives caches (and their TTLs / budgets) something to do
                step = {"agent": draw(st.sampled_from(prev))["agent"], "text": draw(st.sampled_from(prev))["text"], "adv_ms": adv}
                if draw(_B):
                    step = dict(draw(st.sampled_from(prev)), adv_ms=adv)
                    step.pop("restart", None)
        if i >= 1 and _pct(draw) < p_restart:
            # process restart before this step: a fresh engine state boots from the latest snapshot in the directory
            step["restart"] = True
        script.append(step)
    # on-disk embedding store (what the partition reader would serve from if the perf gate were ignored)
    store = None
    if eps and _pct(draw) < {"perf": 40}.get(gate, 4):
        store = {"root": draw(st.sampled_from(["parts", ".data/t2"])), "layout": draw(st.sampled_from(["flat", "owner_quarter"])),
                 "dtype": draw(st.sampled_from(["fp32", "fp16"])), "norms": draw(_B), "rot": draw(st.integers(1, 3))}
    # gated subtree(s)
    aggressive = draw(_B)
    sub = _closed_subtree(draw, gate, feats, aggressive, True)
    if gate == "perf" and store is not None and _pct(draw) < 75:
        part = {"enabled": draw(st.sampled_from([True, True, "true", 1])), "layout": "owner_quarter" if store["layout"] == "owner_quarter" else "none"}
        if store["root"] != ".data/t2" or draw(_B):
            part["path"] = "./" + store["root"]
        sub["perf"].setdefault("t2", {}).setdefault("reader", {})["partitions"] = part
    extra = []
    if _pct(draw) < 35:
        closed_elsewhere = [g for g in GATES if g != gate and not any(f in feats for f in _OPENERS[g])
                            and not (g == "parallel" and gate == "perf") and not (g == "perf" and gate in ("parallel", "quality"))]
        for g in draw(st.lists(st.sampled_from(closed_elsewhere), max_size=2, unique=True)) if closed_elsewhere else []:
            extra.append([g, _closed_subtree(draw, g, feats + (["quality_closed"] if gate == "quality" else []), draw(_B), False)])
    case = {"gate": gate, "base": base, "sub": sub, "eps": eps, "graphs": graphs, "gel": gel, "script": script}
    # how the planner asks for a reflection pass: flag stashed on the state (LLM policy path), Plan.reflection on the plan
    # object (a planner installed through the orchestrator's t3_deliberate hook), or both
    case["plan_channel"] = draw(st.sampled_from(["state", "state", "plan", "plan", "both"]))
    if extra:
        case["extra"] = extra
    if store is not None:
        case["store"] = store
    return case


# ---------------------------------------------------------------- running

_MS_KEYS = ("ms", "ms_plan", "ms_rag", "ms_speak", "ms_deliberate", "now")
_DEEP_KEYS = ("store", "mem_index", "memory_index", "graph", "version_etag", "active_graphs", "meta", "_chat_last_retrieved",
              "_planner_reflection_flag")  # covered by observe.state_digest
_AGENT_GRAPHS = {"A": ["g1"], "B": ["g1", "g2"]}
_DIM = 32  # clematis' default k_surface and the dimension of the reflection embedder


def _dim(case):
    for e in case["eps"]:
        if e.get("vec_full") is not None:
            return len(e["vec_full"])
    return _DIM


def _encoder(case):
    """Bag-of-words over VOCAB, zero-padded to the dimension of the episode vectors (older replay files: 12)."""
    d = _dim(case)
    return world.BowEncoder(world.VOCAB + [f"~pad{i}~" for i in range(max(0, d - len(world.VOCAB)))])
_ALIASES = "apple: pear\nkiwi: fig plum\npea: nut\n"


def _mask_t3(data: bytes) -> list:
    out = []
    for ln in data.splitlines():
        try:
            o = json.loads(ln)
            for k in _MS_KEYS:
                o.pop(k, None)
            out.append(o)
        except Exception:
            out.append(ln.decode("utf-8", "replace"))
    return out


def _safe_plain(v, depth=0):
    """JSON-like values by content, anything else by type name (no object reprs: they carry addresses)."""
    if v is None or isinstance(v, (bool, int, float, str)):
        return v
    if depth > 6:
        return f"<{type(v).__name__}>"
    if isinstance(v, dict):
        return {str(k): _safe_plain(x, depth + 1) for k, x in sorted(v.items(), key=lambda kv: str(kv[0]))}
    if isinstance(v, (list, tuple)):
        return [_safe_plain(x, depth + 1) for x in v]
    return f"<{type(v).__name__}>"


def _state_rest(state: dict):
    """Every key of the state dict that observe.state_digest does not look into."""
    out = {"keys": sorted(str(k) for k in state.keys())}
    for k in sorted(state.keys(), key=str):
        if k in _DEEP_KEYS:
            continue
        v = state[k]
        if k == "_stage_caches" and isinstance(v, dict):
            slots = {}
            for name in sorted(v.keys(), key=str):
                slot = v[name]
                if isinstance(slot, tuple) and len(slot) == 3:
                    slots[str(name)] = [_safe_plain(slot[1]), _safe_plain(slot[2]), type(slot[0]).__name__]  # sizing tuple, kind, class
                else:
                    slots[str(name)] = _safe_plain(slot)
            out[str(k)] = slots
        elif k == "_cache_mgr":
            out[str(k)] = [type(v).__name__, _safe_plain(getattr(v, "stats", None))]
        else:
            out[str(k)] = _safe_plain(v)
    return out


def _subst_root(obj, root):
    if isinstance(obj, dict):
        return {k: _subst_root(v, root) for k, v in obj.items()}
    if isinstance(obj, list):
        return [_subst_root(v, root) for v in obj]
    if isinstance(obj, str) and "<ROOT>" in obj:
        return obj.replace("<ROOT>", root)
    return obj


def _write_store(case, cwd):
    """Embedding shards on disk (public writer of the engine): every episode id, but the vectors rotated between the
    episodes, so a retrieval served from here is visibly different from the in-memory index."""
    import numpy as np
    from clematis.engine.util.embed_store import write_shard

    spec = case["store"]
    enc = _encoder(case)
    ids = [str(e["id"]) for e in case["eps"]]
    vecs = [enc.vec(e.get("text") or "") for e in case["eps"]]
    rot = int(spec.get("rot", 1)) % max(1, len(vecs))
    vecs = vecs[rot:] + vecs[:rot]
    root = os.path.join(cwd, spec["root"])
    if spec.get("layout") == "owner_quarter":
        half = max(1, len(ids) // 2)
        parts = [("A", "2025Q2", ids[:half], vecs[:half]), ("world", "2025Q1", ids[half:], vecs[half:])]
        for owner, quarter, i_, v_ in parts:
            if i_:
                write_shard(os.path.join(root, owner, quarter, "s0"), i_, np.asarray(v_, dtype=np.float32), dtype=spec.get("dtype", "fp32"),
                            precompute_norms=bool(spec.get("norms")))
    else:
        write_shard(root, ids, np.asarray(vecs, dtype=np.float32), dtype=spec.get("dtype", "fp32"), precompute_norms=bool(spec.get("norms")))


def _tree(root: str):
    """relative path -> bytes for every file below the sandbox directory."""
    return observe.read_tree(root, ".")


def _reflective_planner(ctx, state, bundle):
    """Rule-based plan whose planner recommends a reflection pass (Plan.reflection=True)."""
    import dataclasses
    from clematis.engine.stages.t3 import deliberate

    return dataclasses.replace(deliberate(bundle), reflection=True)


def _fresh_state(w, channel="state"):
    st_ = observe.build_state(w)
    if channel in ("state", "both"):
        st_["_planner_reflection_flag"] = True  # plan flag forced through the documented state channel
    st_["graphs_by_agent"] = {a: list(g) for a, g in _AGENT_GRAPHS.items()}  # what the batch driver resolves agents' graphs from
    return st_


def run_script(case, overrides):
    """Returns the observation of running the script under `overrides`."""
    import clematis.engine.orchestrator as orch

    channel = case.get("plan_channel", "state")
    hook = channel in ("plan", "both")
    if hook:
        orch.t3_deliberate = _reflective_planner  # the orchestrator's documented planner hook
    try:
        return _run_script(case, overrides, channel)
    finally:
        if hook:
            for mod in (orch, orch._core):
                if getattr(mod, "t3_deliberate", None) is _reflective_planner:
                    delattr(mod, "t3_deliberate")


def _run_script(case, overrides, channel):
    world.reset_engine_globals()
    with world.sandbox() as root:
        w = {"graphs": case["graphs"], "eps": case["eps"], "gel": case["gel"], "agents": _AGENT_GRAPHS}
        eng = observe.Engine(w, root, encoder=_encoder(case))
        eng.state = _fresh_state(w, channel)
        cwd = os.path.join(root, "cwd")
        with open(os.path.join(cwd, "aliases.yaml"), "w", encoding="utf-8") as f:
            f.write(_ALIASES)
        if case.get("store"):
            _write_store(case, cwd)
        fixtures = sorted(p for p in _tree(root))
        cfg = eng.cfg(_subst_root(overrides, root))
        obs = {"lines": [], "digests": [], "rest": [], "exc": None, "work": {"t1": False, "t2": 0, "utter": False}}
        now = world.NOW_MS
        for i, st_ in enumerate(case["script"], 1):
            now += int(st_.get("adv_ms", 60000))
            if st_.get("restart"):
                eng.state = _fresh_state(w, channel)
                eng.state["_boot_loaded"] = False  # the next turn boots from the latest snapshot, like a new process
            if "batch" in st_:
                lines, exc = _run_batch(eng, cfg, [tuple(t) for t in st_["batch"]], i, now)
                if exc is not None:
                    obs["exc"] = f"step {i} (batch): {exc}"
                    break
                obs["lines"].append(lines)
                if any(lines):
                    obs["work"]["utter"] = True
            else:
                r = eng.turn(st_["agent"], st_["text"], cfg, i, now)
                if r["exc"] is not None:
                    obs["exc"] = f"turn {i}: {r['exc']}"
                    break
                obs["lines"].append(r["line"])
                if r.get("t1") and (r["t1"]["counters"].get("pops") or 0) > 0:
                    obs["work"]["t1"] = True
                if r.get("t2"):
                    obs["work"]["t2"] = max(obs["work"]["t2"], len(r["t2"]["retrieved"]))
                if r["line"]:
                    obs["work"]["utter"] = True
            obs["digests"].append(observe.state_digest(eng.state))
            obs["rest"].append(_state_rest(eng.state))
        logs = eng.logs()
        for ln in logs.get("t1.jsonl", b"").splitlines():
            if (json.loads(ln).get("pops") or 0) > 0:
                obs["work"]["t1"] = True
        for ln in logs.get("t2.jsonl", b"").splitlines():
            obs["work"]["t2"] = max(obs["work"]["t2"], int(json.loads(ln).get("k_returned") or 0))
        obs["canonical"] = observe.canonical(logs)
        obs["t3"] = {k: _mask_t3(v) for k, v in logs.items() if k in observe.NONCANONICAL_TIMED}
        obs["other_logs"] = {k: (observe.mask_scheduler(v) if k == "scheduler.jsonl" else v) for k, v in logs.items()
                             if k not in observe.CANONICAL and k not in observe.NONCANONICAL_TIMED}  # consumed.ms is wall time
        obs["snap_bodies"] = {k: v for k, v in eng.snaps().items() if not k.endswith(".meta")}
        tree = _tree(root)
        obs["listing"] = sorted(tree)
        obs["written"] = sorted(p for p in tree if p not in fixtures)
        # everything outside the log and snapshot directories (working directory, absolute trace dirs): byte for byte
        obs["elsewhere"] = {p: v for p, v in tree.items() if not p.startswith(("logs/", "snap/"))}
        obs["normalized_cfg"] = json.loads(json.dumps(cfg, default=repr))
        return obs


def _run_batch(eng, cfg, tasks, turn_id, now_ms):
    import clematis.engine.orchestrator as orch
    import clematis.engine.util.io_logging as iol

    ctx = world.make_ctx(cfg, agent="driver", turn_id=turn_id, now_ms=now_ms)
    try:
        res = orch._run_agents_parallel_batch(ctx, eng.state, list(tasks))
        return [r.line for r in res], None
    except Exception as e:  # the caller compares both sides
        return None, f"{type(e).__name__}: {e}"
    finally:
        iol.disable_staging()


def _all_subs(case):
    return [(case["gate"], case["sub"])] + [(g, s_) for g, s_ in (case.get("extra") or [])]


def check_case(case, rec=None):
    gate = case["gate"]
    base_over = world.deep_merge(case["base"]["over"], feature_overrides(case["base"]["feats"], gate))
    if any("batch" in s_ for s_ in case["script"]) and _dim(case) != _DIM:
        base_over = world.deep_merge(base_over, {"k_surface": _dim(case)})  # the driver's contexts use the default encoder
    with_over = base_over
    for _, sub in _all_subs(case):
        with_over = world.deep_merge(with_over, sub)
    from clematis.errors import ConfigError
    try:
        world.validated_cfg(copy.deepcopy(with_over))
        world.validated_cfg(copy.deepcopy(base_over))
    except ConfigError:
        # cross-field constraint of the validator (e.g. split.weak_edge_thresh <= merge.min_avg_w): out of domain
        if rec is not None:
            rec.label(f"cfg_rejected[{gate}]")
        return
    a = run_script(case, base_over)
    b = run_script(case, with_over)
    if a["exc"] or b["exc"]:
        if a["exc"] != b["exc"]:
            raise Violation(f"gate {gate} closed: the run with the subtree raised {b['exc']!r}, without it {a['exc']!r}", case, f"{gate}:raises")
        if rec is not None:
            rec.label("both_raise")
        return  # both fail identically: not this property's business (C14 runnability)
    if a["lines"] != b["lines"]:
        raise Violation(f"gate {gate} closed: utterances differ {a['lines']} vs {b['lines']}", case, f"{gate}:utterance")
    for name in sorted(set(a["canonical"]) | set(b["canonical"])):
        if a["canonical"].get(name) != b["canonical"].get(name):
            la = (a["canonical"].get(name) or b"").splitlines()
            lb = (b["canonical"].get(name) or b"").splitlines()
            diff = next(((x, y) for x, y in zip(la, lb) if x != y), (la[len(lb):len(lb) + 1], lb[len(la):len(la) + 1]))
            raise Violation(f"gate {gate} closed: {name} differs: {diff[0]!r} vs {diff[1]!r}", case, f"{gate}:{name}")
    if a["snap_bodies"] != b["snap_bodies"]:
        k = next(k for k in sorted(set(a["snap_bodies"]) | set(b["snap_bodies"])) if a["snap_bodies"].get(k) != b["snap_bodies"].get(k))
        raise Violation(f"gate {gate} closed: snapshot body {k} differs", case, f"{gate}:snapshot")
    for i, (da, db) in enumerate(zip(a["digests"], b["digests"]), 1):
        if da != db:
            keys = [k for k in set(da) | set(db) if da.get(k) != db.get(k)]
            raise Violation(f"gate {gate} closed: engine state after step {i} differs in {keys}", case, f"{gate}:state")
    for i, (ra, rb) in enumerate(zip(a["rest"], b["rest"]), 1):
        if ra != rb:
            keys = sorted(k for k in set(ra) | set(rb) if ra.get(k) != rb.get(k))
            raise Violation(f"gate {gate} closed: engine state after step {i} differs in {keys}: "
                            f"{[ra.get(k) for k in keys][:2]} vs {[rb.get(k) for k in keys][:2]}", case, f"{gate}:state-keys")
    if a["listing"] != b["listing"]:
        raise Violation(f"gate {gate} closed: files written differ: only without {sorted(set(a['listing']) - set(b['listing']))}, "
                        f"only with {sorted(set(b['listing']) - set(a['listing']))}", case, f"{gate}:listing")
    if a["t3"] != b["t3"]:
        k = sorted(k for k in set(a["t3"]) | set(b["t3"]) if a["t3"].get(k) != b["t3"].get(k))
        raise Violation(f"gate {gate} closed: streams {k} differ (timings masked)", case, f"{gate}:t3")
    if a["other_logs"] != b["other_logs"]:
        raise Violation(f"gate {gate} closed: non-canonical streams differ: {sorted(k for k in set(a['other_logs']) | set(b['other_logs']) if a['other_logs'].get(k) != b['other_logs'].get(k))}", case, f"{gate}:other-logs")
    if a["elsewhere"] != b["elsewhere"]:
        k = sorted(k for k in set(a["elsewhere"]) | set(b["elsewhere"]) if a["elsewhere"].get(k) != b["elsewhere"].get(k))
        raise Violation(f"gate {gate} closed: files outside the log/snapshot directories differ: {k}", case, f"{gate}:files")
    # no artefact of a closed feature anywhere below the sandbox (log dir, snapshot dir, working directory, trace dirs)
    for g, _ in _all_subs(case):
        for pat in GATED_ARTEFACTS[g]:
            hits = [p for p in b["written"] if pat in (p.split("/", 1)[1] if "/" in p else p)]
            if g in ("perf", "quality") and any(f in case["base"]["feats"] for f in ("trace_on",)) and g != gate:
                continue
            if hits:
                raise Violation(f"gate {g} closed but artefact(s) {hits} were written", case, f"{g}:artefact")
    # validator does not materialise blocks the user did not supply
    if "perf" not in base_over and "perf" in a["normalized_cfg"]:
        raise Violation("validator materialised a perf block the user did not supply", case, "validator-materialises-perf")
    if "quality" not in (base_over.get("t2") or {}) and "quality" in (a["normalized_cfg"].get("t2") or {}):
        raise Violation("validator materialised a t2.quality block the user did not supply", case, "validator-materialises-quality")

    if rec is not None:
        w = a["work"]
        nondefault = bool(_strip_gate_flag(case["sub"], gate))
        work = w["t1"] and w["t2"] > 0
        if gate in ("gel", "hybrid"):
            work = work and w["t2"] >= 2 and bool((case["gel"] or {}).get("edges"))
        if gate == "parallel":
            work = work and len(case["eps"]) >= 2
        if gate == "reflection":
            work = work and w["utter"]
        nt = nondefault and work
        labels = [f"gate={gate}"] + (["work"] if work else []) + (["nondefault"] if nondefault else []) + [f"feats={len(case['base']['feats'])}"]
        labels += [f"feat:{f}" for f in case["base"]["feats"]]
        labels += _dimension_labels(case)
        rec.case(nontrivial=nt, dig=digest(case) if nt else None, labels=labels,
                 sample={"gate": gate, "sub": case["sub"], "feats": case["base"]["feats"], "script": case["script"],
                         "lines": a["lines"]} if nt else None)


def _leaves(tree, prefix=""):
    if isinstance(tree, dict):
        for k, v in tree.items():
            yield from _leaves(v, f"{prefix}.{k}" if prefix else str(k))
    else:
        yield prefix, tree


def _dimension_labels(case):
    """One label per generated dimension, so its frequency shows in the evidence histogram."""
    out = []
    script = case["script"]
    if any("batch" in s_ for s_ in script):
        out.append("step:batch")
    if any(s_.get("restart") for s_ in script):
        out.append("step:restart")
    if any(s_.get("adv_ms") == 0 for s_ in script):
        out.append("clock:equal")
    if any(s_.get("adv_ms") == 1 for s_ in script):
        out.append("clock:sub_second")
    singles = [(s_["agent"], s_["text"]) for s_ in script if "batch" not in s_]
    if len(set(singles)) < len(singles):
        out.append("step:repeat")
    if case.get("store"):
        out.append(f"store:{case['store']['layout']}")
    for g, _ in (case.get("extra") or []):
        out.append(f"extra_closed:{g}")
    out.append(f"plan_channel:{case.get('plan_channel', 'state')}")
    spelled = flag = False
    for path, v in _leaves(case["sub"]):
        leaf = path.rsplit(".", 1)[-1]
        if leaf in ("enabled", "allow_reflection") and not path.endswith(("merge.enabled", "split.enabled", "promotion.enabled", "partitions.enabled",
                                                                           "normalizer.enabled", "aliasing.enabled", "lexical.enabled", "fusion.enabled", "mmr.enabled")):
            if v is not False and v is not True:
                flag = True
        elif isinstance(v, str) and (v.lstrip("-").replace(".", "", 1).isdigit() or v in ("true", "on", "yes", "false", "off", "no")):
            spelled = True
    if flag:
        out.append("flag:spelled")
    if spelled:
        out.append("leaf:spelled")
    if case["gate"] == "parallel":
        p = case["sub"]["perf"]["parallel"]
        try:
            mw = int(p.get("max_workers") or 0)
        except Exception:
            mw = 0
        stage_open = any(p.get(k) in (True, "true", "on", "yes", 1, "1") for k in ("t1", "t2", "agents"))
        en = p.get("enabled") in (True, "true", "on", "yes", 1, "1")
        out.append("parallel:" + ("flag_off" if not en else "workers_le_1" if mw <= 1 else "stage_gates_off" if not stage_open else "?"))
        if en and mw > 1 and "perf_on" in case["base"]["feats"]:
            out.append("parallel:stage_gates_off+metrics")
    if case["gate"] == "perf":
        par = case["sub"]["perf"].get("parallel") or {}
        if par.get("enabled") in (True, "true", "on", "yes", 1, "1"):
            out.append("perf:parallel_open" + ("+batch" if any("batch" in s_ for s_ in script) and par.get("agents") in (True, "true", "on", "yes", 1, "1") else ""))
        part = (((case["sub"]["perf"].get("t2") or {}).get("reader") or {}).get("partitions") or {})
        if case.get("store") and part.get("enabled") in (True, "true", 1):
            out.append("perf:reader_on_store")
    q = ((case["sub"].get("t2") or {}).get("quality") or {})
    if q.get("shadow"):
        out.append("quality:shadow")
    if str(q.get("trace_dir", "")).startswith("<ROOT>"):
        out.append("quality:abs_trace_dir")
    return out


def _strip_gate_flag(sub, gate):
    s = copy.deepcopy(sub)

    def rm(d, path):
        for k in path[:-1]:
            d = d.get(k, {})
        d.pop(path[-1], None)

    rm(s, ["perf", "enabled"])
    rm(s, ["perf", "parallel", "enabled"])
    rm(s, ["graph", "enabled"])
    rm(s, ["t2", "quality", "enabled"])
    rm(s, ["t2", "quality", "shadow"])
    rm(s, ["t2", "hybrid", "enabled"])
    rm(s, ["t3", "allow_reflection"])
    rm(s, ["scheduler", "enabled"])

    def empty(x):
        return not x if not isinstance(x, dict) else all(empty(v) for v in x.values())
    return None if empty(s) else s


def sub_gates(rec, seed, shard, nshards, n=30, shrink=True):
    # one gate per shard (round robin) so every gate gets its share
    gate = GATES[shard % len(GATES)]
    run_hypothesis(rec, seed, cases(gate=gate), lambda c: check_case(c, rec), max_examples=n, shrink=shrink, name=f"gate[{gate}]")


def replay_case(case):
    from checks.c03 import _fix_floats
    check_case(_fix_floats(case), None)


SUBCHECKS = [
    Sub("gates", sub_gates, quick={"n": 250}, thorough={"n": 1500}, shards_quick=7, shards_thorough=14, replay=replay_case),
]
