#!/bin/sh
# tools/run_all.sh [tier]  — run every registered check once; print one line each and the exit code
cd "$(dirname "$0")/.."
TIER="${1:-quick}"
for pid in $(python3 -c "import json;print(' '.join(c['property_id'] for c in json.load(open('MANIFEST.json'))['checks']))"); do
  out=$(./vcheck run $pid --tier $TIER 2>&1); rc=$?
  echo "rc=$rc $(echo "$out" | grep -c VIOLATION) viol | $(echo "$out" | tail -1 | cut -c1-160)"
done
