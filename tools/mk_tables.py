#!/usr/bin/env python3
"""Prints the markdown tables for DESIGN.md §7.3/7.4 from seeded/*/meta.json and mutants/RESULTS.md."""
import glob, json, os, re
HERE = os.path.dirname(os.path.dirname(os.path.abspath(__file__)))
import sys
COMPACT = "--compact" in sys.argv
if COMPACT:
    print("| seed | file(s) changed | what the change does | quick tier, seed 1 |")
    print("|---|---|---|---|")
    for d in sorted(glob.glob(os.path.join(HERE, "seeded", "C*"))):
        try:
            m = json.load(open(os.path.join(d, "meta.json")))
        except Exception:
            continue
        v = m.get("verified", {})
        summ = re.sub(r"\s+", " ", str(m.get("summary", ""))).replace("|", "/")
        summ = summ[:170] + ("…" if len(summ) > 170 else "")
        files = ", ".join(os.path.basename(f) for f in m.get("files", []))
        print(f"| {os.path.basename(d)} | {files} | {summ} | {v.get('quick_check_result')} |")
    sys.exit(0)
print("| seed | property | what the change does (one line) | needs | quick tier |")
print("|---|---|---|---|---|")
for d in sorted(glob.glob(os.path.join(HERE, "seeded", "C*"))):
    try:
        m = json.load(open(os.path.join(d, "meta.json")))
    except Exception:
        continue
    v = m.get("verified", {})
    summ = re.sub(r"\s+", " ", str(m.get("summary", "")))[:230]
    needs = re.sub(r"\s+", " ", str(m.get("needs", "")))[:200]
    print(f"| {os.path.basename(d)} | {m.get('property')} | {summ} | {needs} | {v.get('quick_check_result')} |")
print()
res = os.path.join(HERE, "mutants", "RESULTS.md")
if os.path.exists(res):
    rows = [l for l in open(res) if l.startswith("| C")]
    by = {}
    for l in rows:
        _, pid, name, r, _ = [x.strip() for x in l.split("|")]
        by.setdefault(pid, []).append((name, r))
    print("| property | mutants | caught | not caught |")
    print("|---|---|---|---|")
    for pid in sorted(by):
        c = [n for n, r in by[pid] if r == "caught"]
        m_ = [f"{n} ({r})" for n, r in by[pid] if r != "caught"]
        print(f"| {pid} | {len(by[pid])} | {len(c)} | {', '.join(m_) or '-'} |")
