"""C16 — log streams stay well-formed, ordered and lossless.

Sub-checks (each with its own generator + oracle):
  append             sequential appends through every public entry point (+ LogMux capture/flush): one complete
                     LF-terminated JSON line per record, parses back to the (CI-normalised) record
  append_concurrent  P forked processes x T threads x R tagged records on shared files, lines up to 200 KB:
                     line count, every line complete and intact, per-writer seq strictly increasing
  normalize          CI identity normalisation vs a docs-derived reference: only volatile fields, idempotent, pure
  stager_sort        LogStager.drain_sorted == reference sort (permutation, composite key, stable), buffer reset
  stager_protocol    stage -> BACKPRESSURE -> drain -> flush -> retry, exactly as the batch driver does it, over a
                     ladder of byte limits: nothing lost/duplicated, per-file on-disk sequence limit-independent
  stager_driver      the same through the real `_run_agents_parallel_batch` with a generated compute stub
  compaction         rewrite_jsonl: canonical lines == normalised records in order; old-or-new under a kill
  rotation           histories of append/rotate over directories with pre-existing generations vs reference model
  rotation_crash     every kill point between rotation steps (forked child, os._exit) + a subsequent rotation
  bulk               one writer, 1000..10000 (thorough: ..65537) tiny records through one capture / staged batch /
                     the driver's capture+stage+flush / plain appends / one rewrite: per stream exactly its records,
                     once each, in emission order
"""
from __future__ import annotations

import contextlib
import copy
import errno
import fnmatch
import io
import json
import os
import random
import shutil
import sys
import tempfile
import threading
from types import SimpleNamespace as SNS

from hypothesis import strategies as st

from harness.runner import Sub, Violation, run_hypothesis, digest
from harness.models import lognorm, rotate as rotmodel, stager as stmodel

LEVEL = "exploration"
RULE = ("Hypothesis-generated records (nested JSON, unicode incl. astral/U+2028, control chars, 70-130 KB strings, "
        "volatile field names at arbitrary key positions) over all documented stream names; seeded concurrent rounds "
        "(forked processes x threads, line sizes around the 8 KB buffer, the 64 KB pipe size and up to 200 KB); "
        "arrival lists/batches with byte-limit ladders through the exact size-estimate boundaries; rotation "
        "histories built while simulating the reference model (thresholds on/around real sizes, gaps, extras, "
        "look-alike names); kill points enumerated exhaustively per directory. Non-trivial: append = record that is "
        "nested or has unicode/control/big strings; concurrent round = >=2 writers and >=1 line > 64 KB; normalize = "
        "CI on, identity/reflection stream, >=1 volatile field present; stager = >=2 files and >=1 successful "
        "back-pressure flush (sort: >=3 records with a key tie on (turn, stage, slice)); compaction = >=2 records "
        "replacing old content; rotation = >=2 effective rotations and a pre-existing generation; crash = "
        "kill point inside a cascade of >=2 steps. Distinct = digest of the whole case. "
        "Hardening dimensions (each with its own label): CI spellings True/TRUE/false/0; the same record appended/"
        "captured/staged/rewritten several times; unserialisable records offered to the writers and to a rewrite; "
        "volatile field NAMES one level down; turn/slice/seq values across digit boundaries (9|10, 99|100) and one "
        "string turn id per batch; turn-level fields and 150-1200 char blobs in staged payloads with limits at exact "
        "fill levels; writers that capture in their own LogMux / stage in their own LogStager among the concurrent "
        "appenders, lines > 1 MiB; 1000+ records per rewrite, appends after a rewrite and after rotations through "
        "the engine's own writer in the same process; rotation with 9..101 backups over 8..13 (+20s, +100s) "
        "pre-existing generations; bulk: every (path kind x size in 1000/4095/4096/4097/5000/10000) once per run, "
        "thorough adds powers of two +-1 up to 65537 and random sizes.")
ASSUMPTIONS = [
    "records are JSON-shaped dicts (str keys, finite floats, no lone surrogates): other values are outside "
    "'records appended to a JSONL stream'",
    "volatile fields (from normalize_for_identity's docstring, docs/m9/overview.md, docs/refactors/PR76, "
    "docs/m10/reflection.md): identity streams t1/t2/t4/apply/turn: `ms` -> 0.0, `now` dropped; turn.jsonl also "
    "`durations_ms` values -> 0.0 and `yielded`/`slice_idx` dropped when `yielded` is falsy; t3_reflection.jsonl: "
    "only `ms` -> 0.0; every other stream untouched; active only when CI=true (unset/empty => identity)",
    "generated `yielded` is True/False/None/absent and `slice_idx` an int/None (what core.py writes); "
    "durations_ms/yielded/slice_idx are not generated on t1/t2/t4/apply records (docs ambiguous there)",
    "stream order table and unknown=99 transcribed from docs/m9/overview.md + README (t3_reflection=10)",
    "limit-independence of the per-file sequence is claimed only for arrivals whose (turn, slice) never decreases "
    "per file (everything the batch driver can produce); arbitrary arrivals are checked for conservation and "
    "chunk-wise sortedness only",
    "rotation reference = documented slot scheme with N = --backups ('how many backup generations to keep'; the "
    "module docstring's `backups-1` arithmetic contradicts the help text, the code and tests/test_log_rotation.py): "
    "slot N dropped, k->k+1, live->1, slots beyond N and look-alike names untouched; patterns only match live files",
    "crash model: the process dies between two Python-visible os.remove/os.replace/os.rename/os.unlink calls "
    "(fork + os._exit); concurrent-writer schedules are sampled, their oracle is schedule independent",
    "local POSIX file system with atomic O_APPEND writes and atomic rename (what the sandbox provides)",
    "CI switch: 'true' in any letter case is on (every reader of the flag in the repo lower-cases it), anything else "
    "incl. 'false'/'0' is off",
    "a record json/utf-8 cannot serialise is not 'a record appended': the writer may raise TypeError/ValueError (it "
    "does) or write one valid line; either way the stream stays well-formed, the records around it stay intact, and "
    "a rewrite that raises leaves the old file",
    "one turn id per staged batch may be a string (`int | str` in _clone_ctx_for_agent/_sort_turn_buffers, '-' is "
    "core.py's default); mixed int/str ids inside one stager are not generated (no caller produces them)",
    "LogMux capture and LogStager state are per thread/context (ContextVar): a writer thread's own capture or staging "
    "must not see or disturb other threads' appends",
]

BACKPRESSURE = "LOG_STAGING_BACKPRESSURE"
F_STAGER = "stager-limit-below-record"
F_ROT_ERR = "rotate-error-deletes-generation"

IDENT = list(lognorm.IDENTITY_STREAMS)
OTHER_STREAMS = ["t3_reflection.jsonl", "t3.jsonl", "t3_plan.jsonl", "t3_dialogue.jsonl", "health.jsonl",
                 "scheduler.jsonl", "gel.jsonl", "custom.jsonl", "turn.jsonl.1", "T1.jsonl", "xt1.jsonl", "t1.json"]
ALL_STREAMS = IDENT + OTHER_STREAMS


# ================================================================================================
# sandbox / small helpers
# ================================================================================================

@contextlib.contextmanager
def sandbox(ci):
    """Fresh log dir (with a `sub/` directory), CI env set as requested; everything restored/removed after."""
    d = tempfile.mkdtemp(prefix="c16_")
    logs = os.path.join(d, "logs")
    os.makedirs(os.path.join(logs, "sub"))
    keys = ("CI", "CLEMATIS_LOG_DIR", "CLEMATIS_LOGS_DIR")
    saved = {k: os.environ.get(k) for k in keys}
    os.environ["CLEMATIS_LOG_DIR"] = logs
    os.environ.pop("CLEMATIS_LOGS_DIR", None)
    if ci is None:
        os.environ.pop("CI", None)
    else:
        os.environ["CI"] = ci
    try:
        yield logs
    finally:
        for k, v in saved.items():
            if v is None:
                os.environ.pop(k, None)
            else:
                os.environ[k] = v
        shutil.rmtree(d, ignore_errors=True)


@contextlib.contextmanager
def ci_env(ci):
    saved = os.environ.get("CI")
    if ci is None:
        os.environ.pop("CI", None)
    else:
        os.environ["CI"] = ci
    try:
        yield
    finally:
        if saved is None:
            os.environ.pop("CI", None)
        else:
            os.environ["CI"] = saved


def read_tree(root):
    """{relative posix name: bytes} of every regular file under root."""
    out = {}
    for dp, _dn, fns in os.walk(root):
        for fn in fns:
            p = os.path.join(dp, fn)
            with open(p, "rb") as f:
                out[os.path.relpath(p, root).replace(os.sep, "/")] = f.read()
    return out


def parse_lines(data, case, what):
    """Split a JSONL byte string into parsed records; raises Violation on any malformed framing."""
    if data == b"":
        return []
    if not data.endswith(b"\n"):
        raise Violation(f"{what}: last line is not LF-terminated (tail {data[-40:]!r})", case, "no-trailing-lf")
    if b"\r" in data:
        raise Violation(f"{what}: raw CR byte in a JSONL file", case, "raw-cr")
    out = []
    for i, ln in enumerate(data.split(b"\n")[:-1]):
        try:
            out.append(json.loads(ln.decode("utf-8")))
        except (ValueError, UnicodeDecodeError) as e:
            raise Violation(f"{what}: line {i} is not one complete JSON document ({type(e).__name__}; "
                            f"len={len(ln)} head={ln[:60]!r})", case, "torn-line")
    return out


def _shorten(x, n=120):
    s = repr(x)
    return s if len(s) <= n else s[:n] + f"...(+{len(s) - n})"


# ================================================================================================
# strategies: JSON records
# ================================================================================================

NASTY = ["\n", "\r\n", "\r", "a\nb", "\u2028\u2029", "\x00\x01\x1f", "\x7f\x85", "\"\\", "\\n", "é漢字", "🙂𝄞",
         "\ufeff", "{\"a\":1}\n", " ", "", "\t", "\u0000"]
_chars = st.characters(exclude_categories=("Cs",))
_small_text = st.one_of(st.text(_chars, max_size=12), st.sampled_from(NASTY),
                        st.text(st.sampled_from("ab\n\r\"\\é漢🙂\x00\u2028"), max_size=10))
_big_text = st.builds(lambda ch, n: ch * n, st.sampled_from(["x", "é", "漢", "🙂", "\n", "\"", "a\r\n"]),
                      st.sampled_from([70_000, 100_000, 131_072]))
_keys = st.one_of(st.text(_chars, max_size=6), st.sampled_from(["a", "b", "id", "", "é", "k\n", "now2", "MS"]))
_leaf = st.one_of(st.none(), st.booleans(), st.integers(-2 ** 70, 2 ** 70), st.integers(-5, 5),
                  st.floats(allow_nan=False, allow_infinity=False), st.sampled_from([0.0, -0.0, 1e-320, 1.5, 1e308]),
                  _small_text)
# depth <= 3 without st.recursive (which dominated the run time): leaves, flat containers, a pool of deep shapes
_NESTED_POOL = [[], {}, [[]], [{}], {"": {}}, {"a": [1, {"b": [None, True, 1.5, "é\n"]}]}, [[1, [2, [3, ["x"]]]]],
                {"k\n": {"\u2028": ["\r\n", {"🙂": -0.0}]}}, [0, -1, 2 ** 64, 1e-7, "\x00"], {"now": {"ms": 1.0}},
                {"ms": [1, 2]}, [{"yielded": False, "slice_idx": 3}]]
_flat = st.one_of(st.lists(_leaf, max_size=3), st.dictionaries(_keys, _leaf, max_size=3))
_json = st.one_of(_leaf, _leaf, _flat, st.sampled_from(_NESTED_POOL),
                  st.lists(st.one_of(_leaf, _flat), max_size=3),
                  st.dictionaries(_keys, st.one_of(_leaf, _flat), max_size=2))


_NESTED_VOLATILE = st.dictionaries(
    st.sampled_from(["ms", "now", "durations_ms", "yielded", "slice_idx", "k"]),
    st.sampled_from([1.25, 7, 0, None, False, True, "2025-01-01T00:00:00+00:00", {"t1": 1.5, "ms": 2.0}]),
    min_size=1, max_size=4)


def _has_nested_volatile(rec):
    return any(isinstance(v, dict) and any(k in v for k in ("ms", "now", "durations_ms", "yielded", "slice_idx"))
               for v in rec.values())


@st.composite
def records(draw, stream=None, big=False, volatile=True):
    """A JSON-shaped dict; volatile field names are mixed in at arbitrary key positions."""
    pairs = draw(st.lists(st.tuples(_keys, _json), max_size=5))
    if big:
        pairs.append((draw(_keys), draw(_big_text)))
    if volatile and draw(st.integers(0, 5)) > 0:
        turnlike = stream not in ("t1.jsonl", "t2.jsonl", "t4.jsonl", "apply.jsonl")
        vol = []
        if draw(st.booleans()):
            vol.append(("ms", draw(st.one_of(st.floats(0, 1e6), st.integers(0, 999), st.just(0.0), st.none()))))
        if draw(st.booleans()):
            vol.append(("now", draw(st.sampled_from(["2025-01-01T00:00:00+00:00", 1700000000000, None, "", 0]))))
        if turnlike and draw(st.booleans()):
            vol.append(("durations_ms", draw(st.one_of(
                st.dictionaries(st.sampled_from(["t1", "t2", "t3", "t4", "apply", "total", "é"]),
                                st.one_of(st.floats(0, 1e4), st.integers(0, 50), st.none(),
                                          st.sampled_from([{"ms": 2.5}, [1.5]])), max_size=5),
                st.sampled_from([None, 3.5, [1.0, 2.0], {}])))))
        if turnlike and draw(st.booleans()):
            y = draw(st.sampled_from([True, False, None, "absent"]))
            if y != "absent":
                vol.append(("yielded", y))
            if draw(st.booleans()):
                vol.append(("slice_idx", draw(st.one_of(st.integers(0, 9), st.none()))))
        if draw(st.integers(0, 3)) == 0:
            # volatile NAMES one level down (stage metric blocks carry their own timings): never to be touched
            vol.append((draw(st.sampled_from(["metrics", "t2", "info", "ctx"])), draw(_NESTED_VOLATILE)))
        for kv in vol:
            pairs.insert(draw(st.integers(0, len(pairs))), kv)
    return dict(pairs)


def _classes(rec):
    """Labels describing what a record exercises."""
    s = json.dumps(rec, ensure_ascii=False)
    out = set()
    if len(s) > 65536:
        out.add("big>64K")
    if any(isinstance(v, (dict, list)) and v for v in rec.values()):
        out.add("nested")
    if not s.isascii():
        out.add("unicode")
    if "\\u00" in s or "\\n" in s or "\\r" in s or "\\t" in s:
        out.add("ctrl")
    return out


# ================================================================================================
# 1a. sequential append through all entry points (+ mux)
# ================================================================================================

VIAS = ["io", "unbuf", "orch", "wob", "io_fg", "orch_unbuf", "orch_raw"]
MUX_VIAS = ["io", "orch", "wob", "io_fg", "orch_raw"]   # entry points a LogMux captures
# CI spellings: the documented switch is CI=true (compared case-insensitively by every reader of the flag in the
# repo); anything else, also "false"/"0", leaves records alone
CI_POOL = ["true", "true", "true", "true", None, "", "True", "TRUE", "false", "0"]


def _writers():
    from clematis.io import log as iolog
    from clematis.engine.orchestrator import logging as ologging
    from clematis.engine.util import logmux
    return {"io": iolog.append_jsonl, "unbuf": iolog._append_jsonl_unbuffered, "orch": ologging.append_jsonl,
            "wob": logmux.write_or_buffer,
            "io_fg": lambda fn, r: iolog.append_jsonl(fn, r, feature_guard=True),
            "orch_unbuf": ologging._append_unbuffered, "orch_raw": ologging._append_jsonl}


POISON_KINDS = ["object", "set", "bytes", "surrogate", "circular", "tuple-key"]


def _poison_record(kind, pad):
    """A dict json cannot serialise (or utf-8 cannot encode), with `pad` serialisable characters in front of the
    offending value so that a writer streaming into the file has already emitted something."""
    if kind == "object":
        bad = object()
    elif kind == "set":
        bad = {1, 2}
    elif kind == "bytes":
        bad = b"x"
    elif kind == "surrogate":
        bad = "a\ud800b"
    elif kind == "circular":
        bad = []
        bad.append(bad)
    else:
        bad = {(1, 2): 3}
    return {"a": 1, "pad": "p" * pad, "nest": {"ok": [1, 2, "é"], "bad": bad}, "z": 2}


@st.composite
def append_cases(draw):
    ci = draw(st.sampled_from(["true", "true", None, ""] + CI_POOL[6:]))
    mux = draw(st.integers(0, 3)) == 3  # shrinks towards the direct path
    n = draw(st.integers(1, 6))
    big_at = draw(st.integers(0, n - 1)) if draw(st.integers(0, 6)) == 6 else -1  # shrinks towards "no big value"
    ops = []
    for i in range(n):
        via = draw(st.sampled_from(MUX_VIAS if mux else VIAS))
        if ops and draw(st.integers(0, 5)) == 5:
            # the very same record again (same stream, any entry point): two appends are two lines
            prev = ops[draw(st.integers(0, len(ops) - 1))]
            ops.append({"via": via, "stream": prev["stream"], "rec": copy.deepcopy(prev["rec"]), "dup": True})
            continue
        stream = draw(st.one_of(st.sampled_from(ALL_STREAMS), st.sampled_from(IDENT),
                                st.sampled_from(["sub/t1.jsonl", "sub/turn.jsonl", "sub/x.jsonl"])))
        ops.append({"via": via, "stream": stream,
                    "rec": draw(records(stream=os.path.basename(stream), big=(i == big_at)))})
    poison = None
    if not mux and draw(st.integers(0, 4)) == 4:
        # a record that cannot be serialised is offered between two ops: whatever the writer does with it, the
        # stream must stay well-formed and the records around it intact
        poison = {"at": draw(st.integers(0, n)), "stream": draw(st.sampled_from([o["stream"] for o in ops])),
                  "kind": draw(st.sampled_from(POISON_KINDS)), "pad": draw(st.sampled_from([0, 3, 9000, 70000])),
                  "via": draw(st.sampled_from(["io", "unbuf", "orch", "orch_unbuf"]))}
    return {"ci": ci, "mux": mux, "capture": draw(st.sampled_from(["use_mux", "begin_end"])) if mux else None,
            "ops": ops, "poison": poison}


def check_append(case, rec=None):
    from clematis.engine.util import logmux
    W = _writers()
    ci_on = lognorm.ci_active(case["ci"])
    ops = case["ops"]
    poison = case.get("poison") if not case["mux"] else None
    poison_raised = None
    snap = copy.deepcopy([o["rec"] for o in ops])
    with sandbox(case["ci"]) as logs:
        if case["mux"]:
            if case.get("capture") == "begin_end":  # the driver's own capture helpers
                from clematis.engine.orchestrator import logging as ologging
                mux, token = ologging._begin_log_capture()
                try:
                    for o in ops:
                        W[o["via"]](o["stream"], o["rec"])
                finally:
                    ologging._end_log_capture(token)
            else:
                mux = logmux.LogMux()
                with logmux.use_mux(mux):
                    for o in ops:
                        W[o["via"]](o["stream"], o["rec"])
            early = {k: v for k, v in read_tree(logs).items()}
            if early:
                raise Violation(f"records reached the disk while a LogMux was capturing: {sorted(early)}", case,
                                "mux-leak")
            pairs = mux.dump()
            if [p[0] for p in pairs] != [o["stream"] for o in ops]:
                raise Violation(f"LogMux captured {[p[0] for p in pairs]} for appends {[o['stream'] for o in ops]}",
                                case, "mux-capture")
            logmux.flush(pairs)
        else:
            for i, o in enumerate(ops + [None]):
                if poison is not None and poison["at"] == i:
                    try:
                        W[poison["via"]](poison["stream"], _poison_record(poison["kind"], poison["pad"]))
                        poison_raised = False
                    except (TypeError, ValueError):  # UnicodeEncodeError is a ValueError
                        poison_raised = True
                if o is not None:
                    W[o["via"]](o["stream"], o["rec"])
        tree = read_tree(logs)
        # byte parity between the entry points (docs/m9 PR71: the unbuffered writer mirrors the production writer)
        o0 = ops[0]
        par = {}
        for v in VIAS:
            # same basename rules do not apply to "parity_*": compare the raw serialisation of the already
            # normalised record through every entry point (one file per entry point: nothing is deleted under
            # the writer's feet)
            pname = os.path.join("sub", f"parity_{v}_" + os.path.basename(o0["stream"]))
            W[v](pname, lognorm.ref_normalize(os.path.basename(o0["stream"]), o0["rec"], ci_on))
            with open(os.path.join(logs, pname), "rb") as f:
                par[v] = f.read()
    for i, (o, s) in enumerate(zip(ops, snap)):
        if not lognorm.strict_eq(o["rec"], s):
            raise Violation(f"append mutated the caller's record #{i} ({o['via']}, {o['stream']})", case,
                            "append-mutates-input")
    expect = {}
    ANY = object()  # the line a writer produced for the unserialisable record, if it chose to write one
    for i, o in enumerate(ops + [None]):
        if poison is not None and poison["at"] == i and poison_raised is False:
            expect.setdefault(poison["stream"], []).append(ANY)
        if o is not None:
            expect.setdefault(o["stream"], []).append(
                lognorm.ref_normalize(os.path.basename(o["stream"]), o["rec"], ci_on))
    if sorted(tree) != sorted(expect):
        raise Violation(f"files on disk {sorted(tree)} != streams appended to {sorted(expect)}", case, "append-files")
    for name, want in expect.items():
        got = parse_lines(tree[name], case, f"append {name}")
        if len(got) != len(want):
            raise Violation(f"{name}: {len(want)} records appended, {len(got)} lines on disk"
                            + (f" (an unserialisable record was offered: raised={poison_raised})" if poison else ""),
                            case, "append-count")
        for i, (g, w) in enumerate(zip(got, want)):
            if w is ANY:
                continue
            if not lognorm.strict_eq(g, w):
                raise Violation(f"{name} line {i} parses to {_shorten(g)} but the (normalised) record is {_shorten(w)}",
                                case, "append-roundtrip")
    if len(set(par.values())) != 1:
        raise Violation(f"entry points serialise the same record differently: "
                        f"{ {k: _shorten(v, 60) for k, v in par.items()} }", case, "append-parity")
    if rec is not None:
        cls = set()
        for o in ops:
            cls |= _classes(o["rec"])
        labels = sorted(cls) + [f"ci={case['ci']}", ("mux:" + str(case.get("capture"))) if case["mux"] else "direct"] + \
            sorted({"via=" + o["via"] for o in ops}) + \
            (["identity-stream"] if any(os.path.basename(o["stream"]) in IDENT for o in ops) else []) + \
            (["duplicate-record"] if any(o.get("dup") for o in ops) else []) + \
            ([f"poison:{poison['kind']}", "poison:raised" if poison_raised else "poison:written"] if poison else [])
        nt = bool(cls)
        rec.case(nontrivial=nt, dig=digest(case) if nt else None, labels=labels,
                 sample={"ci": case["ci"], "mux": case["mux"],
                         "ops": [(o["via"], o["stream"], _shorten(o["rec"], 80)) for o in ops[:3]]} if nt else None)


def sub_append(rec, seed, shard, nshards, n=500):
    run_hypothesis(rec, seed, append_cases(), lambda c: check_append(c, rec), max_examples=n, name="append")


# ================================================================================================
# 1b. concurrent writers
# ================================================================================================

_PAD_CH = ["a", "é", "漢", "\n", "🙂", "\""]


def _cc_record(spec, wid, seq):
    r = random.Random(f"{spec['sseed']}|{wid}|{seq}")
    x = r.random()
    if x < 0.74:
        n = r.randint(0, 300)
    elif x < 0.82:
        n = r.randint(8100, 8300)          # around the default 8 KB io buffer
    elif x < 0.90:
        n = r.randint(65400, 65700)        # around the 64 KB pipe size
    elif x < 0.992 or not spec.get("huge"):
        n = r.randint(70_000, 200_000)
    else:
        n = r.randint(1_050_000, 2_300_000)  # beyond 1 MiB and 2 MiB: a writer that chunks its write(2) calls
    if x >= 0.74:
        ch = "a"
    else:
        ch = _PAD_CH[(wid + seq) % len(_PAD_CH)]
    fi = r.randrange(len(spec["files"]))
    return spec["files"][fi], {"w": wid, "seq": seq, "ms": 1.5, "pad": ch * n}


def _cc_kind(spec, wid):
    """plain: every record straight through an entry point; mux: the writer captures small batches in ITS OWN
    LogMux and flushes them; staged: the writer stages small batches in ITS OWN LogStager and flushes the sorted
    drain (capture and staging are per-context: other threads' appends are none of their business)."""
    if not spec.get("kinds"):
        return "plain"
    return random.Random(f"{spec['sseed']}|kind|{wid}").choice(["plain", "plain", "mux", "staged", "staged"])


def _cc_pause(x):
    import time
    time.sleep(0.0003)  # schedule perturbation only: no oracle depends on it
    return x


def _cc_writer(spec, wid, errs):
    from clematis.engine.util import logmux, io_logging as IOL
    W = _writers()
    kind = _cc_kind(spec, wid)
    r = random.Random(f"{spec['sseed']}|batch|{wid}")
    try:
        if kind == "plain":
            via = ["io", "unbuf", "orch", "wob", "orch_unbuf"][wid % 5]
            for seq in range(spec["recs"]):
                fn, rec_ = _cc_record(spec, wid, seq)
                W[via](fn, rec_)
            return
        seq = 0
        while seq < spec["recs"]:
            # the records are computed INSIDE the capture/staging window, with a pause after each (a compute phase
            # that logs as it goes): windows of different threads overlap each other and other writers' appends
            batch = (_cc_pause(_cc_record(spec, wid, q)) for q in range(seq, min(spec["recs"], seq + r.randint(1, 4))))
            if kind == "mux":
                via = ["io", "wob", "orch"][wid % 3]
                mux = logmux.LogMux()
                with logmux.use_mux(mux):
                    for fn, rec_ in batch:
                        W[via](fn, rec_)
                        seq += 1
                logmux.flush(mux.dump())
                continue
            stg = IOL.enable_staging(byte_limit=r.choice([200, 9000, 1 << 25]))
            try:
                for fn, rec_ in batch:
                    seq += 1
                    try:
                        key = IOL.default_key_for(file_path=fn, turn_id=1, slice_idx=0)
                    except RuntimeError as e:
                        errs.append(f"VIOLATION: writer {wid} enabled staging in its own context, yet "
                                    f"default_key_for raised {e!r} while other threads stage/unstage")
                        return
                    try:
                        stg.stage(fn, key, rec_)
                    except RuntimeError as e:
                        if str(e) != BACKPRESSURE:
                            raise
                        for sr in stg.drain_sorted():
                            W["orch_unbuf"](sr.file_path, sr.payload)
                        try:
                            stg.stage(fn, key, rec_)
                        except RuntimeError as e2:
                            # limit below one record (finding stager-limit-below-record, judged by stager_protocol,
                            # not here): the buffer is empty, so writing the record now keeps the order
                            if str(e2) != BACKPRESSURE:
                                raise
                            W["orch_unbuf"](fn, rec_)
                for sr in stg.drain_sorted():
                    W["orch_unbuf"](sr.file_path, sr.payload)
            finally:
                IOL.disable_staging()
    except BaseException as e:  # reported to the parent as a harness problem
        errs.append(f"writer {wid}: {type(e).__name__}: {e}")


def run_round(spec, rec=None):
    P, T, PT, R = spec["procs"], spec["threads"], spec["parent_threads"], spec["recs"]
    nwriters = P * T + PT
    ci_on = lognorm.ci_active(spec["ci"])
    _writers()  # import before forking
    with sandbox(spec["ci"]) as logs:
        errdir = os.path.dirname(logs)
        gate_r, gate_w = os.pipe()
        pids = []
        old_si = sys.getswitchinterval()
        try:
            for p in range(P):
                pid = os.fork()
                if pid == 0:
                    code = 1
                    try:
                        os.read(gate_r, 1)
                        sys.setswitchinterval(1e-5)
                        errs = []
                        ths = [threading.Thread(target=_cc_writer, args=(spec, p * T + t, errs)) for t in range(T)]
                        for th in ths:
                            th.start()
                        for th in ths:
                            th.join()
                        if errs:
                            with open(os.path.join(errdir, f"err-{p}.txt"), "w") as f:
                                f.write("\n".join(errs))
                            code = 3
                        else:
                            code = 0
                    except BaseException as e:
                        try:
                            with open(os.path.join(errdir, f"err-{p}.txt"), "w") as f:
                                f.write(repr(e))
                        except BaseException:
                            pass
                        code = 2
                    finally:
                        os._exit(code)
                pids.append(pid)
            sys.setswitchinterval(1e-5)
            errs = []
            ths = [threading.Thread(target=_cc_writer, args=(spec, P * T + t, errs)) for t in range(PT)]
            os.write(gate_w, b"g" * P)
            for th in ths:
                th.start()
            for th in ths:
                th.join()
        finally:
            sys.setswitchinterval(old_si)
            codes = [os.waitpid(pid, 0)[1] for pid in pids]
            os.close(gate_r)
            os.close(gate_w)
        if errs or any(codes):
            msgs = list(errs)
            for fn in sorted(os.listdir(errdir)):
                if fn.startswith("err-"):
                    with open(os.path.join(errdir, fn)) as f:
                        msgs.append(f.read())
            viol = [m for m in msgs if "VIOLATION: " in m]
            if viol:
                raise Violation("; ".join(viol)[:600], spec, "staging-context-shared")
            raise RuntimeError(f"concurrent writer failed (exit codes {codes}): {msgs}")
        tree = read_tree(logs)
    total = 0
    seen = set()
    nbig = nhuge = 0
    for name in sorted(tree):
        got = parse_lines(tree[name], spec, f"concurrent {name}")
        last = {}
        for i, g in enumerate(got):
            if not (isinstance(g, dict) and isinstance(g.get("w"), int) and isinstance(g.get("seq"), int)
                    and 0 <= g["w"] < nwriters and 0 <= g["seq"] < R):
                raise Violation(f"{name} line {i}: not a record any writer appended: {_shorten(g)}", spec, "foreign-line")
            fn, want = _cc_record(spec, g["w"], g["seq"])
            want = lognorm.ref_normalize(name, want, ci_on)
            if fn != name or not lognorm.strict_eq(g, want):
                raise Violation(f"{name} line {i}: record (w={g['w']}, seq={g['seq']}) damaged or in the wrong file "
                                f"(pad len {len(g.get('pad', ''))} vs {len(want['pad'])})", spec, "damaged-line")
            if (g["w"], g["seq"]) in seen:
                raise Violation(f"record (w={g['w']}, seq={g['seq']}) appears twice", spec, "duplicate-line")
            seen.add((g["w"], g["seq"]))
            if g["w"] in last and g["seq"] <= last[g["w"]]:
                raise Violation(f"{name}: writer {g['w']} seq {g['seq']} after seq {last[g['w']]}", spec,
                                "writer-order")
            last[g["w"]] = g["seq"]
            if len(g["pad"]) >= 65400:
                nbig += 1
            if len(g["pad"]) > (1 << 20):
                nhuge += 1
        total += len(got)
    if total != nwriters * R:
        raise Violation(f"{nwriters * R} records appended by {nwriters} writers, {total} lines on disk", spec,
                        "concurrent-count")
    if rec is not None:
        nt = nwriters >= 2 and nbig >= 1
        rec.case(nontrivial=nt, dig=digest(spec), labels=[f"procs={P}", f"threads={T}", f"parent_threads={PT}",
                                                           f"files={len(spec['files'])}"] + (["has>64K"] if nbig else []) +
                 sorted({"writer:" + _cc_kind(spec, w) for w in range(nwriters)}),
                 sample=dict(spec, lines=total, big_lines=nbig) if nt else None)
        rec.label("lines", total)
        rec.label("lines>64K", nbig)
        rec.label("lines>1MiB", nhuge)


def sub_append_concurrent(rec, seed, shard, nshards, rounds=15, recs=30):
    rnd = random.Random(seed)
    for _ in range(rounds):
        spec = {"procs": rnd.choice([1, 2, 3, 3, 4]), "threads": rnd.choice([1, 2, 3, 4]),
                "parent_threads": rnd.choice([0, 0, 1, 2]), "recs": rnd.randint(recs // 2, recs),
                "files": rnd.choice([["t1.jsonl"], ["turn.jsonl"], ["t1.jsonl", "custom.jsonl"], ["x.jsonl"]]),
                "ci": rnd.choice(["true", None]), "sseed": rnd.getrandbits(32), "kinds": rnd.random() < 0.5,
                "huge": rnd.random() < 0.6}
        try:
            run_round(spec, rec)
        except Violation as v:
            rec.violation("append_concurrent: " + v.message, v.case, v.sig)
            return


# ================================================================================================
# 2. CI identity normalisation
# ================================================================================================

@st.composite
def norm_cases(draw):
    name = draw(st.one_of(st.just("turn.jsonl"), st.sampled_from(IDENT), st.sampled_from(ALL_STREAMS),
                          st.sampled_from(["t3_reflection.jsonl", "turn.jsonl", "health.jsonl"])))
    return {"name": name, "ci": draw(st.sampled_from(CI_POOL)), "rec": draw(records(stream=name))}


def check_norm(case, rec=None):
    from clematis.engine.util.io_logging import normalize_for_identity
    name, r = case["name"], case["rec"]
    ci_on = lognorm.ci_active(case["ci"])
    snap = copy.deepcopy(r)
    with ci_env(case["ci"]):
        out = normalize_for_identity(name, r)
        mut1 = not lognorm.strict_eq(r, snap)
        out_snap = copy.deepcopy(out)
        out2 = normalize_for_identity(name, out)
        mut2 = not lognorm.strict_eq(out, out_snap)
    if mut1 or mut2:
        raise Violation(f"normalize_for_identity mutated its input ({name}): {_shorten(snap)} -> {_shorten(r)}", case,
                        "norm-mutates-input")
    want = lognorm.ref_normalize(name, r, ci_on)
    if not ci_on and not lognorm.strict_eq(out, r):
        raise Violation(f"CI={case['ci']!r}: record changed: {_shorten(r)} -> {_shorten(out)}", case, "norm-ci-off")
    allowed = lognorm.allowed_keys(name) if ci_on else frozenset()
    if not isinstance(out, dict):
        raise Violation(f"normalised record is a {type(out).__name__}", case, "norm-type")
    bad = [k for k in r if k not in allowed and (k not in out or not lognorm.strict_eq(out[k], r[k]))]
    extra = [k for k in out if k not in r]
    if bad or extra:
        raise Violation(f"{name}: non-volatile fields changed {bad} / appeared {extra}: {_shorten(r)} -> {_shorten(out)}",
                        case, "norm-touches-nonvolatile")
    if [k for k in r if k in out] != list(out):
        raise Violation(f"{name}: key order changed {list(r)} -> {list(out)}", case, "norm-key-order")
    if not lognorm.strict_eq(out, want):
        raise Violation(f"{name} (CI on): got {_shorten(out)}, documented normalisation gives {_shorten(want)}", case,
                        "norm-reference")
    if not lognorm.strict_eq(out2, out):
        raise Violation(f"{name}: not idempotent: {_shorten(out)} -> {_shorten(out2)}", case, "norm-idempotent")
    if rec is not None:
        vol = sorted(k for k in r if k in lognorm.allowed_keys(name))
        changed = not lognorm.strict_eq(out, r)
        labels = [("ident:" + name) if name in lognorm.VOLATILE else "other-stream", f"ci={case['ci']}"] + \
                 [f"vol:{k}" for k in vol] + (["changed"] if changed else [])
        if name == "turn.jsonl" and ci_on and "yielded" in r:
            labels.append("turn:yield" if r["yielded"] else "turn:non-yield")
            if r["yielded"] and "slice_idx" in r and not r["slice_idx"]:
                labels.append("turn:yield-slice0/None")
        if ci_on and name in lognorm.VOLATILE and _has_nested_volatile(r):
            labels.append("nested-volatile-names")
        nt = ci_on and name in lognorm.VOLATILE and bool(vol)
        rec.case(nontrivial=nt, dig=digest(case) if nt else None, labels=labels,
                 sample={"name": name, "in": _shorten(r, 200), "out": _shorten(out, 200)} if nt and changed else None)


def sub_normalize(rec, seed, shard, nshards, n=500):
    run_hypothesis(rec, seed, norm_cases(), lambda c: check_norm(c, rec), max_examples=n, name="normalize")


# ================================================================================================
# 3. stager
# ================================================================================================

STAGE_PATHS = ["t1.jsonl", "t2.jsonl", "t3_plan.jsonl", "t3_dialogue.jsonl", "t4.jsonl", "apply.jsonl", "health.jsonl",
               "turn.jsonl", "scheduler.jsonl", "t3_reflection.jsonl", "foo.jsonl", "bar.jsonl", "sub/t1.jsonl",
               "sub/foo.jsonl", "gel.jsonl", "t3.jsonl", "T1.jsonl"]
_small_payload = st.dictionaries(st.sampled_from(["a", "b", "ms", "now", "msg", "é"]),
                                 st.one_of(st.integers(0, 99), st.text("xyé", max_size=30), st.floats(0, 9)), max_size=3)


TURN_POOL = [0, 1, 2, 9, 10, 11, 99, 100, 9_999_999]     # digit boundaries: '10' < '9' as strings
TURN_SETS = [[9, 10], [2, 10, 11], [9, 99, 100], [0, 10, 9_999_999], [1, 2, 3]]
SLICE_SETS = [[9, 10], [2, 10], [0, 9, 10, 11], [0, 1]]
STR_TURNS = ["-", "t-7", "10", "turn/é"]                    # core.py's default "-" and caller-chosen string ids


@st.composite
def stage_payloads(draw, path):
    """A small staged payload; turn-like streams also get the turn-level volatile fields, and now and then a
    payload is much larger than its neighbours (limits then fall BETWEEN record sizes)."""
    d = dict(draw(_small_payload))
    if os.path.basename(path) not in ("t1.jsonl", "t2.jsonl", "t4.jsonl", "apply.jsonl") and draw(st.integers(0, 2)) == 0:
        if draw(st.booleans()):
            d["durations_ms"] = draw(st.dictionaries(st.sampled_from(["t2", "t1", "total"]), st.floats(0, 99),
                                                     max_size=3))
        y = draw(st.sampled_from([True, True, False, None, "absent"]))
        if y != "absent":
            d["yielded"] = y
        if draw(st.booleans()):
            d["slice_idx"] = draw(st.sampled_from([0, 1, 3, None]))
    if draw(st.integers(0, 7)) == 0:
        d["blob"] = draw(st.sampled_from(["x", "é"])) * draw(st.sampled_from([150, 400, 1200]))
    return d


def _tag(payload, i):
    d = dict(payload)
    d["i"] = i
    return d


@st.composite
def sort_cases(draw):
    n = draw(st.integers(0, 14))
    paths = draw(st.lists(st.sampled_from(STAGE_PATHS), min_size=1, max_size=5, unique=True))
    # small pools per case so that ties on (turn, stage, slice) stay frequent although the values are spread
    wide = draw(st.booleans())
    turns = draw(st.sampled_from(TURN_SETS)) if wide else [0, 1, 2]
    slices = draw(st.sampled_from(SLICE_SETS)) if wide else [0, 1, 2]
    seqs = [0, 1, 2, 3] + (draw(st.lists(st.sampled_from([9, 10, 11, 100]), max_size=2)) if wide else [])
    str_turn = draw(st.sampled_from(STR_TURNS)) if draw(st.integers(0, 7)) == 0 else None
    items = []
    for i in range(n):
        path = draw(st.sampled_from(paths))
        items.append({"path": path, "turn": str_turn if str_turn is not None else draw(st.sampled_from(turns)),
                      "slice": draw(st.sampled_from(slices)),
                      "seq": draw(st.one_of(st.none(), st.none(), st.sampled_from(seqs))),
                      "payload": _tag(draw(stage_payloads(path)), i)})
    return {"ci": draw(st.sampled_from(["true", None])), "items": items}


def check_sort(case, rec=None):
    from clematis.engine.util import io_logging as IOL
    from clematis.engine.orchestrator.logging import _append_unbuffered
    items = case["items"]
    ci_on = lognorm.ci_active(case["ci"])
    with sandbox(case["ci"]) as logs:
        try:
            stg = IOL.enable_staging()
            keys = []
            for it in items:
                if it["seq"] is None:
                    try:
                        k = IOL.default_key_for(file_path=it["path"], turn_id=it["turn"], slice_idx=it["slice"])
                    except (TypeError, ValueError) as e:
                        if not isinstance(it["turn"], str):
                            raise
                        raise Violation(f"no staging key for the string turn id {it['turn']!r} (the driver passes "
                                        f"ctx.turn_id through, `int | str`): {type(e).__name__}: {e}", case,
                                        "driver-str-turn-id")
                    if k.stage_ord != stmodel.stage_ord(it["path"]):
                        raise Violation(f"stage ordinal of {it['path']} is {k.stage_ord}, documented "
                                        f"{stmodel.stage_ord(it['path'])}", case, "stage-ord")
                else:
                    k = IOL.LogKey(turn_id=it["turn"], stage_ord=stmodel.stage_ord(it["path"]), slice_idx=it["slice"],
                                   seq=it["seq"])
                keys.append(k)
                stg.stage(it["path"], k, it["payload"])
            drained = stg.drain_sorted()
            again = stg.drain_sorted()
            total = sum(r.bytes_estimate for r in drained)
            # a buffer of exactly `total` must take everything, twice (the byte counter is reset by a drain)
            stg2 = IOL.LogStager(byte_limit=max(total, 1))
            for rnd_ in range(2):
                try:
                    for it, k in zip(items, keys):
                        stg2.stage(it["path"], k, it["payload"])
                except RuntimeError as e:
                    if str(e) != BACKPRESSURE:
                        raise
                    raise Violation(f"back-pressure although the records' total estimate {total} fits the limit "
                                    f"(pass {rnd_ + 1})", case, "stager-bytes-not-reset")
                if len(stg2.drain_sorted()) != len(items):
                    raise Violation("drain_sorted lost records", case, "stager-loss")
            for r in drained:
                _append_unbuffered(r.file_path, r.payload)
        finally:
            IOL.disable_staging()
        tree = read_tree(logs)
    if again:
        raise Violation(f"second drain_sorted returned {len(again)} records again", case, "stager-duplicate")
    got = [r.payload.get("i") for r in drained]
    if sorted(got) != list(range(len(items))):
        raise Violation(f"drain_sorted is not a permutation of the staged records: {got}", case, "stager-permutation")
    seqs = [k.seq for k in keys]
    want = stmodel.ref_order([(it["path"], it["turn"], it["slice"], s) for it, s in zip(items, seqs)])
    if got != want:
        raise Violation(f"drain order {got} != documented (turn, stage, slice, seq, path) order {want}", case,
                        "stager-order")
    for r in drained:
        it = items[r.payload["i"]]
        if r.file_path != it["path"] or not lognorm.strict_eq(
                r.payload, lognorm.ref_normalize(os.path.basename(it["path"]), it["payload"], ci_on)):
            raise Violation(f"staged record {it} came back as ({r.file_path}, {r.payload})", case, "stager-payload")
    per = {}
    for i in want:
        per.setdefault(items[i]["path"], []).append(i)
    disk = {name: [g.get("i") for g in parse_lines(data, case, f"flush {name}")] for name, data in tree.items()}
    if disk != per:
        raise Violation(f"on-disk per-file order {disk} != reference {per}", case, "stager-disk-order")
    if rec is not None:
        groups = {}
        for it in items:
            g = (it["turn"], stmodel.stage_ord(it["path"]), it["slice"])
            groups[g] = groups.get(g, 0) + 1
        tie = any(v > 1 for v in groups.values())
        nt = len(items) >= 3 and tie
        tv = {it["turn"] for it in items}
        sv = {it["slice"] for it in items}
        rec.case(nontrivial=nt, dig=digest(case) if nt else None,
                 labels=[f"n={min(len(items), 12) // 3 * 3}+"] + (["key-tie"] if tie else []) +
                        (["custom-seq"] if any(it["seq"] is not None for it in items) else []) +
                        (["str-turn"] if any(isinstance(t, str) for t in tv) else []) +
                        (["turn-digit-boundary"] if _digit_boundary(tv) else []) +
                        (["slice-digit-boundary"] if _digit_boundary(sv) else []) +
                        (["seq>=10-in-tie"] if _seq_boundary(items, seqs) else []) +
                        (["turn-fields"] if any("yielded" in it["payload"] or "durations_ms" in it["payload"]
                                                for it in items) else []) +
                        (["unsorted-arrival"] if got != list(range(len(items))) else []),
                 sample={"arrival": [(it["path"], it["turn"], it["slice"], s) for it, s in zip(items, seqs)][:8],
                         "order": got[:8]} if nt else None)


def _digit_boundary(vals):
    """True when the numeric order of the values differs from the order of their decimal spellings."""
    ints = sorted(v for v in vals if isinstance(v, int))
    return [str(v) for v in ints] != sorted(str(v) for v in ints)


def _seq_boundary(items, seqs):
    groups = {}
    for it, s in zip(items, seqs):
        groups.setdefault((it["turn"], stmodel.stage_ord(it["path"]), it["slice"]), set()).add(s)
    return any(_digit_boundary(g) for g in groups.values())


def sub_stager_sort(rec, seed, shard, nshards, n=250):
    run_hypothesis(rec, seed, sort_cases(), lambda c: check_sort(c, rec), max_examples=n, name="stager_sort")


# ---- protocol (mirror of parallel.py:_run_agents_parallel_batch lines staging each record) --------------------

def _ladder(ests, extra=(), cuts=()):
    if not ests:
        return [1, 1 << 25]
    total, mx, mn = sum(ests), max(ests), min(ests)
    cand = [1, mn - 1, mn, mx - 1, mx, mx + mn, total // 2, total - 1, total, 1 << 25]
    cand += list(extra)
    for c in cuts:  # exact fill levels: the estimates of the first k records in flush order, +-1
        k = c % len(ests) + 1
        cand += [sum(ests[:k]) - 1, sum(ests[:k]), sum(ests[:k]) + 1]
    return sorted({c for c in cand if c >= 1})


@st.composite
def protocol_cases(draw):
    n = draw(st.integers(1, 12))
    paths = draw(st.lists(st.sampled_from(STAGE_PATHS), min_size=1, max_size=4, unique=True))
    monotone = draw(st.integers(0, 2)) < 2
    wide = draw(st.integers(0, 2)) == 0
    turns = draw(st.sampled_from(TURN_SETS))[:2] if wide else [0, 1]
    slices = draw(st.sampled_from(SLICE_SETS)) if wide else [0, 1, 2]
    arr = []
    for i in range(n):
        arr.append([draw(st.sampled_from(paths)), draw(st.sampled_from(turns)), draw(st.sampled_from(slices))])
    if monotone:  # per file: sort the drawn (turn, slice) keys in place -> never decreasing per file
        for p in paths:
            idx = [i for i in range(n) if arr[i][0] == p]
            ks = sorted((arr[i][1], arr[i][2]) for i in idx)
            for i, k in zip(idx, ks):
                arr[i][1], arr[i][2] = k
    payloads = [_tag(draw(stage_payloads(arr[i][0])), i) for i in range(n)]
    extra = draw(st.lists(st.integers(1, 200), max_size=2))
    return {"ci": draw(st.sampled_from(["true", None])), "arrivals": arr, "payloads": payloads, "limits": extra,
            "cuts": draw(st.lists(st.integers(0, 11), max_size=2))}


def run_protocol(arrivals, payloads, limit, spy=None):
    """The driver's staging loop. Returns (chunks of flushed ids, index of the record whose retry escaped or None)."""
    from clematis.engine.util import io_logging as IOL
    from clematis.engine.orchestrator.logging import _append_unbuffered
    chunks = []
    stg = IOL.enable_staging(byte_limit=limit)
    try:
        def flush():
            recs = stg.drain_sorted()
            if spy is not None:
                spy.extend(recs)
            for r in recs:
                _append_unbuffered(r.file_path, r.payload)
            chunks.append([r.payload.get("i") for r in recs])
        for i, (path, turn, sl) in enumerate(arrivals):
            key = IOL.default_key_for(file_path=path, turn_id=turn, slice_idx=sl)
            try:
                stg.stage(path, key, payloads[i])
            except RuntimeError as exc:
                if str(exc) != BACKPRESSURE:
                    raise
                flush()
                try:
                    stg.stage(path, key, payloads[i])
                except RuntimeError as exc2:
                    if str(exc2) != BACKPRESSURE:
                        raise
                    return chunks, i
        flush()
        return chunks, None
    finally:
        IOL.disable_staging()


def check_protocol(case, rec=None):
    arrivals = [tuple(a) for a in case["arrivals"]]
    payloads = case["payloads"]
    ci_on = lognorm.ci_active(case["ci"])
    n = len(arrivals)
    mono = stmodel.monotone_per_file(arrivals)
    want_file = stmodel.ref_per_file(arrivals)
    labels = []
    flushed_ok = 0
    with sandbox(case["ci"]) as logs:
        spy = []
        run_protocol(arrivals, payloads, 1 << 40, spy)
        est = {r.payload["i"]: r.bytes_estimate for r in spy}
        base_tree = read_tree(logs)
    if sorted(est) != list(range(n)):
        raise Violation(f"unbounded stager flushed ids {sorted(est)} for {n} staged records", case, "stager-loss")
    for limit in _ladder([est[i] for i in range(n)], case["limits"], case.get("cuts", ())):
        with sandbox(case["ci"]) as logs:
            chunks, escaped = run_protocol(arrivals, payloads, limit)
            tree = read_tree(logs)
        if escaped is not None:
            if est[escaped] <= limit:
                raise Violation(f"limit {limit}: retry after drain failed although the record's estimate "
                                f"{est[escaped]} fits an empty buffer", dict(case, limit=limit), "stager-retry-fails")
            if rec is not None and rec.is_known(F_STAGER):
                labels.append("limit<record(known)")
                continue
            raise Violation(f"byte limit {limit} < size estimate {est[escaped]} of record #{escaped}: the documented "
                            f"drain->flush->retry raises {BACKPRESSURE} on an EMPTY buffer; records "
                            f"{sorted(set(range(n)) - {i for c in chunks for i in c})} are never flushed",
                            dict(case, limit=limit), "stager-backpressure-empty-buffer")
        flat = [i for c in chunks for i in c]
        if sorted(flat) != list(range(n)):
            lost = sorted(set(range(n)) - set(flat))
            dup = sorted({i for i in flat if flat.count(i) > 1})
            raise Violation(f"limit {limit}: flushed ids {flat}: lost {lost} duplicated {dup}", dict(case, limit=limit),
                            "stager-conservation")
        for c in chunks:
            if stmodel.ref_order([(arrivals[i][0], arrivals[i][1], arrivals[i][2], i) for i in c]) != \
                    list(range(len(c))):
                raise Violation(f"limit {limit}: flushed chunk {c} is not in (turn, stage, slice, arrival) order",
                                dict(case, limit=limit), "stager-chunk-order")
        disk = {name: parse_lines(data, case, f"limit {limit} {name}") for name, data in tree.items()}
        ids = {name: [g.get("i") for g in recs] for name, recs in disk.items()}
        by_file = {}
        for i in flat:
            by_file.setdefault(arrivals[i][0], []).append(i)
        if ids != by_file:
            raise Violation(f"limit {limit}: on-disk ids {ids} != flush sequence per file {by_file}",
                            dict(case, limit=limit), "stager-disk")
        for name, recs in disk.items():
            for g in recs:
                w = lognorm.ref_normalize(os.path.basename(name), payloads[g["i"]], ci_on)
                if not lognorm.strict_eq(g, w):
                    raise Violation(f"limit {limit}: {name} holds {g}, staged (normalised) record is {w}",
                                    dict(case, limit=limit), "stager-payload")
        if mono:
            if ids != want_file:
                raise Violation(f"limit {limit}: per-file sequence {ids} differs from the unbounded-buffer sequence "
                                f"{want_file}", dict(case, limit=limit), "stager-limit-dependent")
            if tree != base_tree:
                raise Violation(f"limit {limit}: log bytes differ from the unbounded-buffer run",
                                dict(case, limit=limit), "stager-limit-dependent-bytes")
        if len(chunks) > 1:
            flushed_ok += 1
    if rec is not None:
        nfiles = len({a[0] for a in arrivals})
        nt = nfiles >= 2 and flushed_ok >= 1
        ests = [est[i] for i in range(n)]
        rec.case(nontrivial=nt, dig=digest(case) if nt else None,
                 labels=sorted(set(labels)) + ["monotone" if mono else "arbitrary-arrival", f"files={nfiles}"] +
                        (["backpressure-flush"] if flushed_ok else []) +
                        (["sizes-differ>4x"] if min(ests) * 4 < max(ests) else []) +
                        (["turn-digit-boundary"] if _digit_boundary({a[1] for a in arrivals}) else []) +
                        (["slice-digit-boundary"] if _digit_boundary({a[2] for a in arrivals}) else []) +
                        (["n>=10"] if n >= 10 else []),
                 sample={"arrivals": arrivals[:6], "estimates": [est[i] for i in range(n)][:6],
                         "limits_with_flush": flushed_ok} if nt else None)


def sub_stager_protocol(rec, seed, shard, nshards, n=150):
    run_hypothesis(rec, seed, protocol_cases(), lambda c: check_protocol(c, rec), max_examples=n,
                   name="stager_protocol")


# ---- through the real batch driver -------------------------------------------------------------------------------

@st.composite
def driver_cases(draw):
    na = draw(st.integers(1, 5))
    slices = sorted(draw(st.lists(st.integers(0, 2), min_size=na, max_size=na)))
    if draw(st.booleans()):
        slices = [slices[0]] * na  # what the real compute phase yields: one ctx.slice_idx for the whole batch
    compute_paths = [p for p in STAGE_PATHS if os.path.basename(p) != "apply.jsonl"]
    if draw(st.integers(0, 3)) == 0:
        slices = [{0: 0, 1: 9, 2: 10}[x] for x in slices]  # still ascending; crosses a digit boundary
    agents = []
    k = 0
    for a in range(na):
        logs = []
        for _ in range(draw(st.integers(0, 5))):
            if logs and draw(st.integers(0, 5)) == 5:
                # the stage logged the very same line twice (same path, equal payload): two records, two lines
                prev = logs[draw(st.integers(0, len(logs) - 1))]
                logs.append([prev[0], dict(prev[1])])
                continue
            path = draw(st.sampled_from(compute_paths))
            logs.append([path, _tag(draw(stage_payloads(path)), k)])
            k += 1
        agents.append({"id": f"A{a}", "slice": slices[a], "logs": logs,
                       "dialogue": draw(st.sampled_from(["ok", "", "é\n"]))})
    # one turn id per batch (ctx.turn_id): ints of any magnitude or a caller-chosen string (`int | str` in
    # _clone_ctx_for_agent / _sort_turn_buffers, "-" is core.py's default)
    turn = draw(st.one_of(st.integers(0, 50), st.sampled_from(TURN_POOL), st.sampled_from(STR_TURNS)))
    return {"ci": draw(st.sampled_from(["true", None])), "turn": turn, "agents": agents,
            "limits": draw(st.lists(st.integers(1, 300), max_size=2)),
            "cuts": draw(st.lists(st.integers(0, 11), max_size=1))}


def run_driver(case, limit, spy=None):
    """One batch through the real driver with a generated compute stub. Returns results (or raises)."""
    from clematis.engine import orchestrator as orch
    from clematis.engine.util import io_logging as IOL
    agents = case["agents"]
    by_id = {a["id"]: a for a in agents}

    def compute(ctx, base, aid, text):
        a = by_id[aid]
        return {"turn_id": case["turn"], "slice_idx": a["slice"], "agent_id": aid,
                "logs": [(p, dict(pl)) for p, pl in a["logs"]], "deltas": [], "dialogue": a["dialogue"],
                "graphs_touched": set(), "graph_versions": {}}

    def apply_changes(ctx, state, t4):
        return SNS(applied=0, clamps=0, version_etag="e1", snapshot_path="snap", metrics={"cache_invalidations": 0})

    def enable():
        stg = IOL.enable_staging(byte_limit=limit)
        if spy is not None:
            orig = stg.drain_sorted

            def drain():
                out = orig()
                spy.extend(out)
                return out
            stg.drain_sorted = drain
        return stg

    names = ("_run_turn_compute", "apply_changes", "enable_staging", "_make_readonly_snapshot")
    saved = {k: orch.__dict__.get(k) for k in names}
    orch._run_turn_compute = compute
    orch.apply_changes = apply_changes
    orch.enable_staging = enable
    orch._make_readonly_snapshot = lambda s: s
    try:
        cfg = {"perf": {"enabled": True, "parallel": {"enabled": True, "max_workers": 8, "agents": True}}}
        ctx = SNS(cfg=cfg, turn_id=case["turn"])
        state = {"graphs_by_agent": {a["id"]: ["G" + a["id"]] for a in agents}}
        return orch._run_agents_parallel_batch(ctx, state, [(a["id"], "hi") for a in agents])
    finally:
        for k, v in saved.items():
            if v is None:
                orch.__dict__.pop(k, None)
            else:
                setattr(orch, k, v)
        IOL.disable_staging()


def check_driver(case, rec=None):
    agents = case["agents"]
    ci_on = lognorm.ci_active(case["ci"])
    # reference: what a sequential flush in (turn, stage, slice, arrival) order leaves per file
    want = {}
    for a in agents:
        for p, pl in a["logs"]:
            want.setdefault(p, []).append(lognorm.ref_normalize(os.path.basename(p), pl, ci_on))
    for a in agents:
        want.setdefault("apply.jsonl", []).append(lognorm.ref_normalize("apply.jsonl", {
            "turn": case["turn"], "agent": a["id"], "applied": 0, "clamps": 0, "version_etag": "e1", "snapshot": "snap",
            "cache_invalidations": 0, "ms": 0.0}, ci_on))
    with sandbox(case["ci"]) as logs:
        spy = []
        try:
            run_driver(case, 1 << 40, spy)
        except (TypeError, ValueError) as e:
            if not isinstance(case["turn"], str):
                raise
            raise Violation(f"batch with the string turn id {case['turn']!r} is not flushed: the driver raises "
                            f"{type(e).__name__}: {e}", case, "driver-str-turn-id")
        base_tree = read_tree(logs)
    ests = [r.bytes_estimate for r in spy]
    nrec = sum(len(a["logs"]) for a in agents) + len(agents)
    if len(ests) != nrec:
        raise Violation(f"driver flushed {len(ests)} records for {nrec} staged", case, "driver-count")
    flushed = 0
    labels = []
    for limit in _ladder(ests, case["limits"], case.get("cuts", ())):
        with sandbox(case["ci"]) as logs:
            spy2 = []
            try:
                res = run_driver(case, limit, spy2)
            except RuntimeError as e:
                if str(e) != BACKPRESSURE:
                    raise
                if limit >= max(ests):
                    raise Violation(f"limit {limit} >= every record estimate (max {max(ests)}) but {BACKPRESSURE} "
                                    f"escaped the driver", dict(case, limit=limit), "driver-retry-fails")
                if rec is not None and rec.is_known(F_STAGER):
                    labels.append("limit<record(known)")
                    continue
                raise Violation(f"byte limit {limit} below a record's estimate (max {max(ests)}): {BACKPRESSURE} escapes "
                                f"_run_agents_parallel_batch, {nrec - len(spy2)} of {nrec} records never reach the log",
                                dict(case, limit=limit), "stager-backpressure-empty-buffer")
            tree = read_tree(logs)
        if [r.line for r in res] != [a["dialogue"] for a in agents]:
            raise Violation(f"limit {limit}: results {[r.line for r in res]}", dict(case, limit=limit), "driver-results")
        disk = {name: parse_lines(data, case, f"driver limit {limit} {name}") for name, data in tree.items()}
        if sorted(disk) != sorted(want):
            raise Violation(f"limit {limit}: files {sorted(disk)} != {sorted(want)}", dict(case, limit=limit),
                            "driver-files")
        for name in want:
            if len(disk[name]) != len(want[name]) or not all(lognorm.strict_eq(g, w) for g, w in zip(disk[name], want[name])):
                raise Violation(f"limit {limit}: {name} holds {_shorten(disk[name], 300)}; sequential order is "
                                f"{_shorten(want[name], 300)}", dict(case, limit=limit), "driver-order")
        if tree != base_tree:
            raise Violation(f"limit {limit}: log bytes differ from the default-limit run", dict(case, limit=limit),
                            "driver-limit-dependent-bytes")
        if len(spy2) == nrec and limit < sum(ests):
            flushed += 1
    if rec is not None:
        nfiles = len(want)
        nt = len(agents) >= 2 and nfiles >= 2 and flushed >= 1
        rec.case(nontrivial=nt, dig=digest(case) if nt else None,
                 labels=sorted(set(labels)) + [f"agents={len(agents)}"] + (["backpressure-flush"] if flushed else []) +
                        (["slices-differ"] if len({a["slice"] for a in agents}) > 1 else []) +
                        (["slice-digit-boundary"] if _digit_boundary({a["slice"] for a in agents}) else []) +
                        (["str-turn"] if isinstance(case["turn"], str) else []) +
                        (["duplicate-record"] if _has_dup_logs(agents) else []),
                 sample={"agents": [(a["id"], a["slice"], [p for p, _ in a["logs"]]) for a in agents],
                         "estimates": ests[:8]} if nt else None)


def _has_dup_logs(agents):
    for a in agents:
        seen = []
        for p, pl in a["logs"]:
            if (p, pl) in seen:
                return True
            seen.append((p, pl))
    return False


def sub_stager_driver(rec, seed, shard, nshards, n=100):
    run_hypothesis(rec, seed, driver_cases(), lambda c: check_driver(c, rec), max_examples=n, name="stager_driver")


def probe_stager_limit():
    with sandbox("true"):
        _chunks, escaped = run_protocol([("t1.jsonl", 1, 0)], [{"a": 1}], 1)
    return escaped is not None


# ================================================================================================
# I/O step injector (own, small): shadows `os` as seen by given modules
# ================================================================================================

STEP_FUNCS = ("remove", "unlink", "replace", "rename", "renames", "rmdir", "link", "symlink", "truncate")


class OsProxy:
    """Forwards everything to the real os module; mutating calls go through `hook(index, name, args)` first and
    `after(index)` afterwards."""

    def __init__(self, plan):
        self._plan = plan

    def __getattr__(self, name):
        real = getattr(os, name)
        if name not in STEP_FUNCS:
            return real
        plan = self._plan

        def wrapped(*a, **kw):
            return _step(plan, name, [os.path.basename(str(x)) for x in a], lambda: real(*a, **kw))
        return wrapped


def _step(plan, name, args, call):
    idx = len(plan["steps"])
    plan["steps"].append((name, args))
    mode, at = plan["mode"], plan["at"]
    if mode == "kill_before" and idx == at:
        os._exit(137)
    if mode == "raise" and idx == at:
        raise OSError(errno.EIO, "injected I/O error")
    out = call()
    if mode == "kill_after" and idx == at:
        os._exit(137)
    return out


@contextlib.contextmanager
def shadow_os(plan, modules, shadow_open=False):
    """Shadow `os` (and optionally the builtin `open` for writing) as seen by `modules`."""
    import builtins
    proxy = OsProxy(plan)
    saved = [(m, m.os) for m in modules]

    def open_(file, mode="r", *a, **kw):
        if any(c in mode for c in "wax+"):
            return _step(plan, "open:" + mode, [os.path.basename(str(file))],
                         lambda: builtins.open(file, mode, *a, **kw))
        return builtins.open(file, mode, *a, **kw)
    for m in modules:
        m.os = proxy
        if shadow_open:
            m.open = open_
    try:
        yield plan
    finally:
        for m, o in saved:
            m.os = o
            if shadow_open:
                del m.open


def fork_run(fn):
    """Run fn() in a forked child that never returns; returns the exit code (0 done, 137 injected kill, 9x error)."""
    pid = os.fork()
    if pid == 0:
        code = 99
        try:
            fn()
            code = 0
        except OSError:
            code = 98
        except BaseException:
            code = 97
        finally:
            os._exit(code)
    return os.waitstatus_to_exitcode(os.waitpid(pid, 0)[1])


# ================================================================================================
# 4. compaction
# ================================================================================================

@st.composite
def compaction_cases(draw):
    stream = draw(st.one_of(st.sampled_from(IDENT), st.sampled_from(ALL_STREAMS), st.just("sub/turn.jsonl")))
    base = os.path.basename(stream)
    old = draw(st.one_of(st.none(), st.lists(records(stream=base), max_size=3)))
    recs = draw(st.lists(records(stream=base), max_size=6))
    if draw(st.integers(0, 7)) == 7:
        recs.insert(draw(st.integers(0, len(recs))), draw(records(stream=base, big=True)))
    if recs and draw(st.integers(0, 2)) == 0:
        # a log legitimately holds the same record several times (adjacent or not, same or permuted key order):
        # a rewrite preserves every occurrence
        for _ in range(draw(st.integers(1, 3))):
            src = recs[draw(st.integers(0, len(recs) - 1))]
            cp = copy.deepcopy(src)
            if draw(st.booleans()):
                cp = dict(reversed(list(cp.items())))
            recs.insert(draw(st.integers(0, len(recs))), cp)
    if draw(st.sampled_from(range(8))) == 7:
        # many small records (a real log): [seq, tag] lines incl. repeated ones
        k = draw(st.sampled_from([20, 60, 1100, 2100]))
        recs = recs + [{"seq": i // 2, "agent": "A", "ms": 1.5} for i in range(k)]
    after = draw(st.one_of(st.none(), st.tuples(st.sampled_from(["io", "unbuf", "orch", "orch_unbuf"]),
                                                records(stream=base))))
    return {"ci": draw(st.sampled_from(["true", "true", None])), "stream": stream, "old": old, "records": recs,
            "as_iter": draw(st.booleans()), "old_via": draw(st.sampled_from(["unbuf", "io", "orch"])),
            "after": list(after) if after else None,
            "poison": [draw(st.sampled_from(POISON_KINDS)), draw(st.integers(0, 6))] if draw(st.integers(0, 3)) == 0
            else None}


def check_compaction(case, rec=None):
    from clematis.io import log as iolog
    from clematis.io import atomic as atomic_mod
    ci_on = lognorm.ci_active(case["ci"])
    stream, recs = case["stream"], case["records"]
    base = os.path.basename(stream)
    snap = copy.deepcopy(recs)
    with sandbox(case["ci"]) as logs:
        path = os.path.join(logs, stream)
        W = _writers()
        if case["old"] is not None:
            for r in case["old"]:
                W[case.get("old_via", "unbuf")](stream, r)
            if not case["old"]:
                open(path, "wb").close()
        before = read_tree(logs)
        if case.get("poison"):
            # a rewrite that cannot serialise one of its records fails as a whole: the old records stay
            kind, at = case["poison"]
            bad = copy.deepcopy(recs)
            bad.insert(at % (len(bad) + 1), _poison_record(kind, 0))
            try:
                iolog.rewrite_jsonl(stream, iter(bad) if case["as_iter"] else bad)
                raised = False
            except (TypeError, ValueError):
                raised = True
            mid = read_tree(logs)
            if raised and mid != before:
                raise Violation(f"rewrite_jsonl raised on an unserialisable record (#{at % (len(recs) + 1)} of "
                                f"{len(recs) + 1}) but the log dir changed: {_diff_state(mid, before)}", case,
                                "rewrite-failed-not-atomic")
            if not raised:
                parse_lines(mid.get(stream, b""), case, f"rewrite with odd record {stream}")
        iolog.rewrite_jsonl(stream, iter(recs) if case["as_iter"] else recs)
        tree = read_tree(logs)
        if sorted(tree) != [stream]:
            raise Violation(f"after rewrite_jsonl the log dir holds {sorted(tree)} (expected only {stream})", case,
                            "rewrite-leftover")
        data = tree[stream]
        got = parse_lines(data, case, f"rewrite {stream}")
        want = [lognorm.ref_normalize(base, r, ci_on) for r in recs]
        if len(got) != len(want):
            raise Violation(f"rewrite of {len(want)} records left {len(got)} lines", case, "rewrite-count")
        for i, (g, w) in enumerate(zip(got, want)):
            if not lognorm.loose_key_eq(g, w):
                raise Violation(f"line {i} parses to {_shorten(g)}; normalised record is {_shorten(w)}", case,
                                "rewrite-roundtrip")
        canon = "".join(json.dumps(g, ensure_ascii=False, sort_keys=True, separators=(",", ":")) + "\n" for g in got)
        if data != canon.encode("utf-8"):
            raise Violation("rewritten file is not in the documented canonical form (sorted keys, compact "
                            "separators, LF)", case, "rewrite-canonical")
        if not all(lognorm.strict_eq(a, b) for a, b in zip(recs, snap)) or len(recs) != len(snap):
            raise Violation("rewrite_jsonl mutated the caller's records", case, "rewrite-mutates-input")
        # compaction of the file's own parsed content is a fixpoint
        iolog.rewrite_jsonl(stream, got)
        if read_tree(logs) != tree:
            raise Violation("rewriting the parsed lines of a canonical file changes its bytes", case, "rewrite-fixpoint")
        # the stream stays appendable: the next record of the same process lands after the compacted ones
        if case.get("after"):
            via, r_after = case["after"]
            W[via](stream, r_after)
            tree2 = read_tree(logs)
            if sorted(tree2) != [stream] or not tree2[stream].startswith(data):
                raise Violation(f"a record appended ({via}) after the rewrite did not extend the compacted file: "
                                f"files {sorted(tree2)}, {len(tree2.get(stream, b''))} bytes (compacted {len(data)})",
                                case, "append-after-rewrite")
            tail = parse_lines(tree2[stream][len(data):], case, f"append after rewrite {stream}")
            w_after = lognorm.ref_normalize(base, r_after, ci_on)
            if len(tail) != 1 or not lognorm.strict_eq(tail[0], w_after):
                raise Violation(f"record appended ({via}) after the rewrite: the file gained {_shorten(tail)}; "
                                f"appended (normalised) record {_shorten(w_after)}", case, "append-after-rewrite")
            with open(path, "wb") as f:  # back to the compacted content for the kill points below
                f.write(data)
        # atomic: a process killed after any write-open / around any rename or unlink step leaves the complete old
        # or the complete new content
        other = list(reversed(recs)) + [{"marker": 1}]
        mods = [atomic_mod, iolog]
        steps = {"steps": [], "mode": "record", "at": -1}
        with shadow_os(steps, mods, shadow_open=True):
            iolog.rewrite_jsonl(stream, other)
        new_data = read_tree(logs)[stream]
        points = []
        for i, (nm, _a) in enumerate(steps["steps"]):
            points.append(("kill_after", i))
            if not nm.startswith("open"):
                points.append(("kill_before", i))
        kills = 0
        for mode, at in points:
            with open(path, "wb") as f:
                f.write(data)
            plan = {"steps": [], "mode": mode, "at": at}

            def child():
                with shadow_os(plan, mods, shadow_open=True):
                    iolog.rewrite_jsonl(stream, other)
            code = fork_run(child)
            if code != 137:
                raise RuntimeError(f"compaction kill injection did not fire (exit {code}, steps {steps['steps']})")
            kills += 1
            after = read_tree(logs)
            if after.get(stream) not in (data, new_data):
                raise Violation(f"process killed ({mode} step {at} {steps['steps'][at]}): log is neither the complete old "
                                f"nor the complete new content ({len(after.get(stream) or b'')} bytes; old {len(data)}, "
                                f"new {len(new_data)})", case, "rewrite-not-atomic")
            stray = [n for n in after if n != stream and fnmatch.fnmatchcase(os.path.basename(n), "*.jsonl")]
            if stray:
                raise Violation(f"killed rewrite left {stray}, which log readers/rotation would pick up", case,
                                "rewrite-stray")
            for n in after:
                if n != stream:
                    os.remove(os.path.join(logs, n))
    if rec is not None:
        cls = set()
        for r in recs:
            cls |= _classes(r)
        nt = len(recs) >= 2 and bool(before)
        rec.case(nontrivial=nt, dig=digest(case) if nt else None,
                 labels=sorted(cls) + [f"ci={case['ci']}", "old" if before else "fresh", f"kills={min(kills, 4)}"] +
                        (["identity-stream"] if base in IDENT else []) +
                        (["duplicate-records"] if _has_dup_records(recs) else []) +
                        (["records>=20"] if len(recs) >= 20 else []) + (["records>=1000"] if len(recs) >= 1000 else []) +
                        (["append-after"] if case.get("after") else []) +
                        (["failed-rewrite"] if case.get("poison") else []),
                 sample={"stream": stream, "n": len(recs), "bytes": len(data)} if nt else None)


def _has_dup_records(recs):
    canon = [json.dumps(r, sort_keys=True, ensure_ascii=False) for r in recs if r]
    return len(set(canon)) != len(canon)


def sub_compaction(rec, seed, shard, nshards, n=100):
    run_hypothesis(rec, seed, compaction_cases(), lambda c: check_compaction(c, rec), max_examples=n,
                   name="compaction")


# ================================================================================================
# 5. rotation histories
# ================================================================================================

BASES = ["a.jsonl", "b.jsonl", "a.b.jsonl", "é.jsonl", "turn.jsonl"]
NOISE_SUFFIX = [".0", ".01", ".bak", ".1.gz", ".-1", ".1x", ".٣", ".1_0", ".+2", ".010", ". 3", ".1e1"]
WIDE_BACKUPS = [9, 10, 10, 11, 12, 20, 100, 101]          # generation numbers with two and three digits


@contextlib.contextmanager
def log_dir_env(d):
    keys = ("CLEMATIS_LOG_DIR", "CLEMATIS_LOGS_DIR")
    saved = {k: os.environ.get(k) for k in keys}
    os.environ["CLEMATIS_LOG_DIR"] = d
    os.environ.pop("CLEMATIS_LOGS_DIR", None)
    try:
        yield
    finally:
        for k, v in saved.items():
            if v is None:
                os.environ.pop(k, None)
            else:
                os.environ[k] = v


def blob(spec):
    """spec None -> empty file; [id, pad] -> unique tagged bytes of length len(tag)+pad+1."""
    if spec is None:
        return b""
    return f"#{spec[0]}:".encode() + b"." * spec[1] + b"\n"


@st.composite
def rotation_cases(draw):
    bases = draw(st.lists(st.sampled_from(BASES), min_size=1, max_size=3, unique=True))
    serial = [0]

    def fresh(maxpad=40):
        serial[0] += 1
        return [serial[0], draw(st.integers(0, maxpad))]
    init = {}
    wide = draw(st.integers(0, 2)) == 0   # histories that reach two/three-digit generation numbers
    for b in bases:
        if draw(st.integers(0, 5)) < 5:
            init[b] = None if draw(st.integers(0, 9)) == 9 else fresh()
        if wide:
            top = draw(st.sampled_from([8, 9, 10, 11, 12, 13]))
            slots = set(range(1, top + 1)) - draw(st.sets(st.integers(1, 13), max_size=2))
            slots |= draw(st.sets(st.sampled_from([19, 20, 21, 99, 100, 101, 102]), max_size=2))
        else:
            slots = draw(st.sets(st.integers(1, 7), max_size=5))
        for k in sorted(slots):
            init[f"{b}.{k}"] = fresh(12 if wide else 40)
        for sfx in draw(st.lists(st.sampled_from(NOISE_SUFFIX), max_size=2, unique=True)):
            init[b + sfx] = fresh()
    for extra in draw(st.lists(st.sampled_from(["notes.txt", ".hidden.jsonl", "c.log", "a.jsonl.1.jsonl"]), max_size=2,
                               unique=True)):
        if extra not in init:
            init[extra] = fresh()
    model = {n: blob(s) for n, s in init.items()}
    ops = []
    for _ in range(draw(st.integers(2, 9))):
        kind = draw(st.sampled_from(["rotate", "append", "append", "rotate", "rotate", "rotate", "rotate", "dry"]))
        if kind == "append":
            b = draw(st.sampled_from(bases))
            spec = fresh(60)
            # "raw": bytes written by somebody else; otherwise the engine's own writer appends a record to the
            # live file (same process as the rotations: what a long-running engine with a cron'd rotate does)
            via = draw(st.sampled_from(["raw", "raw", "unbuf", "io", "orch"]))
            ops.append({"op": "append", "base": b, "blob": spec, "via": via})
            model[b] = model.get(b, b"") + (blob(spec) if via == "raw" else _writer_line(spec))
            continue
        live = [b for b in bases if b in model]
        sizes = sorted({len(model[b]) for b in live})
        bound = [s + d for s in sizes for d in (-1, 0, 1) if s + d >= 0]
        max_bytes = draw(st.one_of(st.sampled_from([0, 1, (sizes or [1])[0]]), st.sampled_from(bound or [1]),
                                   st.sampled_from(bound or [1]), st.integers(0, 120)))
        backups = draw(st.sampled_from(WIDE_BACKUPS + [3, 0]) if wide else
                       st.sampled_from([2, 1, 1, 2, 2, 3, 3, 3, 4, 6, 0, -1]))
        via = draw(st.sampled_from(["main", "main", "cli", "one"]))
        pattern = draw(st.sampled_from(["*.jsonl", "*.jsonl", "a*.jsonl", "?.jsonl", "[ab].jsonl", "*[!b].jsonl"] + bases))
        if via == "one":
            if not live:
                via = "main"
            else:
                pattern = draw(st.sampled_from(live))
        op = {"op": "rotate", "via": via, "max_bytes": max_bytes, "backups": backups, "pattern": pattern,
              "dry": kind == "dry"}
        ops.append(op)
        if not op["dry"]:
            if via == "one":
                model, _ = rotmodel.rotate_one(model, pattern, backups)
            else:
                model, _ = rotmodel.rotate_dir(model, pattern, max_bytes, backups)
    return {"init": init, "ops": ops}


def _writer_record(spec):
    return {"id": spec[0], "pad": "." * spec[1]}


def _writer_line(spec):
    """Size estimate for the generator only (the check re-reads what the writer really produced)."""
    return (json.dumps(_writer_record(spec)) + "\n").encode()


def _exec_rotate(d, op):
    import clematis.scripts.rotate_logs as R
    out, err = io.StringIO(), io.StringIO()
    with contextlib.redirect_stdout(out), contextlib.redirect_stderr(err):
        if op["via"] == "one":
            R.rotate_one(os.path.join(d, op["pattern"]), op["backups"], dry_run=op["dry"])
            rc = 0
        else:
            argv = ["--dir", d, "--pattern", op["pattern"], "--max-bytes", str(op["max_bytes"]), "--backups",
                    str(op["backups"])] + (["--dry-run"] if op["dry"] else [])
            if op["via"] == "cli":
                from clematis.cli.main import main as cli_main
                rc = cli_main(["rotate-logs", "--"] + argv)
            else:
                rc = R.main(argv)
    return rc, out.getvalue(), err.getvalue()


def _diff_state(got, want):
    miss = sorted(set(want) - set(got))
    extra = sorted(set(got) - set(want))
    diff = sorted(n for n in set(got) & set(want) if got[n] != want[n])
    return f"missing {miss}, unexpected {extra}, wrong content {[(n, got[n][:12], want[n][:12]) for n in diff]}"


def _classify(before, got, want):
    lost = [c for c in before.values() if c and c not in got.values()]
    lost_ok = [c for c in before.values() if c and c not in want.values()]
    if any(c not in lost_ok for c in lost):
        return "rotate-lost-generation"
    if sorted(got.values()) == sorted(want.values()):
        return "rotate-order"
    if any(c in got.values() for c in lost_ok):
        return "rotate-keeps-too-many"
    return "rotate-state"


def check_rotation(case, rec=None):
    d = tempfile.mkdtemp(prefix="c16_rot_")
    try:
        model = {}
        for n, s in case["init"].items():
            model[n] = blob(s)
            with open(os.path.join(d, n), "wb") as f:
                f.write(model[n])
        eff = 0
        pre_gen = any(rotmodel.slot_of(n, b) for n in case["init"] for b in BASES)
        labels = set()
        for step, op in enumerate(case["ops"]):
            before = dict(model)
            if op["op"] == "append" and op.get("via", "raw") != "raw":
                b = op["base"]
                with log_dir_env(d):
                    _writers()[op["via"]](b, _writer_record(op["blob"]))
                got = read_tree(d)
                old = model.get(b, b"")
                new = got.get(b, b"")
                tail = parse_lines(new[len(old):], case, f"step {step} append to {b}") if new.startswith(old) else None
                if tail is None or len(tail) != 1 or not lognorm.strict_eq(tail[0], _writer_record(op["blob"])):
                    raise Violation(f"step {step}: record appended ({op['via']}) to the live file {b} after "
                                    f"{eff} rotation(s) did not extend it by one line: {_diff_state(got, dict(model, **{b: new}))}"
                                    f"; live file {len(old)} -> {len(new)} bytes, new lines {_shorten(tail)}", case,
                                    "append-after-rotation")
                model[b] = new
                if got != model:
                    raise Violation(f"step {step}: appending to {b} changed other files: {_diff_state(got, model)}",
                                    case, "append-after-rotation")
                labels.add("writer-append" + ("-after-rotation" if eff else ""))
                continue
            if op["op"] == "append":
                with open(os.path.join(d, op["base"]), "ab") as f:
                    f.write(blob(op["blob"]))
                model[op["base"]] = model.get(op["base"], b"") + blob(op["blob"])
                continue
            rc, out, _err = _exec_rotate(d, op)
            if rc != 0:
                raise Violation(f"step {step}: rotate exited {rc}", case, "rotate-exit")
            if op["dry"]:
                labels.add("dry-run")
            elif op["via"] == "one":
                model, did = rotmodel.rotate_one(model, op["pattern"], op["backups"])
                rot = [op["pattern"]] if did else []
            else:
                model, rot = rotmodel.rotate_dir(model, op["pattern"], op["max_bytes"], op["backups"])
            got = read_tree(d)
            if got != model:
                sig = "rotate-dry-run-changes" if op["dry"] else _classify(before, got, model)
                raise Violation(f"step {step} {op}: directory differs from the reference model: "
                                f"{_diff_state(got, model)}", case, sig)
            if not op["dry"]:
                if rot:
                    eff += len(rot)
                    labels.add("via=" + op["via"])
                    for b in rot:
                        slots = [k for k, _ in rotmodel.generations(before, b) if k > 0]
                        if op["backups"] in slots:
                            labels.add("dropped-oldest")
                        if slots and slots != list(range(1, len(slots) + 1)):
                            labels.add("gap")
                        if any(k > op["backups"] for k in slots):
                            labels.add("extras-beyond-N")
                        moved = [k for k in slots if k < op["backups"]]
                        if _digit_boundary(set(moved) | {k + 1 for k in moved}):
                            labels.add("moves-across-digit-boundary")
                        if op["backups"] >= 10:
                            labels.add("backups>=10" if op["backups"] < 100 else "backups>=100")
                    if any(len(before[b]) == op["max_bytes"] for b in rot):
                        labels.add("size==max")
                else:
                    labels.add("below-threshold" if op["backups"] >= 1 else "backups<1")
        if rec is not None:
            nt = eff >= 2 and pre_gen
            rec.case(nontrivial=nt, dig=digest(case) if nt else None,
                     labels=sorted(labels) + [f"rotations={min(eff, 4)}"] + (["pre-existing"] if pre_gen else []),
                     sample={"init": sorted(case["init"]), "ops": case["ops"][:5], "final": sorted(model)} if nt else None)
    finally:
        shutil.rmtree(d, ignore_errors=True)


def sub_rotation(rec, seed, shard, nshards, n=100):
    import clematis.cli.main  # noqa: F401  (import cost outside the examples)
    run_hypothesis(rec, seed, rotation_cases(), lambda c: check_rotation(c, rec), max_examples=n, name="rotation")


# ================================================================================================
# 5b. rotation crash points
# ================================================================================================

def _write_dir(d, files):
    for n, data in files.items():
        with open(os.path.join(d, n), "wb") as f:
            f.write(data)


def _call_rotation(d, base, backups, via):
    import clematis.scripts.rotate_logs as R
    if via == "one":
        R.rotate_one(os.path.join(d, base), backups)
    else:
        R.main(["--dir", d, "--pattern", base, "--max-bytes", "0", "--backups", str(backups)])


def _age_of(files, base):
    """content -> original age (0 = live, k = slot k)."""
    return {files[n]: k for k, n in rotmodel.generations(files, base)}


def check_after_interruption(case, files, state, point):
    """O1-O3: nothing but the window's oldest generation lost, nothing duplicated, nothing else touched, order kept."""
    base, N = case["base"], case["backups"]
    oldest = files.get(f"{base}.{N}")
    contents = list(state.values())
    for n, data in files.items():
        c = contents.count(data)
        if c > 1:
            raise Violation(f"{point}: content of {n} now exists {c} times", dict(case, point=point), "crash-duplicate")
        if c == 0 and data != oldest:
            return ("lost", n)
    for n, data in state.items():
        if data not in files.values():
            raise Violation(f"{point}: {n} holds content that never existed", dict(case, point=point), "crash-foreign")
    for n, data in files.items():
        if n != base and (rotmodel.slot_of(n, base) is None or rotmodel.slot_of(n, base) > N):
            if state.get(n) != data:
                raise Violation(f"{point}: unrelated file {n} changed", dict(case, point=point), "crash-unrelated")
    age = _age_of(files, base)
    seq = [age[state[n]] for _k, n in rotmodel.generations(state, base)]
    if seq != sorted(seq) or len(set(seq)) != len(seq):
        raise Violation(f"{point}: generations out of age order: slots "
                        f"{[n for _k, n in rotmodel.generations(state, base)]} hold original ages {seq}",
                        dict(case, point=point), "crash-order")
    return None


def check_crash_case(case, rec=None):
    import clematis.scripts.rotate_logs as R
    import clematis.io.atomic as A
    base, N, via = case["base"], case["backups"], case["via"]
    files = {n: blob(s) for n, s in case["files"].items()}
    mods = [R, A]
    d0 = tempfile.mkdtemp(prefix="c16_crash_")
    try:
        # recording pass
        d = os.path.join(d0, "rec")
        os.mkdir(d)
        _write_dir(d, files)
        plan = {"steps": [], "mode": "record", "at": -1}
        with shadow_os(plan, mods):
            _call_rotation(d, base, N, via)
        steps = plan["steps"]
        full = read_tree(d)
        want_full, _ = rotmodel.rotate_one(files, base, N)
        if full != want_full:
            raise Violation(f"uninterrupted rotation differs from the reference model: {_diff_state(full, want_full)}",
                            case, _classify(files, full, want_full))
        S = len(steps)
        points = [("kill_before", i) for i in range(S)] + ([("kill_after", S - 1)] if S else [])
        if case.get("errors"):
            points += [("raise", i) for i in range(S)]
        for pi, (mode, at) in enumerate(points):
            d = os.path.join(d0, f"p{pi}")
            os.mkdir(d)
            _write_dir(d, files)
            plan = {"steps": [], "mode": mode, "at": at}

            def child():
                with shadow_os(plan, mods):
                    _call_rotation(d, base, N, via)
            code = fork_run(child)
            point = f"{mode}@{at}:{steps[at][0]}({','.join(steps[at][1])})"
            if mode.startswith("kill") and code != 137:
                raise RuntimeError(f"kill injection {point} did not fire: exit {code}")
            if mode == "raise" and code not in (0, 98):
                raise RuntimeError(f"error injection {point}: child exit {code}")
            state = read_tree(d)
            lost = check_after_interruption(case, files, state, point)
            if lost is not None:
                if mode == "raise":
                    if rec is not None and rec.is_known(F_ROT_ERR):
                        if rec is not None:
                            rec.label("error-deletes-source(known)")
                        shutil.rmtree(d)
                        continue
                    raise Violation(f"{point}: the rename failed with EIO and rotation then DELETED {lost[1]} (not the "
                                    f"oldest generation of the window); directory now {sorted(state)}",
                                    dict(case, point=point), "rotate-error-deletes-generation")
                raise Violation(f"{point}: content of {lost[1]} is gone although it is not the oldest generation of the "
                                f"window; directory now {sorted(state)}", dict(case, point=point), "crash-lost-generation")
            # recovery: new data arrives, the next rotation runs to completion
            newdata = b"#new:....\n"
            with open(os.path.join(d, base), "ab") as f:
                f.write(newdata)
            state2 = dict(state)
            state2[base] = state2.get(base, b"") + newdata
            _call_rotation(d, base, N, "main")
            got = read_tree(d)
            want, _ = rotmodel.rotate_one(state2, base, N)
            if got != want:
                raise Violation(f"{point}: rotation after the interruption differs from the reference: "
                                f"{_diff_state(got, want)}", dict(case, point=point), "crash-recovery")
            age = _age_of(files, base)
            age[state2[base]] = -1  # the live file (old live content + new data, or new data only) is the newest
            seq = [age.get(got[n]) for _k, n in rotmodel.generations(got, base)]
            if None in seq or seq != sorted(seq):
                raise Violation(f"{point}: after recovery generations hold ages {seq}", dict(case, point=point),
                                "crash-recovery-order")
            shutil.rmtree(d)
            if rec is not None:
                nt = S >= 2 and 0 < at and mode != "raise"
                rec.case(nontrivial=nt, dig=None, labels=[mode, "step=" + steps[at][0], f"via={via}"] +
                         ([f"S={min(S, 6)}"] if pi == 0 else []),
                         sample={"case": case, "steps": steps, "point": point} if nt and pi == 1 else None)
    finally:
        shutil.rmtree(d0, ignore_errors=True)


def gen_crash_case(rnd, errors):
    base = rnd.choice(BASES)
    N = rnd.choice([1, 2, 2, 3, 3, 4, 5, 10, 11])
    serial = 0
    files = {}
    serial += 1
    files[base] = [serial, rnd.randint(0, 30)]
    style = rnd.random()
    for k in range(1, N + 3):
        if style < 0.4:
            present = k <= N            # full window
        elif style < 0.6:
            present = k <= N + 1        # plus one extra beyond N
        else:
            present = rnd.random() < 0.6  # gaps
        if present:
            serial += 1
            files[f"{base}.{k}"] = [serial, rnd.randint(0, 30)]
    for sfx in rnd.sample(NOISE_SUFFIX, rnd.randint(0, 2)):
        serial += 1
        files[base + sfx] = [serial, 3]
    return {"base": base, "backups": N, "via": rnd.choice(["one", "main"]), "files": files, "errors": errors}


def sub_rotation_crash(rec, seed, shard, nshards, dirs=12, errors=True):
    rnd = random.Random(seed)
    for _ in range(dirs):
        case = gen_crash_case(rnd, errors)
        try:
            check_crash_case(case, rec)
        except Violation as v:
            rec.violation("rotation_crash: " + v.message, v.case, v.sig)
            return


def probe_rotate_error():
    case = {"base": "a.jsonl", "backups": 3, "via": "one", "errors": True,
            "files": {"a.jsonl": [1, 1], "a.jsonl.1": [2, 1], "a.jsonl.2": [3, 1]}}
    try:
        check_crash_case(case, None)
    except Violation as v:
        return v.sig == "rotate-error-deletes-generation"
    return False


# ================================================================================================
# 6. bulk: captures / staged batches / appends / rewrites far beyond "a handful of lines"
# ================================================================================================

# sizes around typical internal bounds (powers of two +-1, round thousands); tiny records keep it cheap
BULK_SIZES_QUICK = [1000, 4095, 4096, 4097, 5000, 10000]
BULK_SIZES_MORE = [255, 256, 257, 1023, 1024, 1025, 2047, 2048, 2049, 8191, 8192, 8193, 16384, 16385, 20000, 32769,
                   65537]
BULK_KINDS = ["mux_flush", "mux_stage", "driver_capture", "staged", "append", "rewrite"]
BULK_STREAMS = [["t1.jsonl"], ["turn.jsonl", "custom.jsonl"], ["t2.jsonl", "sub/t1.jsonl", "health.jsonl"]]


def _bulk_plan(case):
    """[(stream, record)] of one writer, deterministic from the case: tiny tagged records, now and then a repeat of
    the stream (runs) so that per-stream order is meaningful."""
    r = random.Random(f"{case['sseed']}|bulk")
    streams = case["streams"]
    return [(streams[r.randrange(len(streams))], {"i": k, "ms": 1.5} if k % 7 == 0 else {"i": k})
            for k in range(case["n"])]


def check_bulk(case, rec=None):
    """One writer emits n records; whatever path they take (capture + flush, capture + staging, the driver's own
    capture/stage/flush, staging with a byte limit, plain appends, one rewrite), every stream afterwards holds
    exactly that writer's records for it, each once, in the order they were emitted."""
    from clematis.io import log as iolog
    from clematis.engine.util import logmux, io_logging as IOL
    from clematis.engine.orchestrator import logging as ologging
    from clematis.engine import orchestrator as orch
    W = _writers()
    kind, n = case["kind"], case["n"]
    ci_on = lognorm.ci_active(case["ci"])
    plan = _bulk_plan(case)
    via = case.get("via", "io")
    leak = None
    with sandbox(case["ci"]) as logs:
        if kind in ("mux_flush", "mux_stage"):
            if case.get("capture") == "begin_end":
                mux, token = ologging._begin_log_capture()
                try:
                    for fn, r_ in plan:
                        W[via](fn, r_)
                finally:
                    ologging._end_log_capture(token)
            else:
                mux = logmux.LogMux()
                with logmux.use_mux(mux):
                    for fn, r_ in plan:
                        W[via](fn, r_)
            leak = sorted(read_tree(logs))
            pairs = mux.dump()
            if kind == "mux_flush":
                logmux.flush(pairs)
            else:  # what the batch driver does with a capture: stage every pair, flush the sorted drain
                run_protocol([(fn, 5, 0) for fn, _ in pairs], [pl for _, pl in pairs], case.get("limit") or (1 << 25))
        elif kind == "driver_capture":
            # the real batch driver; its compute phase is a stub that captures like _run_turn_compute does
            def compute(ctx, base, aid, text):
                mux, token = orch._begin_log_capture()
                try:
                    for fn, r_ in plan:
                        W[via](fn, r_)
                    captured = mux.dump()
                finally:
                    orch._end_log_capture(token)
                return {"turn_id": 5, "slice_idx": 0, "agent_id": aid, "logs": captured, "deltas": [],
                        "dialogue": "ok", "graphs_touched": set(), "graph_versions": {}}

            def apply_changes(ctx, state, t4):
                return SNS(applied=0, clamps=0, version_etag="e1", snapshot_path="snap",
                           metrics={"cache_invalidations": 0})
            names = ("_run_turn_compute", "apply_changes", "_make_readonly_snapshot")
            saved = {k: orch.__dict__.get(k) for k in names}
            orch._run_turn_compute = compute
            orch.apply_changes = apply_changes
            orch._make_readonly_snapshot = lambda s_: s_
            try:
                cfg = {"perf": {"enabled": True, "parallel": {"enabled": True, "max_workers": 8, "agents": True}}}
                orch._run_agents_parallel_batch(SNS(cfg=cfg, turn_id=5), {"graphs_by_agent": {"A0": ["G0"]}},
                                                [("A0", "hi")])
            finally:
                for k, v in saved.items():
                    if v is None:
                        orch.__dict__.pop(k, None)
                    else:
                        setattr(orch, k, v)
                IOL.disable_staging()
        elif kind == "staged":
            _chunks, escaped = run_protocol([(fn, 5, 0) for fn, _ in plan], [r_ for _, r_ in plan],
                                            case.get("limit") or (1 << 25))
            if escaped is not None:
                raise Violation(f"bulk staged: {BACKPRESSURE} escaped the drain->flush->retry cycle at record "
                                f"#{escaped}", case, "stager-retry-fails")
        elif kind == "append":
            for fn, r_ in plan:
                W[via](fn, r_)
        else:  # rewrite: one stream, all records
            iolog.rewrite_jsonl(case["streams"][0], (r_ for _, r_ in plan))
        tree = read_tree(logs)
    want = {}
    for fn, r_ in plan:
        fn = case["streams"][0] if kind == "rewrite" else fn
        want.setdefault(fn, []).append(lognorm.ref_normalize(os.path.basename(fn), r_, ci_on))
    if kind == "driver_capture":
        want.setdefault("apply.jsonl", [])
    got_all = {name: parse_lines(data, case, f"bulk {kind} {name}") for name, data in tree.items()}
    got = {name: recs for name, recs in got_all.items() if name != "apply.jsonl" or kind != "driver_capture"}
    want_cmp = {name: recs for name, recs in want.items() if name != "apply.jsonl" or kind != "driver_capture"}
    note = f" (files on disk while the capture was still open: {leak})" if leak else ""
    if sorted(got) != sorted(want_cmp):
        raise Violation(f"bulk {kind} n={n}: streams on disk {sorted(got)} != streams written {sorted(want_cmp)}{note}",
                        case, "bulk-files")
    for name, w in want_cmp.items():
        ids = [g.get("i") if isinstance(g, dict) else None for g in got[name]]
        wids = [x["i"] for x in w]
        if sorted(map(repr, ids)) != sorted(map(repr, wids)):
            lost = len(set(wids) - set(ids))
            raise Violation(f"bulk {kind} n={n}: {name} holds {len(ids)} lines for {len(wids)} records of the writer "
                            f"({lost} missing){note}", case, "bulk-multiset")
        if ids != wids:
            k = next(j for j, (a, b) in enumerate(zip(ids, wids)) if a != b)
            raise Violation(f"bulk {kind} n={n}: {name}: the writer's records are out of order from line {k}: "
                            f"on disk {ids[k:k + 4]}..., emitted {wids[k:k + 4]}...{note}", case, "bulk-order")
        for g, x in zip(got[name], w):
            if not (lognorm.loose_key_eq(g, x) if kind == "rewrite" else lognorm.strict_eq(g, x)):
                raise Violation(f"bulk {kind} n={n}: {name} holds {g}, record is {x}", case, "bulk-payload")
    if leak:
        raise Violation(f"bulk {kind} n={n}: records reached the disk while a LogMux was capturing: {leak}", case,
                        "mux-leak")
    if rec is not None:
        rec.case(nontrivial=n >= 1000, dig=digest(case),
                 labels=[f"kind={kind}", f"n={n}" if n in BULK_SIZES_QUICK else ("n<1000" if n < 1000 else "n=other>=1000"),
                         f"streams={len(case['streams'])}", f"ci={case['ci']}"] +
                        ([f"via={via}"] if kind in ("mux_flush", "mux_stage", "driver_capture", "append") else []) +
                        (["byte-limit"] if case.get("limit") else []),
                 sample=dict(case) if n >= 4096 else None)


def sub_bulk(rec, seed, shard, nshards, more=0):
    rnd = random.Random(seed)
    combos = [(k, n) for k in BULK_KINDS for n in BULK_SIZES_QUICK]
    extra = [(rnd.choice(BULK_KINDS), rnd.choice(BULK_SIZES_MORE + [rnd.randint(1, 12000)])) for _ in range(more)]
    for idx, (kind, n) in enumerate(combos + extra):
        if idx % nshards != shard and idx < len(combos):
            continue
        if kind == "append" and n > 20000:
            n = 20000
        case = {"kind": kind, "n": n, "ci": rnd.choice(["true", None]), "streams": rnd.choice(BULK_STREAMS),
                "sseed": rnd.getrandbits(32), "via": rnd.choice(MUX_VIAS), "capture": rnd.choice(["use_mux", "begin_end"]),
                "limit": rnd.choice([None, None, 4096, 65536]) if kind in ("staged", "mux_stage") else None}
        try:
            check_bulk(case, rec)
        except Violation as v:
            rec.violation("bulk: " + v.message, v.case, v.sig)
            return


# ================================================================================================
# replay glue
# ================================================================================================

def _unjson(x):
    if isinstance(x, dict):
        if set(x) == {"__float__"}:
            return float(x["__float__"])
        return {k: _unjson(v) for k, v in x.items()}
    if isinstance(x, list):
        return [_unjson(v) for v in x]
    return x


def _replay(fn):
    def run(case):
        case = _unjson(case)
        case.pop("limit", None)
        case.pop("point", None)
        fn(case, None)
    return run


SUBCHECKS = [
    Sub("append", sub_append, quick={"n": 300}, thorough={"n": 3200}, shards_quick=4, shards_thorough=16,
        replay=_replay(check_append)),
    Sub("append_concurrent", sub_append_concurrent, quick={"rounds": 15, "recs": 30},
        thorough={"rounds": 100, "recs": 60}, shards_quick=4, shards_thorough=16, replay=_replay(run_round)),
    Sub("normalize", sub_normalize, quick={"n": 500}, thorough={"n": 3200}, shards_quick=4, shards_thorough=16,
        replay=_replay(check_norm)),
    Sub("stager_sort", sub_stager_sort, quick={"n": 200}, thorough={"n": 2500}, shards_quick=2, shards_thorough=8,
        replay=_replay(check_sort)),
    Sub("stager_protocol", sub_stager_protocol, quick={"n": 100}, thorough={"n": 1500}, shards_quick=4,
        shards_thorough=16, replay=_replay(check_protocol)),
    Sub("stager_driver", sub_stager_driver, quick={"n": 60}, thorough={"n": 600}, shards_quick=4, shards_thorough=16,
        replay=_replay(check_driver)),
    Sub("compaction", sub_compaction, quick={"n": 100}, thorough={"n": 700}, shards_quick=4, shards_thorough=16,
        replay=_replay(check_compaction)),
    Sub("rotation", sub_rotation, quick={"n": 100}, thorough={"n": 700}, shards_quick=4, shards_thorough=16,
        replay=_replay(check_rotation)),
    Sub("rotation_crash", sub_rotation_crash, quick={"dirs": 12}, thorough={"dirs": 80}, shards_quick=4,
        shards_thorough=16, exhaustive=False, replay=_replay(check_crash_case)),
    Sub("bulk", sub_bulk, quick={"more": 0}, thorough={"more": 12}, shards_quick=4, shards_thorough=16,
        replay=_replay(check_bulk)),
]

KNOWN_PROBES = {F_STAGER: probe_stager_limit, F_ROT_ERR: probe_rotate_error}
