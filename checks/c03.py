"""C03 — meta-filter output always stays inside the safety envelope.

Oracles: (A) envelope predicates, (B) exact-rational reference pipeline, (C) metamorphic: permutation
invariance, repeatability, purity (arguments never mutated).
"""
from __future__ import annotations

import copy
import math
from fractions import Fraction
from types import SimpleNamespace

from hypothesis import strategies as st

from harness.runner import Sub, Violation, run_hypothesis, digest

LEVEL = "exploration"
RULE = ("Hypothesis-generated (deltas with forced duplicate targets, ops, cooldown history, turn, caps in the "
        "validator's accepted ranges). Non-trivial = at least one duplicate target AND (>=2 pipeline stages fired "
        "or a value sits exactly on / one ulp around a cap). Distinct = digest of the whole input.")
ASSUMPTIONS = ["delta magnitudes are any finite floats (intermediate and final sums may overflow: the exact sum is rounded, beyond the range it is +-inf and then clamped); attrs contain no ':'",
               "L2 tolerance 1e-12 relative (one rounding of sqrt/division)"]

IDS = ["n:a", "n:b", "e:a|r|b", "n:é", "n:a:b"]
KINDS = ["node", "edge"]
ATTRS = ["weight", "bias"]
OPKINDS = ["Speak", "EditGraph", "RequestRetrieve", "CreateGraph", "Weird", ""]


def _types():
    from clematis.engine.types import ProposedDelta, OpRef, EditGraphOp, SpeakOp, Plan
    return ProposedDelta, OpRef, EditGraphOp, SpeakOp, Plan


# ---------------------------------------------------------------- strategies

def _values(novelty):
    dyadic = st.integers(-2048, 2048).map(lambda i: i / 1024.0)
    around = st.sampled_from([novelty, -novelty, novelty * (1 + 2 ** -52), novelty * (1 - 2 ** -53),
                              -novelty * (1 + 2 ** -52), 0.0, -0.0, 5e-324, -5e-324, 1e300, -1e300, 1e16, -1e16, 1.0,
                              1e308, -1e308, 1.7976931348623157e308, -1.7976931348623157e308])
    general = st.floats(allow_nan=False, allow_infinity=False)
    small = st.floats(min_value=-2.0, max_value=2.0, allow_nan=False)
    return st.one_of(dyadic, dyadic, around, general, small)


@st.composite
def cases(draw):
    novelty = draw(st.one_of(st.sampled_from([1.0, 0.3, 0.5, 0.25, 1e-9, 2 ** -10]),
                             st.floats(min_value=1e-12, max_value=1.0, exclude_min=False)))
    n_ops = draw(st.integers(0, 4))
    ops = []
    for _ in range(n_ops):
        k = draw(st.sampled_from(OPKINDS))
        shape = draw(st.sampled_from(["dict", "ns", "dc"]))
        ops.append({"kind": k, "shape": shape})
    n = draw(st.integers(0, 12))
    # forced duplicates: targets are drawn from a small pool chosen first
    pool = draw(st.lists(st.tuples(st.sampled_from(KINDS), st.sampled_from(IDS), st.sampled_from(ATTRS)),
                         min_size=1, max_size=4, unique=True))
    deltas = []
    vals = _values(novelty)
    for i in range(n):
        tk, tid, attr = draw(st.sampled_from(pool))
        v = draw(vals)
        op_idx = draw(st.one_of(st.none(), st.integers(0, max(0, n_ops))))
        idx = draw(st.one_of(st.none(), st.integers(0, 20)))
        deltas.append({"k": tk, "id": tid, "attr": attr, "v": v, "op_idx": op_idx, "idx": idx})
    # cancellation triple now and then
    if n >= 1 and draw(st.booleans()):
        tk, tid, attr = draw(st.sampled_from(pool))
        x = draw(st.sampled_from([1e16, 1e300, 3.0, 0.1, 1e308]))
        y = draw(st.sampled_from([1.0, 0.25, 1e-3]))
        vals_ = (x, x, -x, -x, y) if (x >= 1e308 or draw(st.booleans())) else (x, y, -x)  # intermediate sums may overflow
        trip = [{"k": tk, "id": tid, "attr": attr, "v": v, "op_idx": None, "idx": None} for v in vals_]
        deltas.extend(trip)
    cooldowns = draw(st.dictionaries(st.sampled_from(OPKINDS[:5]), st.integers(0, 5), max_size=4))
    last = draw(st.dictionaries(st.sampled_from(OPKINDS[:5]),
                                st.one_of(st.integers(-2, 10), st.sampled_from([2.0, "3", None, True])), max_size=4))
    meta_shape = draw(st.sampled_from(["dict", "attr", "none"]))
    turn = draw(st.one_of(st.integers(0, 10), st.integers(0, 10).map(str), st.sampled_from(["junk", "", None, 3.7])))
    l2 = draw(st.one_of(st.sampled_from([1.5, 1e-9, 1e6, 0.3, 0.5, 1.0, 2 ** -5]),
                        st.floats(min_value=1e-9, max_value=1e3)))
    churn = draw(st.integers(0, len(deltas) + 2))
    perm = draw(st.permutations(list(range(len(deltas)))))
    cfg_shape = draw(st.sampled_from(["full", "full", "partial"]))
    return {"novelty": novelty, "l2": l2, "churn": churn, "ops": ops, "deltas": deltas, "cooldowns": cooldowns,
            "last": last, "meta_shape": meta_shape, "turn": turn, "perm": list(perm), "cfg_shape": cfg_shape}


# ---------------------------------------------------------------- build real arguments

def build(case, order=None):
    ProposedDelta, OpRef, EditGraphOp, SpeakOp, Plan = _types()
    ops = []
    for o in case["ops"]:
        if o["shape"] == "dict":
            ops.append({"kind": o["kind"]})
        elif o["shape"] == "ns" or o["kind"] not in ("Speak", "EditGraph"):
            ops.append(SimpleNamespace(kind=o["kind"]))
        elif o["kind"] == "Speak":
            ops.append(SpeakOp(kind="Speak", intent="ack", topic_labels=[], max_tokens=8))
        else:
            ops.append(EditGraphOp(kind="EditGraph", edits=[], cap=4))
    idxs = order if order is not None else range(len(case["deltas"]))
    deltas = [ProposedDelta(target_kind=d["k"], target_id=d["id"], attr=d["attr"], delta=d["v"], op_idx=d["op_idx"],
                            idx=d["idx"]) for d in (case["deltas"][i] for i in idxs)]
    plan = Plan(version="t3-plan-v1", ops=ops, deltas=deltas)
    t4 = {"delta_norm_cap_l2": case["l2"], "novelty_cap_per_node": case["novelty"], "churn_cap_edges": case["churn"],
          "cooldowns": dict(case["cooldowns"])}
    ctx = SimpleNamespace(config=SimpleNamespace(t4=t4), turn_id=case["turn"])
    if case["meta_shape"] == "dict":
        state = {"meta": {"cooldowns": dict(case["last"])}}
    elif case["meta_shape"] == "attr":
        state = SimpleNamespace(meta=SimpleNamespace(cooldowns=dict(case["last"])))
    else:
        state = {}
    return ctx, state, plan


# ---------------------------------------------------------------- reference model

def ckey(d):
    return f"{d['k']}:{d['id']}:{d['attr']}"


def ref_turn(turn):
    try:
        return int(turn)
    except Exception:
        return 0


def ref_blocked(case):
    if case["meta_shape"] == "none":
        last = {}
    else:
        last = case["last"]
    turn = ref_turn(case["turn"])
    out = []
    for i, o in enumerate(case["ops"]):
        kind = o["kind"]
        if not kind:
            continue
        cd = case["cooldowns"].get(kind)
        if not cd:
            continue
        lt = last.get(kind)
        if isinstance(lt, int) and (turn - lt) < int(cd):
            out.append(i)
    return out


def ref_pipeline(case):
    """Exact-rational merge -> cooldown -> clamp -> uniform scale -> top-K. Returns dict with stage info."""
    merged = {}
    for d in case["deltas"]:
        k = ckey(d)
        if k not in merged:
            merged[k] = {"sum": Fraction(0), "op": None, "n": 0}
        m = merged[k]
        m["sum"] += Fraction(d["v"])
        m["n"] += 1
        if d["op_idx"] is not None:
            m["op"] = d["op_idx"] if m["op"] is None else min(m["op"], d["op_idx"])
    blocked = set(ref_blocked(case))
    def _to_float(fr):
        try:
            return float(fr)
        except OverflowError:  # the exact sum lies beyond the float range
            return math.inf if fr > 0 else -math.inf
    after = {k: _to_float(m["sum"]) for k, m in merged.items() if m["op"] is None or m["op"] not in blocked}
    cap = abs(float(case["novelty"]))
    n_clamped = sum(1 for v in after.values() if abs(v) > cap)
    clamped = {k: (math.copysign(cap, v) if abs(v) > cap else v) for k, v in after.items()}
    norm = math.sqrt(math.fsum(v * v for v in clamped.values()))
    l2 = float(case["l2"])
    scale = 1.0
    if norm > l2 and norm != 0.0:
        scale = l2 / norm
    scaled = {k: v * scale for k, v in clamped.items()}
    k_cap = int(case["churn"])
    keys = sorted(scaled, key=lambda k: (-abs(scaled[k]), k))
    kept = keys[:k_cap] if len(keys) > k_cap else keys
    return {"merged": merged, "blocked": sorted(blocked), "after": after, "clamped": clamped, "n_clamped": n_clamped,
            "norm": norm, "scale": scale, "scaled": scaled, "kept": sorted(kept), "dropped": max(0, len(keys) - k_cap)}


def res_view(r):
    return ([(d.target_kind, d.target_id, d.attr, d.delta, d.op_idx, d.idx) for d in r.approved_deltas],
            [(o.kind, o.idx) for o in r.rejected_ops], list(r.reasons), r.metrics)


def views_equal(a, b):
    return a == b  # float == : -0.0 == 0.0, no NaN in the domain


# ---------------------------------------------------------------- the oracle

def check_case(case, rec=None):
    from clematis.engine.stages.t4 import t4_filter

    ctx, state, plan = build(case)
    snap = copy.deepcopy((ctx, state, plan))
    try:
        r1 = t4_filter(ctx, state, None, None, plan, None)
    except Exception as e:  # total on the accepted domain
        raise Violation(f"t4_filter raised {type(e).__name__}: {e}", case, "raises")
    if (ctx, state, plan) != snap:
        raise Violation("t4_filter mutated its arguments", case, "mutates")
    r2 = t4_filter(ctx, state, None, None, plan, None)
    if not views_equal(res_view(r1), res_view(r2)):
        raise Violation("two calls on the same arguments differ", case, "nondeterministic")

    ref = ref_pipeline(case)
    app = r1.approved_deltas
    keys = [f"{d.target_kind}:{d.target_id}:{d.attr}" for d in app]
    proposed = {ckey(d) for d in case["deltas"]}
    nov = abs(float(case["novelty"]))
    l2 = float(case["l2"])

    # --- A: envelope
    if len(set(keys)) != len(keys):
        raise Violation(f"more than one approved delta for a target: {keys}", case, "dup-target")
    if not set(keys) <= proposed:
        raise Violation(f"approved target never proposed: {sorted(set(keys) - proposed)}", case, "unproposed")
    for d in app:
        if not (abs(d.delta) <= nov):
            raise Violation(f"|delta|={abs(d.delta)!r} exceeds novelty cap {nov!r} for {d.target_id}", case, "novelty")
    norm = math.sqrt(math.fsum(d.delta * d.delta for d in app))
    if norm > l2 * (1 + 1e-12):
        raise Violation(f"L2 norm {norm!r} exceeds cap {l2!r}", case, "l2")
    if len(app) > int(case["churn"]):
        raise Violation(f"{len(app)} approved > churn cap {case['churn']}", case, "churn")
    blocked = set(ref["blocked"])
    for d, k in zip(app, keys):
        if ref["merged"][k]["op"] is not None and ref["merged"][k]["op"] in blocked:
            raise Violation(f"approved delta {k} originates from op {ref['merged'][k]['op']} in cooldown", case, "cooldown")
    want_rej = [(case["ops"][i]["kind"], i) for i in ref["blocked"]]
    got_rej = [(o.kind, o.idx) for o in r1.rejected_ops]
    if got_rej != want_rej:
        raise Violation(f"rejected_ops {got_rej} != blocked ops {want_rej}", case, "rejected-ops")
    if keys != sorted(keys):
        raise Violation(f"approved not in canonical target order: {keys}", case, "order")

    # --- B: reference pipeline (keys and values)
    tol = lambda x: max(1e-12 * abs(x), 1e-322)
    near_norm = abs(ref["norm"] - l2) <= 1e-12 * max(l2, ref["norm"])
    # reasons <=> stage effects
    want = []
    if ref["blocked"]:
        want.append("COOLDOWN_BLOCKED")
    if ref["n_clamped"] > 0:
        want.append("NOVELTY_SPIKE")
    norm_reason_ambiguous = near_norm or abs(ref["scale"] - 0.999999) < 1e-9
    if ref["scale"] < 0.999999:
        want.append("DELTA_NORM_HIGH")
    if ref["dropped"] > 0:
        want.append("CHURN_CAP_HIT")
    got = list(r1.reasons)
    if norm_reason_ambiguous:
        got = [x for x in got if x != "DELTA_NORM_HIGH"]
        want = [x for x in want if x != "DELTA_NORM_HIGH"]
    if got != want:
        raise Violation(f"reasons {r1.reasons} != stage effects {want}", case, "reasons")

    # top-K validity (ties inside tolerance: either choice accepted)
    kept = set(keys)
    cand = ref["scaled"]
    if kept - set(cand):
        raise Violation(f"approved {sorted(kept - set(cand))} should have been removed before the caps", case, "ref-keys")
    want_n = min(len(cand), int(case["churn"]))
    if len(kept) != want_n:
        raise Violation(f"approved {len(kept)} deltas, documented pipeline keeps {want_n}", case, "ref-count")
    pre = ref["clamped"]
    for a in kept:
        for b in set(cand) - kept:
            ma, mb = abs(pre[a]), abs(pre[b])
            if ma == mb:
                if not a < b and abs(cand[a]) == abs(cand[b]):
                    raise Violation(f"tie at churn boundary broken against key order: kept {a}, dropped {b}", case, "tie")
            elif ma < mb * (1 - 1e-12):
                raise Violation(f"kept {a} (|{pre[a]!r}|) while dropping larger {b} (|{pre[b]!r}|)", case, "topk")
    if not near_norm:
        for d, k in zip(app, keys):
            if abs(d.delta - cand[k]) > tol(cand[k]):
                raise Violation(f"value for {k}: got {d.delta!r}, documented pipeline gives {cand[k]!r}", case, "ref-value")

    # --- C: permutation invariance
    ctx2, state2, plan2 = build(case, order=case["perm"])
    r3 = t4_filter(ctx2, state2, None, None, plan2, None)
    v1, v3 = res_view(r1), res_view(r3)
    if not views_equal(v1, v3):
        raise Violation(f"result depends on the order of the delta list: {v1[0]} vs {v3[0]} (perm {case['perm']})", case,
                        "order-dependent")

    if rec is not None:
        dup = any(m["n"] > 1 for m in ref["merged"].values())
        boundary = any(abs(d["v"]) in (nov, nov * (1 + 2 ** -52), nov * (1 - 2 ** -53)) for d in case["deltas"])
        stages = len(r1.reasons)
        labels = [f"reasons={stages}"] + (["dup"] if dup else []) + (["boundary"] if boundary else []) + \
                 (["blocked"] if ref["blocked"] else []) + (["near_norm"] if near_norm else [])
        nt = dup and (stages >= 2 or boundary)
        rec.case(nontrivial=nt, dig=digest(case) if nt else None, labels=labels,
                 sample={"deltas": case["deltas"][:6], "caps": [case["novelty"], case["l2"], case["churn"]],
                         "reasons": list(r1.reasons), "approved": [(k, d.delta) for k, d in zip(keys, app)][:6]} if nt else None)


def sub_envelope(rec, seed, shard, nshards, n=1000, shrink=True):
    run_hypothesis(rec, seed, cases(), lambda c: check_case(c, rec), max_examples=n, shrink=shrink, name="envelope")


def _fix_floats(x):
    if isinstance(x, dict):
        if set(x) == {"__float__"}:
            return float(x["__float__"])
        return {k: _fix_floats(v) for k, v in x.items()}
    if isinstance(x, list):
        return [_fix_floats(v) for v in x]
    return x


def replay_case(case):
    check_case(_fix_floats(case), None)


SUBCHECKS = [
    Sub("envelope", sub_envelope, quick={"n": 1000}, thorough={"n": 10000}, shards_quick=4, shards_thorough=16,
        replay=replay_case),
]
