"""Reference model of the deterministic parallel helper (C09), written from the docstring of `run_parallel`
and docs/m9/parallel_helper.md - plain lists, no threads.

A task is described by (key, fail) where fail is None or (exc_type_name, message); the result of task i is ("r", i).
"""
from __future__ import annotations

from typing import Any, Callable, List, Optional, Sequence, Tuple


def ref_run_parallel(keys: Sequence[Any], fails: Sequence[Optional[Tuple[str, str]]], max_workers: int,
                     order_key: Callable[[Any], Any]) -> dict:
    """Documented behaviour.

    returns {"kind": "ok", "pairs": [(key, ("r", i)), ...], "ran": [i, ...]}      merge_fn called once with pairs
         or {"kind": "err", "errors": [(key, exc_type, message), ...], "ran": [...]}  merge_fn never called
    `ran` = indices of the thunks that execute (each exactly once), ascending.
    """
    n = len(keys)
    if n == 0:
        return {"kind": "ok", "pairs": [], "ran": []}
    if max_workers <= 1:
        # plain loop + stable sort; the first failure aborts the loop: later thunks never start
        pairs: List[Tuple[int, Any]] = []
        for i in range(n):
            if fails[i] is not None:
                return {"kind": "err", "errors": [(keys[i], fails[i][0], fails[i][1])], "ran": list(range(i + 1))}
            pairs.append((i, keys[i]))
        pairs = _stable_sort(pairs, order_key)
        return {"kind": "ok", "pairs": [(k, ("r", i)) for i, k in pairs], "ran": list(range(n))}
    # pool: every thunk runs; all failures reported, sorted by (order_key, submit index); no partial merge
    failed = [(i, keys[i]) for i in range(n) if fails[i] is not None]
    if failed:
        failed = _stable_sort(failed, order_key)
        return {"kind": "err", "errors": [(k, fails[i][0], fails[i][1]) for i, k in failed], "ran": list(range(n))}
    pairs = _stable_sort([(i, keys[i]) for i in range(n)], order_key)
    return {"kind": "ok", "pairs": [(k, ("r", i)) for i, k in pairs], "ran": list(range(n))}


def _stable_sort(items: List[Tuple[int, Any]], order_key) -> List[Tuple[int, Any]]:
    """Sort (submit index, key) by (order_key(key), submit index) - insertion sort, independent of list.sort."""
    out: List[Tuple[int, Any]] = []
    for it in items:
        ok = order_key(it[1])
        pos = len(out)
        for j, o in enumerate(out):
            okj = order_key(o[1])
            if ok < okj or (ok == okj and it[0] < o[0]):
                pos = j
                break
        out.insert(pos, it)
    return out


def completion_order(n: int, eff: int, prio: Sequence[int], stop_after: Optional[int] = None) -> List[int]:
    """Completion order produced by a FIFO pool of `eff` workers when, among the running tasks, the one with the
    smallest rank in `prio` always finishes next. eff <= 1 is the caller-thread loop (submission order, cut after
    index `stop_after` if given)."""
    rank = {t: r for r, t in enumerate(prio)}
    if eff <= 1:
        order = list(range(n))
        return order if stop_after is None else order[: stop_after + 1]
    running = list(range(min(eff, n)))
    nxt = len(running)
    order = []
    while running:
        pick = min(running, key=lambda t: rank[t])
        running.remove(pick)
        order.append(pick)
        if nxt < n:
            running.append(nxt)
            nxt += 1
    return order
