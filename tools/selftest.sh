#!/bin/sh
# tools/selftest.sh [PID ...] — run every mutant under mutants/<PID>/ against that property's quick check
# (scratch copy of /repo's tracked files + patch, VERIF_REPO); writes mutants/RESULTS.md.
cd "$(dirname "$0")/.."
PIDS="$@"
[ -z "$PIDS" ] && PIDS=$(ls mutants | grep '^C[0-9]' | sort)
OUT="${SELFTEST_OUT:-mutants/RESULTS.md}"
TMP=$(mktemp)
for pid in $PIDS; do
  [ -f "checks/$(echo $pid | tr 'A-Z' 'a-z').py" ] || continue
  for m in mutants/$pid/*.diff seeded/$pid-*/patch.diff; do
    [ -f "$m" ] || continue
    case "$m" in seeded/*) if grep -q '"quick_check_result": *"[^"]*equivalent' "$(dirname $m)/meta.json" 2>/dev/null; then
        echo "| $pid | seeded/$(basename $(dirname $m)) | equivalent since a fix (see meta.json) |" >> "$TMP"; continue; fi;; esac
    res=$(VERIF_JOBS="${VERIF_JOBS:-8}" tools/mutant.sh "$m" "$pid" 2>&1 | tail -1)
    case "$res" in *CAUGHT*) r=caught;; *"does not apply"*) r="patch-does-not-apply";; *) r=MISSED;; esac
    case "$m" in seeded/*) name="seeded/$(basename $(dirname $m))";; *) name="$(basename $m .diff)";; esac
    echo "| $pid | $name | $r |" >> "$TMP"
    echo "$pid $name $r"
  done
done
{ echo "# Sensitivity results (tools/selftest.sh, quick tier, seed ${VERIF_SEED:-1})"; echo; echo "| property | mutant | result |"; echo "|---|---|---|"; cat "$TMP"; } > "$OUT"
rm -f "$TMP"
