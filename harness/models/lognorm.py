"""Reference model of the CI identity normalisation of log records (property C16).

Transcribed from the *documentation*, not from the code:

* `normalize_for_identity` docstring: "For CI identity checks, strip runtime noise from known identity logs:
  zero `ms`, drop `now`. No-op when CI is not set. [...] also zeroes the "ms" field for the "t3_reflection.jsonl"
  stream even though it is not part of identity logs."
* docs/m9/overview.md "Identity normalization (CI)": "zeroing `ms`/`durations_ms` and dropping `now` when CI=true".
* docs/refactors/PR76: "now also strips `slice_idx`/`yielded` when CI=true" + the code comment it refers to: the
  scheduling context fields are preserved "when a yield actually occurred" and stripped "in the steady path".
* README / docs/m10/reflection.md: for `t3_reflection.jsonl` "only the `ms` field is normalized to 0.0. No other
  fields are mutated"; identity set = t1, t2, t4, apply, turn.
"""
from __future__ import annotations

from typing import Any, Dict, Optional

IDENTITY_STREAMS = ("t1.jsonl", "t2.jsonl", "t4.jsonl", "apply.jsonl", "turn.jsonl")
REFLECTION_STREAM = "t3_reflection.jsonl"

# name -> top-level keys the normaliser is allowed to touch (everything else must come back untouched)
VOLATILE: Dict[str, frozenset] = {
    "t1.jsonl": frozenset({"ms", "now"}),
    "t2.jsonl": frozenset({"ms", "now"}),
    "t4.jsonl": frozenset({"ms", "now"}),
    "apply.jsonl": frozenset({"ms", "now"}),
    "turn.jsonl": frozenset({"ms", "now", "durations_ms", "yielded", "slice_idx"}),
    REFLECTION_STREAM: frozenset({"ms"}),
}


def ci_active(value: Optional[str]) -> bool:
    """Documented switch: CI=true."""
    return value is not None and value.lower() == "true"


def allowed_keys(name: str) -> frozenset:
    return VOLATILE.get(name, frozenset())


def ref_normalize(name: str, rec: Dict[str, Any], ci: bool) -> Dict[str, Any]:
    """Pure reference: returns a NEW dict (key order of the surviving keys preserved)."""
    if not ci or name not in VOLATILE:
        return dict(rec)
    out: Dict[str, Any] = {}
    is_turn = name == "turn.jsonl"
    non_yield = is_turn and not rec.get("yielded")
    for k, v in rec.items():
        if k == "ms":
            out[k] = 0.0
        elif name == REFLECTION_STREAM:
            out[k] = v
        elif k == "now":
            continue
        elif is_turn and k == "durations_ms" and isinstance(v, dict):
            out[k] = {kk: 0.0 for kk in v}
        elif non_yield and k in ("yielded", "slice_idx"):
            continue
        else:
            out[k] = v
    return out


def strict_eq(a: Any, b: Any) -> bool:
    """Deep equality that also distinguishes bool/int/float (they serialise differently) and dict key order."""
    if type(a) is not type(b):
        return False
    if isinstance(a, dict):
        if list(a.keys()) != list(b.keys()):
            return False
        return all(strict_eq(a[k], b[k]) for k in a)
    if isinstance(a, (list, tuple)):
        return len(a) == len(b) and all(strict_eq(x, y) for x, y in zip(a, b))
    if isinstance(a, float):
        return a == b and str(a) == str(b)  # -0.0 vs 0.0
    return a == b


def loose_key_eq(a: Any, b: Any) -> bool:
    """strict_eq but ignoring dict key order (for canonical sorted-key rewrites)."""
    if type(a) is not type(b):
        return False
    if isinstance(a, dict):
        if set(a.keys()) != set(b.keys()):
            return False
        return all(loose_key_eq(a[k], b[k]) for k in a)
    if isinstance(a, (list, tuple)):
        return len(a) == len(b) and all(loose_key_eq(x, y) for x, y in zip(a, b))
    if isinstance(a, float):
        return a == b and str(a) == str(b)
    return a == b
