#!/bin/sh
# Offline setup: hypothesis into /venv (if absent), atheris + jsonschema into /verif/.deps.
HERE="$(cd "$(dirname "$0")" && pwd)"
W=/opt/veriftools/wheels
/venv/bin/python -c "import hypothesis" 2>/dev/null || /venv/bin/pip install -q --no-index --find-links $W hypothesis || exit 1
mkdir -p "$HERE/.deps"
PYTHONPATH="$HERE/.deps" /venv/bin/python -c "import jsonschema" 2>/dev/null || \
  /venv/bin/pip install -q --no-index --find-links $W --target "$HERE/.deps" jsonschema || echo "WARN: jsonschema unavailable (evidence self-validation skipped)"
PYTHONPATH="$HERE/.deps" /venv/bin/python -c "import atheris" 2>/dev/null || \
  /venv/bin/pip install -q --no-index --find-links $W --target "$HERE/.deps" atheris || echo "WARN: atheris unavailable (byte-fuzz sub-checks are skipped; Hypothesis sub-checks still decide)"
chmod +x "$HERE/vcheck"
exit 0
