"""I/O step recorder + fault injector + fork/kill driver (used by C08; reusable by other fault checks).

The layer shadows the *names* a module uses for I/O (`os`, `open`, `tempfile`, `time`, `Path`) with proxies, only
inside a forked child, so nothing global is patched in the harness process.  Every proxied I/O call is one numbered
*step*; an `Injector(at, fault)` acts on step `at`:

  kill_before   die (os._exit(137): no finally, no flush of Python buffers) before performing the call
  kill_after    perform the call, then die
  kill_mid      (write steps only) write the first half of the data, then die
  short         (write steps only) write the first half, *return the short count* (what a raw write(2) does on a
                filling disk / RLIMIT_FSIZE), no exception
  raise:E       the call fails with OSError(E) and so does every later call of the same operation (persistent fault)
  transientK:E  the call and the next K-1 calls of the same operation fail with OSError(E), later ones succeed

A failing call is not performed (a failing write leaves half of the data behind, a failing close still releases the
descriptor).  `time.sleep` is a counted no-op.  The child streams its step trace through a pipe, so the parent sees
the steps executed before a kill.

Drivers: `run_forked(fn, modules, at, fault, prepare=None)` (any fault; always reaps the child) and
`run_inproc(fn, modules, at, fault)` (non-kill faults only; proxies installed in this process and always removed).
Both return a ChildResult(outcome 'ok'|'exc'|'killed', steps [(op, detail, has_partial)], exc, ret, sleeps).
"""
from __future__ import annotations

import builtins
import errno as _errno
import json
import os
import pathlib
import tempfile as _tempfile
import time as _time
from typing import Any, Callable, Dict, List, Optional, Sequence, Tuple

KILL_CODE = 137
_MISSING = object()

RAISE_ERRNOS = ["EIO", "ENOSPC", "EACCES", "EBUSY", "EPERM"]
RETRYABLE_ERRNOS = ["EACCES", "EPERM", "EBUSY"]


class Fault:
    """kind in none|kill_before|kill_after|kill_mid|short|raise|transient ; err = errno name ; times for transient."""

    def __init__(self, kind: str = "none", err: Optional[str] = None, times: int = 0):
        self.kind, self.err, self.times = kind, err, int(times)

    @property
    def name(self) -> str:
        if self.kind == "raise":
            return f"raise:{self.err}"
        if self.kind == "transient":
            return f"transient{self.times}:{self.err}"
        return self.kind

    @classmethod
    def parse(cls, name: str) -> "Fault":
        if name.startswith("raise:"):
            return cls("raise", name.split(":", 1)[1])
        if name.startswith("transient"):
            head, err = name.split(":", 1)
            return cls("transient", err, int(head[len("transient"):]))
        if name in ("none", "kill_before", "kill_after", "kill_mid", "short"):
            return cls(name)
        raise ValueError(f"unknown fault {name!r}")

    @property
    def is_kill(self) -> bool:
        return self.kind.startswith("kill")

    def __repr__(self) -> str:
        return f"Fault({self.name})"


def fault_kinds(step_has_partial: bool) -> List[str]:
    """All fault names enumerated for one step."""
    out = ["kill_before", "kill_after"]
    if step_has_partial:
        out += ["kill_mid", "short"]
    out += [f"raise:{e}" for e in RAISE_ERRNOS]
    out += [f"transient{k}:{e}" for k in (1, 3) for e in RETRYABLE_ERRNOS]
    return out


def _base(p: Any) -> str:
    try:
        return os.path.basename(os.fspath(p)) or os.fspath(p)
    except TypeError:
        return repr(p)[:40]


def _fd_name(fd: Any) -> str:
    try:
        return os.path.basename(os.readlink(f"/proc/self/fd/{int(fd)}"))
    except Exception:
        return "fd"


class Injector:
    def __init__(self, at: int = -1, fault: Optional[Fault] = None, trace_fd: Optional[int] = None):
        self.at = at
        self.fault = fault or Fault()
        self.trace_fd = trace_fd
        self.n = 0
        self.steps: List[Tuple[str, str, bool]] = []
        self.sleeps = 0
        self._armed_op: Optional[str] = None
        self._remaining = 0

    def _trace(self, op: str, detail: str, partial: bool) -> None:
        if self.trace_fd is not None:
            os.write(self.trace_fd, b"S" + json.dumps([op, detail, partial]).encode() + b"\n")

    def step(self, op: str, detail: str, perform: Callable[[], Any], partial: Optional[Callable[[], Any]] = None,
             on_fail: Optional[Callable[[], Any]] = None) -> Any:
        idx = self.n
        self.n += 1
        self.steps.append((op, detail, partial is not None))
        self._trace(op, detail, partial is not None)
        f = self.fault
        if idx == self.at:
            if f.kind == "kill_before":
                os._exit(KILL_CODE)
            if f.kind == "kill_mid":
                try:
                    if partial is not None:
                        partial()
                finally:
                    os._exit(KILL_CODE)
            if f.kind == "kill_after":
                try:
                    perform()  # the call completes (possibly with a genuine error, e.g. stat of a missing file) ...
                finally:
                    os._exit(KILL_CODE)  # ... and the process dies before acting on the result
            if f.kind == "short" and partial is not None:
                return partial()
            if f.kind == "raise":
                self._armed_op, self._remaining = op, 1 << 60
            elif f.kind == "transient":
                self._armed_op, self._remaining = op, f.times
        if self._armed_op == op and self._remaining > 0:
            self._remaining -= 1
            if on_fail is not None:
                on_fail()
            code = getattr(_errno, f.err)
            raise OSError(code, os.strerror(code) + " [injected]", detail)
        return perform()


# ------------------------------------------------------------------------------------------------ proxies


class FileProxy:
    """Wraps a real file object; write/flush/close/truncate are steps."""

    def __init__(self, inj: Injector, real: Any, tag: str = ""):
        object.__setattr__(self, "_inj", inj)
        object.__setattr__(self, "_real", real)
        object.__setattr__(self, "_tag", tag)

    def __getattr__(self, name: str) -> Any:
        return getattr(self._real, name)

    @property
    def name(self):
        return self._real.name

    def _label(self) -> str:
        return _base(getattr(self._real, "name", "?"))

    def write(self, data):
        real = self._real
        half = len(data) // 2
        return self._inj.step(self._tag + "write", f"{self._label()}:{len(data)}", lambda: real.write(data),
                              partial=lambda: real.write(data[:half]), on_fail=lambda: real.write(data[:half]))

    def writelines(self, lines):
        for ln in lines:
            self.write(ln)

    def flush(self):
        return self._inj.step(self._tag + "flush", self._label(), self._real.flush)

    def truncate(self, *a):
        return self._inj.step(self._tag + "truncate", self._label(), lambda: self._real.truncate(*a))

    def close(self):
        real = self._real
        if getattr(real, "closed", False):
            return None

        def quiet_close():
            try:
                real.close()
            except Exception:
                pass

        return self._inj.step(self._tag + "close", self._label(), real.close, on_fail=quiet_close)

    def __enter__(self):
        return self

    def __exit__(self, *exc):
        self.close()
        return False

    def __iter__(self):
        return iter(self._real)


class OsProxy:
    def __init__(self, inj: Injector):
        self._inj = inj

    def __getattr__(self, name: str) -> Any:
        return getattr(os, name)

    def open(self, path, flags, mode=0o777, **kw):
        return self._inj.step("os.open", _base(path), lambda: os.open(path, flags, mode, **kw))

    def close(self, fd):
        def quiet():
            try:
                os.close(fd)
            except OSError:
                pass
        return self._inj.step("os.close", _fd_name(fd), lambda: os.close(fd), on_fail=quiet)

    def fsync(self, fd):
        return self._inj.step("fsync", _fd_name(fd), lambda: os.fsync(fd))

    def fdatasync(self, fd):
        return self._inj.step("fdatasync", _fd_name(fd), lambda: os.fdatasync(fd))

    def write(self, fd, data):
        half = len(data) // 2
        return self._inj.step("os.write", f"{_fd_name(fd)}:{len(data)}", lambda: os.write(fd, data),
                              partial=lambda: os.write(fd, data[:half]), on_fail=lambda: os.write(fd, data[:half]))

    def ftruncate(self, fd, n):
        return self._inj.step("ftruncate", _fd_name(fd), lambda: os.ftruncate(fd, n))

    def fdopen(self, fd, *a, **kw):
        return FileProxy(self._inj, os.fdopen(fd, *a, **kw))

    def replace(self, src, dst, **kw):
        return self._inj.step("replace", f"{_base(src)}->{_base(dst)}", lambda: os.replace(src, dst, **kw))

    def rename(self, src, dst, **kw):
        return self._inj.step("rename", f"{_base(src)}->{_base(dst)}", lambda: os.rename(src, dst, **kw))

    def link(self, src, dst, **kw):
        return self._inj.step("link", f"{_base(src)}->{_base(dst)}", lambda: os.link(src, dst, **kw))

    def chmod(self, path, mode, **kw):
        return self._inj.step("chmod", _base(path), lambda: os.chmod(path, mode, **kw))

    def unlink(self, path, **kw):
        return self._inj.step("unlink", _base(path), lambda: os.unlink(path, **kw))

    def remove(self, path, **kw):
        return self._inj.step("unlink", _base(path), lambda: os.remove(path, **kw))

    def mkdir(self, path, mode=0o777, **kw):
        return self._inj.step("mkdir", _base(path), lambda: os.mkdir(path, mode, **kw))

    def makedirs(self, path, mode=0o777, exist_ok=False):
        return self._inj.step("mkdir", _base(path), lambda: os.makedirs(path, mode, exist_ok=exist_ok))

    def stat(self, path, **kw):
        return self._inj.step("stat", _base(path), lambda: os.stat(path, **kw))


class TempfileProxy:
    def __init__(self, inj: Injector):
        self._inj = inj

    def __getattr__(self, name: str) -> Any:
        return getattr(_tempfile, name)

    def NamedTemporaryFile(self, *a, **kw):
        label = f"{kw.get('prefix') or ''}*{kw.get('suffix') or ''}"
        return self._inj.step("mktemp", label,
                              lambda: FileProxy(self._inj, _tempfile.NamedTemporaryFile(*a, **kw), tag="tmpf."))

    def mkstemp(self, *a, **kw):
        label = f"{kw.get('prefix') or ''}*{kw.get('suffix') or ''}"
        return self._inj.step("mktemp", label, lambda: _tempfile.mkstemp(*a, **kw))


class TimeProxy:
    def __init__(self, inj: Injector):
        self._inj = inj

    def __getattr__(self, name: str) -> Any:
        return getattr(_time, name)

    def sleep(self, secs):
        self._inj.sleeps += 1


def make_open(inj: Injector):
    def open_(file, mode="r", *a, **kw):
        return inj.step(f"open:{mode}", _base(file) if not isinstance(file, int) else _fd_name(file),
                        lambda: FileProxy(inj, builtins.open(file, mode, *a, **kw)))
    return open_


def make_path_class(inj: Injector):
    """A pathlib.Path subclass whose file-system entry points are steps (derived paths keep the class)."""
    base = type(pathlib.Path())
    popen = make_open(inj)

    class ProxyPath(base):  # type: ignore[misc, valid-type]
        def _plain(self):
            return pathlib.Path(os.fspath(self))

        def mkdir(self, mode=0o777, parents=False, exist_ok=False):
            return inj.step("mkdir", _base(self), lambda: self._plain().mkdir(mode, parents, exist_ok))

        def stat(self, **kw):
            return inj.step("stat", _base(self), lambda: os.stat(os.fspath(self), **kw))

        def exists(self, **kw):
            return inj.step("exists", _base(self), lambda: os.path.exists(os.fspath(self)))

        def unlink(self, missing_ok=False):
            return inj.step("unlink", _base(self), lambda: self._plain().unlink(missing_ok))

        def chmod(self, mode, **kw):
            return inj.step("chmod", _base(self), lambda: os.chmod(os.fspath(self), mode, **kw))

        def replace(self, target):
            inj.step("replace", f"{_base(self)}->{_base(target)}", lambda: os.replace(os.fspath(self), os.fspath(target)))
            return type(self)(target)

        def rename(self, target):
            inj.step("rename", f"{_base(self)}->{_base(target)}", lambda: os.rename(os.fspath(self), os.fspath(target)))
            return type(self)(target)

        def touch(self, mode=0o666, exist_ok=True):
            return inj.step("touch", _base(self), lambda: self._plain().touch(mode, exist_ok))

        def open(self, mode="r", *a, **kw):
            return popen(os.fspath(self), mode, *a, **kw)

        def write_bytes(self, data):
            with self.open("wb") as f:
                return f.write(data)

        def write_text(self, data, encoding=None, errors=None, newline=None):
            with self.open("w", encoding=encoding, errors=errors, newline=newline) as f:
                return f.write(data)

    return ProxyPath


_NAMES = ("os", "open", "tempfile", "time", "Path", "pathlib")


def install(module: Any, inj: Injector) -> Dict[str, Any]:
    """Shadow the I/O names of `module` (only those it actually has; `open` always).
    Returns what `restore` needs to undo it."""
    saved = {n: module.__dict__.get(n, _MISSING) for n in _NAMES}
    if hasattr(module, "os"):
        module.os = OsProxy(inj)
    module.open = make_open(inj)
    if hasattr(module, "tempfile"):
        module.tempfile = TempfileProxy(inj)
    if hasattr(module, "time"):
        module.time = TimeProxy(inj)
    if getattr(module, "Path", None) is pathlib.Path:
        module.Path = make_path_class(inj)
    if hasattr(module, "pathlib"):
        class _PL:
            Path = make_path_class(inj)

            def __getattr__(self, name):
                return getattr(pathlib, name)
        module.pathlib = _PL()
    return saved


def restore(module: Any, saved: Dict[str, Any]) -> None:
    for n, v in saved.items():
        if v is _MISSING:
            module.__dict__.pop(n, None)
        else:
            setattr(module, n, v)


# ------------------------------------------------------------------------------------------------ fork driver


class ChildResult:
    """outcome: 'ok' (call returned) | 'exc' (exception propagated) | 'killed'."""

    def __init__(self):
        self.outcome = "?"
        self.steps: List[Tuple[str, str, bool]] = []
        self.exc: Optional[Dict[str, Any]] = None
        self.ret: Any = None
        self.sleeps = 0

    def trace(self, last: int = 40) -> List[str]:
        return [f"{i}:{op}({d})" for i, (op, d, _p) in enumerate(self.steps)][-last:]


class ForkHarnessError(Exception):
    pass


def run_inproc(fn: Callable[[], Any], modules: Sequence[Any], at: int = -1, fault: Optional[Fault] = None) -> ChildResult:
    """Same as run_forked for faults that do not kill the process (raise / transient / short / none): the proxies are
    installed on `modules` in this process and always removed again. ~4x cheaper than a fork."""
    fault = fault or Fault()
    if fault.is_kill:
        raise ForkHarnessError("kill faults need run_forked")
    inj = Injector(at, fault)
    res = ChildResult()
    saved = [(m, install(m, inj)) for m in modules]
    try:
        try:
            ret = fn()
            res.outcome = "ok"
            res.ret = ret if isinstance(ret, (str, int, float, bool, type(None))) else repr(ret)[:200]
        except Exception as e:  # noqa: BLE001 - reported to the caller, which decides
            res.outcome = "exc"
            res.exc = {"type": type(e).__name__, "errno": getattr(e, "errno", None), "msg": str(e)[:300]}
    finally:
        for m, sv in reversed(saved):
            restore(m, sv)
    res.steps = list(inj.steps)
    res.sleeps = inj.sleeps
    return res


def run_forked(fn: Callable[[], Any], modules: Sequence[Any], at: int = -1, fault: Optional[Fault] = None,
               prepare: Optional[Callable[[], None]] = None) -> ChildResult:
    """Run fn() in a forked child with the proxies installed on `modules` and one fault armed at step `at`.
    `prepare` runs in the child before the proxies are installed (e.g. resource limits).  Always reaps the child."""
    fault = fault or Fault()
    r, w = os.pipe()
    pid = os.fork()
    if pid == 0:  # ---- child: never returns
        code = 70
        try:
            os.close(r)
            if prepare is not None:
                prepare()
            inj = Injector(at, fault, trace_fd=w)
            for m in modules:
                install(m, inj)
            try:
                ret = fn()
                out = {"outcome": "ok", "ret": ret if isinstance(ret, (str, int, float, bool, type(None))) else repr(ret)[:200]}
                code = 0
            except BaseException as e:  # noqa: BLE001 - reported to the parent, which decides
                out = {"outcome": "exc", "type": type(e).__name__, "errno": getattr(e, "errno", None), "msg": str(e)[:300]}
                code = 3
            out["sleeps"] = inj.sleeps
            os.write(w, b"R" + json.dumps(out).encode() + b"\n")
        finally:
            os._exit(code)
    # ---- parent
    os.close(w)
    chunks = []
    try:
        while True:
            b = os.read(r, 65536)
            if not b:
                break
            chunks.append(b)
    finally:
        os.close(r)
        _, status = os.waitpid(pid, 0)
    res = ChildResult()
    for line in b"".join(chunks).split(b"\n"):
        if line[:1] == b"S":
            op, d, p = json.loads(line[1:])
            res.steps.append((op, d, bool(p)))
        elif line[:1] == b"R":
            out = json.loads(line[1:])
            res.outcome = out["outcome"]
            res.sleeps = out.get("sleeps", 0)
            res.ret = out.get("ret")
            if res.outcome == "exc":
                res.exc = {k: out.get(k) for k in ("type", "errno", "msg")}
    code = os.waitstatus_to_exitcode(status)
    if code == KILL_CODE:
        if not fault.is_kill:
            raise ForkHarnessError(f"child died with {KILL_CODE} but fault was {fault.name}")
        res.outcome = "killed"
    elif code in (0, 3) and res.outcome in ("ok", "exc"):
        if fault.is_kill and 0 <= at < len(res.steps):
            raise ForkHarnessError(f"kill fault at step {at} did not fire: {res.trace()}")
    else:
        raise ForkHarnessError(f"child ended with status {code}, outcome {res.outcome!r}, trace {res.trace()}")
    return res
