"""C04 — apply commits exactly the approved deltas, once, with version discipline.

(a) `apply_changes` against a recording store double driven by a generated fault script (reference model of the
    documented contract);  (a') several applies on one state / ctx / live config object;  (b) histories of real turns (kill switch toggled, store faults per turn, deltas injected
    through the orchestrator's t3_deliberate patch point) with per-turn invariants.
"""
from __future__ import annotations

import copy
import json
import os
from types import SimpleNamespace

from hypothesis import strategies as st

from harness.runner import Sub, Violation, run_hypothesis, digest
from harness import world, observe

LEVEL = "exploration"
RULE = ("(a) Hypothesis-generated approved lists (0-8 deltas incl. duplicate targets and values outside the weight range, or 64-2049 "
        "deltas; list / tuple / None) x store behaviour scripts (batch returns a result of several shapes, empties the list it was handed, "
        "or raises one of 10 exception types incl. AttributeError/NotImplementedError/StopIteration; per-delta result/raise pattern; falsy "
        "store object; store without batch API; no store) x start version x turn id (ints, numeric strings, beyond the cadence, negative, "
        "padded, non-numeric, absent) x cadence 1..2^31 x cache-bust mode/namespaces/t4.cache.enabled with a CacheManager preloaded in the "
        "configured namespace and look-alikes (prefix, extension, other case) x t4.weight_min/max x perf.snapshots section; "
        "non-trivial = batch raises with >=2 deltas, or on-apply busting with preloaded namespaces. "
        "(a') sequences of 2-6 applies on ONE state / store / cache manager with the settings of each step reaching the config by "
        "in-place edit of one live config object, by replacing its t4 section, or by a fresh config; ctx reused or fresh; snapshot directory, "
        "agent, store kind, manager (kept/new/dropped, refilled) and state version (re-set externally) changing between steps; non-trivial = "
        "cadence / bust mode / namespaces / directory differ between two steps of a long-lived config. "
        "(b) histories of 3-8 real turns (one live config edited in place or a fresh one per turn; one Orchestrator object or one per turn) "
        "with per-turn kill switch, cadence, bust mode, t4.cache.enabled, store fault, injected proposed deltas (up to 260 with the churn cap "
        "raised), turn ids numbered from an offset / repeated / non-numeric, start version, own or orchestrator-made cache manager; "
        "non-trivial = history with >=1 store failure on a non-empty approved list and >=1 kill-switch toggle. "
        "Distinct = digest of the case/history.")
ASSUMPTIONS = ["store double is all-or-nothing: a batch call that returns (whatever it returns) applied everything, a "
               "batch call that raises applied nothing",
               "snapshot cadence rule as documented in apply.py: int(turn) % n == 0, non-numeric turn ids count as 0",
               "ctx exposes the validated configuration as both ctx.cfg and ctx.config (apply.py reads only ctx.config), as scripts/chat.py does",
               "with nothing approved the store may or may not be handed an empty batch; applied/clamps COUNTS are not part of the property",
               "store errors = Exception subclasses (KeyboardInterrupt/SystemExit are not swallowed by design)"]

EXC = {"ValueError": ValueError, "KeyError": KeyError, "RuntimeError": RuntimeError, "OSError": OSError,
       "TypeError": TypeError, "Custom": type("CustomStoreError", (Exception,), {}),
       # errors a caller could mistake for "this store has no batch API" / "iteration finished"
       "AttributeError": AttributeError, "NotImplementedError": NotImplementedError, "StopIteration": StopIteration,
       "AssertionError": AssertionError}
_EXC_NAMES = sorted(EXC)


def _pd(d):
    from clematis.engine.types import ProposedDelta
    return ProposedDelta(target_kind=d["k"], target_id=d["id"], attr="weight", delta=d["v"], op_idx=None, idx=d.get("idx"))


# ---------------------------------------------------------------- (a) apply_changes vs recording double

_DELTAS = st.lists(st.fixed_dictionaries({"k": st.sampled_from(["node", "edge"]),
                                          # incl. ids that are prefixes of one another (tuple order != order of the joined canonical key)
                                          "id": st.sampled_from(["n:a", "n:b", "e:a|r|b", "n:é", "n:c", "n:1", "n:10", "n:2", "n:a-1", "n:a.b"]),
                                          "v": st.sampled_from([0.1, -0.2, 0.3, 1e-9, 0.0, 0.1, -0.2, 1.5, -2.0])}), max_size=8,
                   unique_by=lambda d: (d["k"], d["id"]))
# t4.weight_min/weight_max bound WEIGHTS inside the store; the approved deltas (increments) are handed over as they are
_WRANGE = st.sampled_from([None, None, None, [-0.05, 0.05], [0.0, 1.0], [-1.0, 0.0], [0.2, 0.25]])
# the same target several times (apply_changes hands over what it is given: merging duplicates is the meta-filter's business)
_DUP_DELTAS = st.lists(st.fixed_dictionaries({"k": st.sampled_from(["node", "edge"]), "id": st.sampled_from(["n:a", "n:b", "n:1", "n:10"]),
                                              "v": st.sampled_from([0.1, -0.2, 0.1])}), min_size=2, max_size=8)
_RESULTS = st.sampled_from([{"edits": 3, "clamps": 1}, {"edits": 2, "clamped": 2}, {}, None, 7, "ok", [1, 2],
                            {"edits": "3"}, {"edits": 1.0, "clamps": 0.0}])
_ODD_RESULTS = st.sampled_from([{"edits": None}, {"edits": "n/a"}, {"edits": 1, "clamps": None}])


# turn ids: ints / numeric strings around every cadence boundary, beyond it, negative, padded; non-numeric ones count as turn 0
_TURNS = st.one_of(st.integers(0, 12), st.integers(0, 12).map(str),
                   st.sampled_from(["demo-1", "", None, 3.9, "3.9", 20, 100, 999, 1000, 1001, "1000", 2000, 2 ** 31, 2 ** 31 + 1, -1, -5,
                                    "-3", " 6 ", "06", True, "absent"]))
# cache namespaces living in the manager: the configured one and look-alikes (prefix of it, extension of it, other case)
_NS_POOL = ["t2:semantic", "t2:semantic", "t2:semantic", "x", "y", "t2", "t2:semantic:v2", "T2:SEMANTIC"]
_EVERY = st.sampled_from([1, 1, 2, 3, 5, 7, 10, 1000, 2 ** 31])


@st.composite
def _many_deltas(draw):
    """Long approved lists (beyond any plausible per-call chunk size): one batch means ONE call however long the list is."""
    n = draw(st.sampled_from([64, 65, 100, 129, 150, 257, 300, 1000, 1025, 2049]))
    vals = [0.1, -0.2, 0.3, 1e-9]
    return [{"k": "node" if i % 3 else "edge", "id": f"n:{i:03d}", "v": vals[i % 4]} for i in range(n)]


@st.composite
def apply_cases(draw):
    deltas = draw(st.one_of(_DELTAS, _DELTAS, _DELTAS, _DELTAS, _DUP_DELTAS, _many_deltas()))
    store_kind = draw(st.sampled_from(["ok", "ok", "ok", "ok", "no_fn", "none"]))
    batch = draw(st.one_of(st.fixed_dictionaries({"ret": _RESULTS}), st.fixed_dictionaries({"ret": _RESULTS}),
                           st.fixed_dictionaries({"ret": _ODD_RESULTS}),
                           # a store that consumes (empties) the list it was handed: the caller's approved list is not its to edit
                           st.fixed_dictionaries({"ret": _RESULTS, "drain": st.just(True)}),
                           st.fixed_dictionaries({"raise": st.sampled_from(_EXC_NAMES)}),
                           st.fixed_dictionaries({"raise": st.sampled_from(_EXC_NAMES)})))
    singles = [draw(st.one_of(st.fixed_dictionaries({"ret": _RESULTS}), st.fixed_dictionaries({"ret": _ODD_RESULTS}),
                              st.fixed_dictionaries({"raise": st.sampled_from(_EXC_NAMES)}),
                              st.fixed_dictionaries({"raise": st.sampled_from(_EXC_NAMES)}))) for _ in deltas[:8]]
    singles = [singles[i % len(singles)] for i in range(len(deltas))] if singles else []
    version = draw(st.sampled_from([None, "0", "5", "41", "abc", 7, "", "9", "99", "-1"]))
    turn = draw(_TURNS)
    every = draw(_EVERY)
    bust = draw(st.sampled_from(["none", "on-apply", "on-apply"]))
    # validator admits only t2:semantic (any number of times)
    namespaces = draw(st.sampled_from([None, ["t2:semantic"], ["t2:semantic"], [], ["t2:semantic", "t2:semantic"]]))
    approved_shape = draw(st.sampled_from(["list", "list", "list", "tuple", "none-if-empty"]))
    store_falsy = draw(st.sampled_from([False, False, False, True]))
    wrange = draw(_WRANGE)
    # perf.snapshots.* configures the (unwired) compressed/delta writer, not apply: closed gate with anything below it, or open gate
    # with neutral values (same cadence) -- apply behaves as without the section
    perf = draw(st.sampled_from([None, None, None, "closed", "open-neutral"]))
    if perf == "closed":
        perf = {"enabled": False, "snapshots": {"compression": draw(st.sampled_from(["none", "zstd"])), "level": draw(st.sampled_from([1, 3, 19])),
                                                "delta_mode": draw(st.booleans()), "every_n_turns": draw(st.sampled_from([1, 2, 3, 7]))}}
    elif perf == "open-neutral":
        perf = {"enabled": True, "snapshots": {"compression": "none", "delta_mode": False, "every_n_turns": every}}
    preload = draw(st.dictionaries(st.sampled_from(_NS_POOL), st.integers(1, 3), max_size=4))
    cm_kind = draw(st.sampled_from(["real", "real", "real", "raising", "absent"]))
    state_shape = draw(st.sampled_from(["dict", "dict", "attr"]))
    # t4.cache.enabled only decides whether the orchestrator CREATES a manager; one that is attached to the state is
    # read and written by T2 regardless, so busting must not depend on the flag
    cache_enabled = draw(st.sampled_from([None, None, True, False, False]))
    return {"wrange": wrange, "perf": perf, "store_falsy": store_falsy, "approved_shape": approved_shape, "cache_enabled": cache_enabled, "deltas": deltas, "store": store_kind, "batch": batch, "singles": singles, "version": version, "turn": turn,
            "every": every, "bust": bust, "namespaces": namespaces, "preload": preload, "cm": cm_kind, "state": state_shape}


class RecStore:
    """Recording store double following a behaviour script."""

    def __init__(self, case, with_fn=True):
        self.calls = []
        self._case = case
        self._single_i = 0
        if with_fn:
            self.apply_deltas = self._apply

    def _apply(self, gid, deltas):
        args_list = deltas
        deltas = list(deltas)
        self.calls.append((gid, deltas))
        if len(self.calls) == 1:
            beh = self._case["batch"]
        else:
            i = self._single_i
            self._single_i += 1
            beh = self._case["singles"][i] if i < len(self._case["singles"]) else {"ret": {}}
        if "raise" in beh:
            raise EXC[beh["raise"]]("injected store failure")
        if beh.get("drain") and isinstance(args_list, list):
            del args_list[:]
        return copy.deepcopy(beh["ret"])


class EmptyLookingRecStore(RecStore):
    """A store object that is falsy (a container type reporting len 0): still THE store."""

    def __len__(self):
        return 0


class RaisingCM:
    def invalidate_namespace(self, ns):
        raise RuntimeError("injected invalidation failure")


def ref_version(v):
    if v is None:
        return "1"
    try:
        return str(int(v) + 1)
    except Exception:
        return "1"


def ref_turn(t):
    try:
        return int(t)
    except Exception:
        return 0


def check_apply(case, rec=None):
    from clematis.engine.apply import apply_changes
    from clematis.engine.cache import CacheManager

    with world.sandbox() as root:
        snapdir = os.path.join(root, "snap")
        t4over = {"snapshot_every_n_turns": case["every"], "snapshot_dir": snapdir, "cache_bust_mode": case["bust"]}
        if case["namespaces"] is not None:
            t4over["cache"] = {"namespaces": list(case["namespaces"])}
        if case.get("cache_enabled") is not None:
            t4over.setdefault("cache", {})["enabled"] = bool(case["cache_enabled"])
        if case.get("wrange"):
            t4over["weight_min"], t4over["weight_max"] = case["wrange"]
        cfg = world.validated_cfg({"t4": t4over, **({"perf": case["perf"]} if case.get("perf") else {})})
        ctx = world.make_ctx(cfg, agent="A", turn_id=case["turn"])
        if case["turn"] == "absent":
            del ctx.turn_id
        deltas = [_pd(d) for d in case["deltas"]]
        shape = case.get("approved_shape", "list")
        handed = tuple(deltas) if shape == "tuple" else (None if (shape == "none-if-empty" and not deltas) else list(deltas))
        t4res = SimpleNamespace(approved_deltas=handed, rejected_ops=[], reasons=[], metrics={})
        store = None
        if case["store"] == "ok":
            store = EmptyLookingRecStore(case) if case.get("store_falsy") else RecStore(case)
        elif case["store"] == "no_fn":
            store = RecStore(case, with_fn=False)
        cm = None
        if case["cm"] == "real":
            cm = CacheManager(max_entries=64, ttl_sec=600)
            for ns, n in sorted(case["preload"].items()):
                for i in range(n):
                    cm.set(ns, ("k", i), i)
        elif case["cm"] == "raising":
            cm = RaisingCM()
        sd = {"store": store}
        if case["version"] is not None:
            sd["version_etag"] = case["version"]
        if cm is not None:
            sd["_cache_mgr"] = cm
        state = sd if case["state"] == "dict" else SimpleNamespace(**sd)
        try:
            res = apply_changes(ctx, state, t4res)
        except Exception as e:
            raise Violation(f"apply_changes raised {type(e).__name__}: {e}", case, "raises")

        # --- store received exactly the approved deltas: one batch, then (only if it raised) one by one
        if store is not None and case["store"] == "ok":
            want = [("g:surface", deltas)]
            if "raise" in case["batch"]:
                want += [("g:surface", [d]) for d in deltas]
            got = store.calls
            if any(g[0] != "g:surface" for g in got):
                raise Violation(f"store called for graph {[g[0] for g in got][:4]}, the surface graph is 'g:surface'", case, "store-gid")
            if not deltas and not got:
                got = [("g:surface", [])]  # nothing approved: whether the store sees an empty batch is free
            if len(got) >= 1 and got[0][1] != deltas:
                raise Violation(f"batch call received {len(got[0][1])} deltas {[(x.target_kind, x.target_id, x.delta) for x in got[0][1][:6]]}... instead of the "
                                f"{len(deltas)} approved {[(x.target_kind, x.target_id, x.delta) for x in deltas[:6]]}... in order", case, "batch-content")
            if len(got) != len(want) or any(g[1] != w[1] for g, w in zip(got, want)):
                if "raise" not in case["batch"] and len(got) > 1:
                    raise Violation(f"store batch call succeeded (returned {case['batch']['ret']!r}) but {len(got) - 1} more "
                                    f"calls followed: deltas applied twice", case, "double-apply")
                raise Violation(f"store calls {[(g, len(d)) for g, d in got]} != expected {[(g, len(d)) for g, d in want]}", case, "store-calls")
        # --- the meta-filter's result still lists what it approved (the orchestrator reads it again after apply: health, turn record)
        if handed is not None and (len(t4res.approved_deltas or ()) != len(deltas) or any(a is not b for a, b in zip(t4res.approved_deltas, deltas))):
            raise Violation(f"the approved list of the meta-filter result was edited during apply: {len(deltas)} -> "
                            f"{len(t4res.approved_deltas or ())} deltas", case, "approved-edited")
        # --- version discipline
        newv = state.get("version_etag") if isinstance(state, dict) else getattr(state, "version_etag", None)
        wantv = ref_version(case["version"])
        if newv != wantv or res.version_etag != wantv:
            raise Violation(f"version {case['version']!r} -> state {newv!r} / result {res.version_etag!r}, expected {wantv!r}", case, "version")
        # --- snapshot cadence
        should = (ref_turn(case["turn"]) % max(1, case["every"])) == 0
        files = sorted(f for f in os.listdir(snapdir) if not f.endswith(".meta"))
        if should != bool(files) or should != bool(res.snapshot_path):
            raise Violation(f"turn {case['turn']!r} cadence {case['every']}: snapshot expected={should}, files={files}, "
                            f"path={res.snapshot_path!r}", case, "cadence")
        if should:
            if os.path.realpath(res.snapshot_path) != os.path.realpath(os.path.join(snapdir, files[0])) or len(files) != 1:
                raise Violation(f"snapshot_path {res.snapshot_path!r} vs files {files}", case, "snapshot-path")
            with open(os.path.join(snapdir, files[0]), encoding="utf-8") as fh:
                body = json.load(fh)
            if str(body.get("version_etag")) != wantv:
                raise Violation(f"snapshot carries version {body.get('version_etag')!r}, state is at {wantv!r}", case, "snapshot-version")
            if body.get("turn") != ref_turn(case["turn"]):
                raise Violation(f"snapshot written on turn {case['turn']!r} says turn {body.get('turn')!r}", case, "snapshot-turn")
            sd_ = body.get("deltas")
            want_d = [(d.target_kind, d.target_id, d.attr, d.delta) for d in deltas]
            got_d = [(x.get("target_kind"), x.get("target_id"), x.get("attr"), x.get("delta")) for x in (sd_ or [])]
            # without a store nothing was applied: the body lists no deltas; a store that empties the list it is handed: not compared
            if case["store"] != "none" and not (case["store"] == "ok" and case["batch"].get("drain")) and got_d != want_d:
                raise Violation(f"snapshot deltas {got_d} != approved {want_d}", case, "snapshot-deltas")
        # --- cache invalidation
        if case["cm"] == "real":
            ns_cfg = case["namespaces"] if case["namespaces"] is not None else ["t2:semantic"]
            want_removed = 0
            do_bust = case["bust"] == "on-apply" and case["store"] == "ok"
            for ns, n in case["preload"].items():
                left = sum(1 for i in range(n) if cm.get(ns, ("k", i))[0])
                if do_bust and ns in ns_cfg:
                    want_removed += n
                    if left != 0:
                        raise Violation(f"namespace {ns!r} configured for on-apply busting still holds {left} entries", case, "bust-missed")
                elif left != n:
                    raise Violation(f"namespace {ns!r} (not configured / busting off) lost {n - left} entries", case, "bust-overreach")
            got_inv = int((res.metrics or {}).get("cache_invalidations", 0))
            if got_inv != want_removed:
                raise Violation(f"cache_invalidations={got_inv}, {want_removed} entries were removed", case, "bust-count")
        if rec is not None:
            nt = (case["store"] == "ok" and "raise" in case["batch"] and len(deltas) >= 2) or \
                 (case["bust"] == "on-apply" and case["cm"] == "real" and bool(case["preload"]) and case["store"] == "ok")
            keys = [(d["k"], d["id"]) for d in case["deltas"]]
            labels = [f"store={case['store']}", "batch=" + ("raise" if "raise" in case["batch"] else "ret"), f"bust={case['bust']}",
                      "deltas>=64" if len(deltas) >= 64 else "deltas<64",
                      f"cm={case['cm']}"] + (["snapshot"] if should else []) + \
                     (["deltas>1024"] if len(deltas) > 1024 else []) + (["dup-targets"] if len(set(keys)) < len(keys) else []) + \
                     (["store-drains-list"] if case["batch"].get("drain") and case["store"] == "ok" else []) + \
                     (["every>=1000"] if case["every"] >= 1000 else []) + \
                     (["turn>=every>1"] if (case["every"] > 1 and ref_turn(case["turn"]) >= case["every"]) else []) + \
                     ([f"approved={shape}"] if shape != "list" else []) + \
                     (["store-falsy"] if case.get("store_falsy") and case["store"] == "ok" else []) + \
                     (["delta-outside-weight-range"] if any(not ((case.get("wrange") or [-1.0, 1.0])[0] <= d["v"] <= (case.get("wrange") or [-1.0, 1.0])[1])
                                                            for d in case["deltas"]) else []) + \
                     ([f"perf.snapshots={'closed' if not case['perf']['enabled'] else 'open-neutral'}"] if case.get("perf") else []) + \
                     (["batch-exc=lookalike"] if case["batch"].get("raise") in ("AttributeError", "NotImplementedError", "StopIteration") else [])
            rec.case(nontrivial=nt, dig=digest(case) if nt else None, labels=labels,
                     sample={k: (case[k][:4] if k in ("deltas", "singles") else case[k])
                             for k in ("deltas", "batch", "singles", "version", "turn", "every", "bust")} if nt else None)


def sub_apply(rec, seed, shard, nshards, n=400, shrink=True):
    run_hypothesis(rec, seed, apply_cases(), lambda c: check_apply(c, rec), max_examples=n, shrink=shrink, name="apply")


# ---------------------------------------------------------------- (a') several applies on ONE state / ctx / config object

_SEQ_DELTAS = st.one_of(_DELTAS, _DELTAS, _DUP_DELTAS)
_SEQ_TURNS = st.one_of(st.integers(0, 12), st.integers(0, 12), st.integers(0, 12).map(str), st.sampled_from(["demo-1", 1000, 2000, "absent"]))
_BEH = st.one_of(st.fixed_dictionaries({"ret": _RESULTS}), st.fixed_dictionaries({"ret": _RESULTS}),
                 st.fixed_dictionaries({"raise": st.sampled_from(_EXC_NAMES)}))


@st.composite
def seq_cases(draw):
    steps = []
    for _ in range(draw(st.integers(2, 6))):
        steps.append({
            "deltas": draw(_SEQ_DELTAS), "batch": draw(_BEH), "singles": draw(st.lists(_BEH, min_size=8, max_size=8)),
            "turn": draw(_SEQ_TURNS), "agent": draw(st.sampled_from(["A", "A", "B"])),
            "every": draw(st.sampled_from([1, 1, 2, 3, 5, 1000])), "bust": draw(st.sampled_from(["none", "on-apply", "on-apply"])),
            "namespaces": draw(st.sampled_from([None, ["t2:semantic"], ["t2:semantic"], []])),
            "cache_enabled": draw(st.sampled_from([None, None, True, False])),
            "wrange": draw(_WRANGE),
            "dir": draw(st.sampled_from([0, 0, 0, 1])),                       # which of two snapshot directories is configured
            "store": draw(st.sampled_from(["ok", "ok", "ok", "ok", "ok", "no_fn", "none"])),
            "cm": draw(st.sampled_from(["keep", "keep", "keep", "keep", "new", "drop"])),
            "refill": draw(st.dictionaries(st.sampled_from(_NS_POOL), st.integers(1, 3), max_size=3)),
            # something else (boot loader, operator) re-sets the state version between two applies
            "set_version": draw(st.sampled_from(["keep"] * 7 + ["0", "9", "abc", 41])),
        })
    return {"steps": steps,
            "cfg_mode": draw(st.sampled_from(["mutate", "mutate", "replace_t4", "fresh"])),   # how the settings of a step reach the config
            "ctx_mode": draw(st.sampled_from(["reuse", "reuse", "fresh"])),
            "state": draw(st.sampled_from(["dict", "dict", "attr"])),
            "version": draw(st.sampled_from([None, "0", "8", "98", "abc"])),
            "cm0": draw(st.sampled_from(["real", "real", "absent"])),
            "store_falsy": draw(st.sampled_from([False, False, False, True]))}


class SeqStore:
    """Recording all-or-nothing store double; behaviour script of the current step set by begin()."""

    def __init__(self):
        self.calls = []
        self.step = None

    def begin(self, step):
        self.calls = []
        self.step = step

    def apply_deltas(self, gid, deltas):
        self.calls.append((gid, list(deltas)))
        k = len(self.calls)
        beh = self.step["batch"] if k == 1 else self.step["singles"][(k - 2) % len(self.step["singles"])]
        if "raise" in beh:
            raise EXC[beh["raise"]]("injected store failure")
        return copy.deepcopy(beh["ret"])


class EmptyLookingSeqStore(SeqStore):
    def __len__(self):
        return 0


class NoFnStore:
    pass


def _dir_view(d):
    out = {}
    if os.path.isdir(d):
        for f in sorted(os.listdir(d)):
            p = os.path.join(d, f)
            with open(p, "rb") as fh:
                out[f] = (os.stat(p).st_mtime_ns, fh.read())
    return out


def _t4_overrides(step, dirs):
    o = {"snapshot_every_n_turns": step["every"], "snapshot_dir": dirs[step["dir"]], "cache_bust_mode": step["bust"]}
    cache = {}
    if step["namespaces"] is not None:
        cache["namespaces"] = list(step["namespaces"])
    if step.get("cache_enabled") is not None:
        cache["enabled"] = bool(step["cache_enabled"])
    if cache:
        o["cache"] = cache
    if step.get("wrange"):
        o["weight_min"], o["weight_max"] = step["wrange"]
    return o


def check_sequence(case, rec=None):
    from clematis.engine.apply import apply_changes
    from clematis.engine.cache import CacheManager

    def sget(state, k):
        return state.get(k) if isinstance(state, dict) else getattr(state, k, None)

    def sset(state, k, v):
        if isinstance(state, dict):
            state[k] = v
        else:
            setattr(state, k, v)

    with world.sandbox() as root:
        dirs = [os.path.join(root, "snap"), os.path.join(root, "snap2")]
        steps = case["steps"]
        cfg = world.validated_cfg({"t4": _t4_overrides(steps[0], dirs)})
        ctx = world.make_ctx(cfg, agent="A", turn_id=0)
        store = EmptyLookingSeqStore() if case.get("store_falsy") else SeqStore()
        sd = {"store": store}
        if case["version"] is not None:
            sd["version_etag"] = case["version"]
        state = sd if case["state"] == "dict" else SimpleNamespace(**sd)
        model = {}  # live cache entries of the attached manager: namespace -> set of keys
        cm = None
        if case["cm0"] == "real":
            cm = CacheManager(max_entries=256, ttl_sec=600)
            sset(state, "_cache_mgr", cm)
        labels = set()
        written = set()
        for si, step in enumerate(steps):
            at = f"step {si}"
            # --- the settings of this step reach the config the way a long-lived embedding application would do it
            fresh = world.validated_cfg({"t4": _t4_overrides(step, dirs)})
            if si > 0:
                if case["cfg_mode"] == "fresh":
                    cfg = fresh
                elif case["cfg_mode"] == "replace_t4":
                    cfg["t4"] = fresh["t4"]
                else:  # edit the live mapping in place (values in validated form)
                    for k in ("snapshot_every_n_turns", "snapshot_dir", "cache_bust_mode", "weight_min", "weight_max"):
                        cfg["t4"][k] = fresh["t4"][k]
                    for k in ("namespaces", "enabled"):
                        cfg["t4"]["cache"][k] = fresh["t4"]["cache"][k]
                prev = steps[si - 1]
                labels.update((["every-changes"] if prev["every"] != step["every"] else []) + (["bust-changes"] if prev["bust"] != step["bust"] else []) +
                              (["dir-switch"] if prev["dir"] != step["dir"] else []) + (["store-switch"] if prev["store"] != step["store"] else []) +
                              (["namespaces-change"] if (prev["namespaces"] == []) != (step["namespaces"] == []) else []))
            if case["ctx_mode"] == "fresh" or si == 0:
                ctx = world.make_ctx(cfg, agent=step["agent"], turn_id=step["turn"])
            else:
                ctx.cfg = ctx.config = cfg
                ctx.agent_id = step["agent"]
                ctx.turn_id = step["turn"]
            if step["turn"] == "absent" and hasattr(ctx, "turn_id"):
                del ctx.turn_id
            # --- state edits between applies
            if step["store"] == "ok":
                sset(state, "store", store)
            elif step["store"] == "no_fn":
                sset(state, "store", NoFnStore())
            else:
                sset(state, "store", None)
            if step["cm"] == "new":
                cm = CacheManager(max_entries=256, ttl_sec=600)
                model = {}
                sset(state, "_cache_mgr", cm)
                labels.add("cm-new")
            elif step["cm"] == "drop" and cm is not None:
                cm = None
                model = {}
                if isinstance(state, dict):
                    state.pop("_cache_mgr", None)
                else:
                    state._cache_mgr = None
                labels.add("cm-drop")
            if cm is not None:
                for ns, n in sorted(step["refill"].items()):
                    for i in range(n):
                        cm.set(ns, ("k", si, i), i)
                        model.setdefault(ns, set()).add(("k", si, i))
            if step["set_version"] != "keep":
                sset(state, "version_etag", step["set_version"])
                labels.add("version-set-externally")
            v0 = sget(state, "version_etag")
            before = [_dir_view(d) for d in dirs]
            deltas = [_pd(d) for d in step["deltas"]]
            t4res = SimpleNamespace(approved_deltas=list(deltas), rejected_ops=[], reasons=[], metrics={})
            store.begin(step)
            try:
                res = apply_changes(ctx, state, t4res)
            except Exception as e:
                raise Violation(f"{at}: apply_changes raised {type(e).__name__}: {e}", case, "raises")
            # --- store calls
            want = []
            if step["store"] == "ok":
                want = [deltas] + ([[d] for d in deltas] if "raise" in step["batch"] else [])
            got = [c[1] for c in store.calls]
            if any(c[0] != "g:surface" for c in store.calls):
                raise Violation(f"{at}: store called for graph {[c[0] for c in store.calls][:4]}, the surface graph is 'g:surface'", case, "store-gid")
            if not deltas and not got and step["store"] == "ok":
                got = [[]]  # nothing approved: whether the store sees an empty batch is free
            if got != want:
                raise Violation(f"{at}: store received calls of sizes {[len(c) for c in got]} "
                                f"({[[x.target_id for x in c] for c in got][:4]}), expected "
                                f"{'batch + one call per delta' if len(want) > 1 else ('one batch' if want else 'no call')} of "
                                f"{[x.target_id for x in deltas]}", case, "store-calls")
            # --- version
            wantv = ref_version(v0)
            v1 = sget(state, "version_etag")
            if v1 != wantv or res.version_etag != wantv:
                raise Violation(f"{at}: version {v0!r} -> state {v1!r} / result {res.version_etag!r}, expected {wantv!r}", case, "version")
            # --- snapshots: exactly the configured directory's file of this agent, exactly on cadence turns
            should = (ref_turn(step["turn"]) % max(1, step["every"])) == 0
            after = [_dir_view(d) for d in dirs]
            fname = f"state_{step['agent']}.json"
            changed = sorted((di, f) for di in (0, 1) for f in set(before[di]) | set(after[di]) if before[di].get(f) != after[di].get(f))
            allowed = {(step["dir"], fname), (step["dir"], fname + ".meta")} if should else set()
            if not set(changed) <= allowed or (should and (step["dir"], fname) not in changed) or should != bool(res.snapshot_path):
                raise Violation(f"{at}: turn {step['turn']!r} cadence {step['every']} agent {step['agent']} dir#{step['dir']}: snapshot due={should}, "
                                f"files changed {changed}, snapshot_path={res.snapshot_path!r}", case, "cadence")
            if should:
                if os.path.realpath(res.snapshot_path) != os.path.realpath(os.path.join(dirs[step["dir"]], fname)):
                    raise Violation(f"{at}: snapshot_path {res.snapshot_path!r}, configured directory is dir#{step['dir']}", case, "snapshot-path")
                body = json.loads(after[step["dir"]][fname][1].decode("utf-8"))
                if str(body.get("version_etag")) != wantv or body.get("turn") != ref_turn(step["turn"]) or body.get("agent") != step["agent"]:
                    raise Violation(f"{at}: snapshot body version/turn/agent {body.get('version_etag')!r}/{body.get('turn')!r}/{body.get('agent')!r}, "
                                    f"expected {wantv!r}/{ref_turn(step['turn'])}/{step['agent']!r}", case, "snapshot-body")
                got_d = [(x.get("target_kind"), x.get("target_id"), x.get("attr"), x.get("delta")) for x in (body.get("deltas") or [])]
                want_d = [(d.target_kind, d.target_id, d.attr, d.delta) for d in deltas]
                if step["store"] != "none" and got_d != want_d:
                    raise Violation(f"{at}: snapshot deltas {got_d} != approved {want_d}", case, "snapshot-deltas")
                if (step["dir"], fname) in written:
                    labels.add("snapshot-rewritten")
                written.add((step["dir"], fname))
            # --- cache invalidation against the model of the attached manager
            if cm is not None:
                ns_cfg = step["namespaces"] if step["namespaces"] is not None else ["t2:semantic"]
                do_bust = step["bust"] == "on-apply" and step["store"] == "ok"
                removed = 0
                for ns in sorted(model):
                    keys = sorted(model[ns])
                    live = [k for k in keys if cm.get(ns, k)[0]]
                    if do_bust and ns in ns_cfg:
                        removed += len(keys)
                        model[ns] = set()
                        if live:
                            raise Violation(f"{at}: namespace {ns!r} configured for on-apply busting still holds {len(live)} entries", case, "bust-missed")
                    elif len(live) != len(keys):
                        raise Violation(f"{at}: namespace {ns!r} (not configured / busting off) lost {len(keys) - len(live)} entries", case, "bust-overreach")
                got_inv = int((res.metrics or {}).get("cache_invalidations", 0))
                if got_inv != removed:
                    raise Violation(f"{at}: cache_invalidations={got_inv}, {removed} entries were removed", case, "bust-count")
                if do_bust and removed:
                    labels.add("busted")
            if step["store"] == "ok" and "raise" in step["batch"] and len(deltas) >= 2:
                labels.add("fallback")
        if rec is not None:
            nt = case["cfg_mode"] != "fresh" and bool(labels & {"every-changes", "bust-changes", "dir-switch", "namespaces-change"})
            rec.case(nontrivial=nt, dig=digest(case) if nt else None,
                     labels=[f"cfg={case['cfg_mode']}", f"ctx={case['ctx_mode']}", f"steps={len(steps)}"] + sorted(labels) +
                            (["store-falsy"] if case.get("store_falsy") else []),
                     sample={"cfg_mode": case["cfg_mode"], "ctx_mode": case["ctx_mode"],
                             "steps": [{k: st_[k] for k in ("turn", "agent", "every", "bust", "dir", "store", "cm")} | {"n_deltas": len(st_["deltas"])}
                                       for st_ in steps]} if nt else None)


def sub_sequence(rec, seed, shard, nshards, n=100, shrink=True):
    run_hypothesis(rec, seed, seq_cases(), lambda c: check_sequence(c, rec), max_examples=n, shrink=shrink, name="sequence")


# ---------------------------------------------------------------- (b) histories through run_turn

@st.composite
def histories(draw):
    graphs = {"g1": {"nodes": [{"id": "a", "label": "apple", "tags": []}, {"id": "b", "label": "pear", "tags": []}],
                     "edges": [{"id": "e0", "src": "a", "dst": "b", "w": 0.9, "rel": "supports"}]}}
    n = draw(st.integers(3, 8))
    every = draw(st.sampled_from([1, 2, 3]))
    bust = draw(st.sampled_from(["none", "on-apply"]))
    vary = draw(st.sampled_from([False, True, True]))  # cadence / bust mode / cache section change from turn to turn
    turns = []
    for i in range(n):
        t = {
            "agent": draw(st.sampled_from(["A", "B"])),
            "text": draw(st.sampled_from(["apple", "pear", "apple pear", "zzz", ""])),
            "kill": draw(st.sampled_from([False, False, True])),  # True = t4.enabled False
            "deltas": draw(_DELTAS),
            "batch": draw(st.sampled_from([{"ret": {"edits": 1}}, {"ret": {"edits": 1}}, {"ret": None}, {"raise": "RuntimeError"},
                                           {"raise": "KeyError"}, {"raise": "OSError"}, {"raise": "Custom"}, {"raise": "AttributeError"}])),
            "singles_raise": draw(st.lists(st.booleans(), min_size=8, max_size=8)),
            # numbered (int / str), the previous turn's id again (agents of one round share it), or a non-numeric label (counts as turn 0)
            "turn_id": draw(st.sampled_from(["seq", "seq", "seq", "str", "str", "same", "label"])),
            # more approved deltas than the default churn cap / any plausible per-call chunk (churn cap raised for that turn)
            "many": draw(st.sampled_from([0] * 11 + [130, 260])),
        }
        if t["kill"]:
            # where the configuration hangs on the ctx of a kill-switch turn: both names (scripts/chat.py), ctx.cfg only (TurnCtx,
            # run_smoke_turn, console.py), or ctx.config as a plain dict next to ctx.cfg -- the switch is the orchestrator's to read
            t["ctx_shape"] = draw(st.sampled_from(["both", "cfg-only", "cfg-only", "config-plain-dict"]))
        if vary:
            t["every"] = draw(st.sampled_from([1, 2, 3, 1000]))
            t["bust"] = draw(st.sampled_from(["none", "on-apply"]))
            t["cache_enabled"] = draw(st.sampled_from([True, True, False]))
        turns.append(t)
    return {"graphs": graphs, "every": every, "bust": bust, "turns": turns,
            "cfg_mode": draw(st.sampled_from(["fresh", "mutate", "mutate"])),   # mutate: ONE live config object edited between turns
            "version": draw(st.sampled_from([None, None, "0", "8", "98", "abc"])),
            "tid0": draw(st.sampled_from([0, 0, 0, -1, 7, 97, 998])),               # first turn number - 1 (0 -> turns 1, 2, ...)
            "cm_mode": draw(st.sampled_from(["orch", "own"])),
            "wrange": draw(_WRANGE),
            "orch": draw(st.sampled_from(["per-turn", "shared"]))}                # one Orchestrator object for the whole history?              # own: the embedding application attaches its manager


def _plain_cfg(o):
    if isinstance(o, dict):
        return {k: _plain_cfg(v) for k, v in o.items()}
    if isinstance(o, list):
        return [_plain_cfg(v) for v in o]
    return o


def _many(n):
    return [{"k": "node", "id": f"n:{j:03d}", "v": 0.01 if j % 2 else -0.01} for j in range(n)]


def check_history(h, rec=None):
    import clematis.engine.orchestrator as orch
    from clematis.engine.types import Plan, SpeakOp
    from clematis.engine.cache import CacheManager

    world.reset_engine_globals()
    with world.sandbox() as root:
        eng = observe.Engine({"graphs": h["graphs"], "eps": [], "agents": {"A": ["g1"], "B": ["g1"]}, "version": h.get("version")}, root)
        calls_log = []
        cur = {}
        x_keys = []
        if h.get("cm_mode", "orch") == "own":
            own = CacheManager(max_entries=512, ttl_sec=600)
            for j, ns_ in enumerate(["x", "t2", "t2:semantic:v2"]):
                own.set(ns_, ("k", j), j)
                x_keys.append((ns_, ("k", j)))
            eng.state["_cache_mgr"] = own

        def apply_deltas(gid, deltas):
            deltas = list(deltas)
            calls_log.append((gid, deltas))
            k = len(calls_log)
            t = cur["t"]
            if k == 1:
                cm_ = eng.state.get("_cache_mgr")
                cur["cm_at_apply"] = cm_
                cur["size_at_apply"] = None if cm_ is None else int(cm_.stats["size"])
                beh = t["batch"]
            else:
                beh = {"raise": "ValueError"} if t["singles_raise"][(k - 2) % 8] else {"ret": {"edits": 1}}
            if "raise" in beh:
                raise EXC[beh["raise"]]("injected store failure")
            return beh["ret"]

        eng.state["store"].apply_deltas = apply_deltas  # instance attribute shadows the class method
        had_delib = hasattr(orch, "t3_deliberate")
        old_delib = getattr(orch, "t3_deliberate", None)

        def delib(ctx, state, bundle):
            t = cur["t"]
            return Plan(version="t3-plan-v1", ops=[SpeakOp(kind="Speak", intent="ack", topic_labels=[], max_tokens=8)],
                        deltas=[_pd(d) for d in (_many(t["many"]) if t.get("many") else t["deltas"])])

        def overrides(t):
            t4 = {"enabled": not t["kill"], "snapshot_every_n_turns": t.get("every", h["every"]), "cache_bust_mode": t.get("bust", h["bust"]),
                  "churn_cap_edges": 1000 if t.get("many") else 64}
            if t.get("cache_enabled") is not None:
                t4["cache"] = {"enabled": bool(t["cache_enabled"])}
            if h.get("wrange"):
                t4["weight_min"], t4["weight_max"] = h["wrange"]
            return {"t4": t4, "t1": {"cache": {"enabled": False}}, "t2": {"cache": {"enabled": False}}}

        orch.t3_deliberate = delib
        orig_cls = orch.Orchestrator
        if h.get("orch") == "shared":
            shared = orig_cls()
            orch.Orchestrator = lambda: shared  # observe.Engine instantiates per turn through this name
        try:
            store_fail_nonempty = False
            toggles = 0
            prev_kill = None
            live_cfg = None
            tid = None
            labels = set()
            snapdir = os.path.join(root, "snap")
            for i, t in enumerate(h["turns"], 1):
                cur.clear()
                cur["t"] = t
                del calls_log[:]
                fresh = eng.cfg(overrides(t))
                if h.get("cfg_mode", "fresh") == "mutate":
                    if live_cfg is None:
                        live_cfg = fresh
                    else:  # a long-lived config object edited in place (validated values)
                        for k in ("enabled", "snapshot_every_n_turns", "cache_bust_mode", "churn_cap_edges"):
                            live_cfg["t4"][k] = fresh["t4"][k]
                        live_cfg["t4"]["cache"]["enabled"] = fresh["t4"]["cache"]["enabled"]
                    cfg = live_cfg
                else:
                    cfg = fresh
                every = t.get("every", h["every"])
                bust = t.get("bust", h["bust"])
                num = h.get("tid0", 0) + i
                kind = t["turn_id"]
                if kind == "same" and tid is not None:
                    labels.add("turn-id-repeated")
                elif kind == "label":
                    tid = f"t{num}"
                    labels.add("turn-id-label")
                elif kind == "str":
                    tid = str(num)
                else:
                    tid = num
                tnum = ref_turn(tid)
                v0 = eng.state.get("version_etag")
                logs0 = observe.line_counts(eng.logs())
                snaps0 = _dir_view(snapdir)
                sd0 = world.store_digest(eng.state["store"])
                shape = t.get("ctx_shape", "both") if t["kill"] else "both"  # committed turns: apply reads ctx.config only (see ASSUMPTIONS)
                orig_make_ctx = world.make_ctx
                if shape != "both":
                    def _shaped(*a, _o=orig_make_ctx, _shape=shape, **kw):
                        c = _o(*a, **kw)
                        if _shape == "cfg-only":
                            del c.config
                        else:
                            c.config = _plain_cfg(c.cfg)
                        return c
                    world.make_ctx = _shaped  # observe.Engine builds the ctx through this name
                    labels.add(f"kill-ctx={shape}")
                try:
                    r = eng.turn(t["agent"], t["text"], cfg, tid, world.NOW_MS + i * 1000)
                finally:
                    world.make_ctx = orig_make_ctx
                if r["exc"] is not None:
                    raise Violation(f"turn {i} raised {r['exc']}", h, "turn-raises")
                logs1 = observe.line_counts(eng.logs())
                v1 = eng.state.get("version_etag")
                new = {k: logs1.get(k, 0) - logs0.get(k, 0) for k in logs1}
                snaps1 = _dir_view(snapdir)
                if prev_kill is not None and prev_kill != t["kill"]:
                    toggles += 1
                prev_kill = t["kill"]
                if t["kill"]:
                    if calls_log:
                        raise Violation(f"turn {i}: kill switch off but the store received {len(calls_log)} calls", h, "kill-store")
                    if v1 != v0:
                        raise Violation(f"turn {i}: kill switch off but version {v0!r} -> {v1!r}", h, "kill-version")
                    if new.get("t4.jsonl", 0) or new.get("apply.jsonl", 0):
                        raise Violation(f"turn {i}: kill switch off but t4/apply records were emitted {new}", h, "kill-logs")
                    if snaps1 != snaps0:
                        raise Violation(f"turn {i}: kill switch off but snapshot files changed", h, "kill-snapshot")
                    if world.store_digest(eng.state["store"]) != sd0:
                        raise Violation(f"turn {i}: kill switch off but store contents changed", h, "kill-store-digest")
                    continue
                # committed turn
                t4o = r.get("t4_obj")
                if t4o is None:
                    raise Violation(f"turn {i}: meta-filter was not invoked on a committed turn", h, "no-t4")
                approved = list(r.get("approved_at_filter", t4o.approved_deltas))  # as the meta-filter returned them
                if [(_d.target_kind, _d.target_id, _d.attr, _d.delta) for _d in t4o.approved_deltas] != \
                        [(_d.target_kind, _d.target_id, _d.attr, _d.delta) for _d in approved]:
                    raise Violation(f"turn {i}: the approved list was edited after the meta-filter returned it: "
                                    f"{[x.target_id for x in approved]} -> {[x.target_id for x in t4o.approved_deltas]}", h, "approved-edited")
                want = [approved] + ([[d] for d in approved] if "raise" in t["batch"] else [])
                got = [d for _, d in calls_log]
                if not approved and not got:
                    got = [[]]  # nothing approved: whether the store sees an empty batch is free
                if got != want:
                    raise Violation(f"turn {i}: store received calls of sizes {[len(c) for c in got]}: "
                                    f"{[[(x.target_id, x.delta) for x in c] for c in got][:10]}, expected batch"
                                    f"{' + singles' if 'raise' in t['batch'] else ''} of the {len(approved)} approved "
                                    f"{[(x.target_id, x.delta) for x in approved][:10]}", h, "store-calls")
                if any(g != "g:surface" for g, _ in calls_log):
                    raise Violation(f"turn {i}: unexpected graph id in store call", h, "store-gid")
                if v1 != ref_version(v0):
                    raise Violation(f"turn {i}: version {v0!r} -> {v1!r}, expected {ref_version(v0)!r}", h, "version")
                if new.get("t4.jsonl", 0) != 1 or new.get("apply.jsonl", 0) != 1:
                    raise Violation(f"turn {i}: committed turn wrote {new.get('t4.jsonl', 0)} t4 / {new.get('apply.jsonl', 0)} apply records", h, "commit-logs")
                ap = json.loads(eng.logs()["apply.jsonl"].splitlines()[-1])
                t4l = json.loads(eng.logs()["t4.jsonl"].splitlines()[-1])
                if t4l.get("approved") != len(approved):
                    raise Violation(f"turn {i}: t4.jsonl approved={t4l.get('approved')} vs {len(approved)}", h, "t4-log")
                for name, rec_ in (("t4.jsonl", t4l), ("apply.jsonl", ap)):
                    if rec_.get("turn") != tid or rec_.get("agent") != t["agent"]:
                        raise Violation(f"turn {i}: {name} record is labelled turn {rec_.get('turn')!r} agent {rec_.get('agent')!r}, "
                                        f"the turn is {tid!r} of agent {t['agent']!r}", h, "log-identity")
                if str(ap.get("version_etag")) != str(v1):
                    raise Violation(f"turn {i}: apply.jsonl version {ap.get('version_etag')!r} vs state {v1!r}", h, "apply-log-version")
                # --- snapshot precisely on the cadence: this agent's file, nothing else, nothing on other turns
                should = (tnum % every) == 0
                fname = f"state_{t['agent']}.json"
                changed = sorted(f for f in set(snaps0) | set(snaps1) if snaps0.get(f) != snaps1.get(f))
                if bool(ap.get("snapshot")) != should or (should and fname not in changed) or \
                        not set(changed) <= ({fname, fname + ".meta"} if should else set()):
                    raise Violation(f"turn {i} (id {tid!r}) cadence {every}: snapshot due={should}, apply.jsonl snapshot field {ap.get('snapshot')!r}, "
                                    f"snapshot files changed {changed}", h, "cadence")
                if should:
                    if isinstance(ap.get("snapshot"), str) and os.path.basename(ap["snapshot"]) != fname:  # (only the file it names: path spelling is free)
                        raise Violation(f"turn {i}: apply.jsonl names snapshot {ap.get('snapshot')!r}, written was {fname}", h, "apply-log-snapshot")
                    body = json.loads(snaps1[fname][1])
                    if str(body.get("version_etag")) != str(v1) or body.get("turn") != tnum:
                        raise Violation(f"turn {i}: snapshot body version/turn {body.get('version_etag')!r}/{body.get('turn')!r}, "
                                        f"expected {v1!r}/{tnum}", h, "snapshot-body")
                    got_d = [(x.get("target_kind"), x.get("target_id"), x.get("attr"), x.get("delta")) for x in (body.get("deltas") or [])]
                    want_d = [(d.target_kind, d.target_id, d.attr, float(d.delta)) for d in approved]
                    if got_d != want_d:
                        raise Violation(f"turn {i}: snapshot lists deltas {got_d[:10]}, approved were {want_d[:10]}", h, "snapshot-deltas")
                    labels.add("snapshot")
                else:
                    labels.add("no-snapshot")
                # --- cache busting as configured FOR THIS TURN, and what the apply record claims about it
                cm = cur.get("cm_at_apply")
                inv = ap.get("cache_invalidations")
                if not calls_log:
                    pass  # (no store call to observe the manager from; only possible when nothing was approved)
                elif cm is None:
                    if inv != 0:
                        raise Violation(f"turn {i}: no cache manager attached but apply.jsonl cache_invalidations={inv!r}", h, "bust-count")
                    labels.add("no-cm")
                else:
                    size0, size1 = cur["size_at_apply"], int(cm.stats["size"])
                    x_live = sum(1 for ns_, k in x_keys if cm.get(ns_, k)[0])
                    if x_live != len(x_keys):
                        raise Violation(f"turn {i}: namespaces {sorted({n for n, _ in x_keys})} (not configured for busting) lost "
                                        f"{len(x_keys) - x_live} entries", h, "bust-overreach")
                    if bust == "on-apply":
                        removed = size0 - len(x_keys)
                        if size1 != len(x_keys):
                            raise Violation(f"turn {i}: cache_bust_mode=on-apply but {size1 - len(x_keys)} of {removed} t2:semantic entries "
                                            f"survived the commit", h, "bust-missed")
                        if removed:
                            labels.add("busted")
                    else:
                        removed = 0
                        if size1 != size0:
                            raise Violation(f"turn {i}: cache_bust_mode=none but the manager went from {size0} to {size1} entries during apply", h, "bust-overreach")
                    if inv != removed:
                        raise Violation(f"turn {i}: apply.jsonl cache_invalidations={inv!r}, {removed} entries were removed", h, "bust-count")
                    if t.get("cache_enabled") is False:
                        labels.add("cm-attached+cache-disabled")
                if "raise" in t["batch"] and approved:
                    store_fail_nonempty = True
                if len(approved) > 128:
                    labels.add("approved>128")
        finally:
            orch.Orchestrator = orig_cls
            if had_delib:
                orch.t3_deliberate = old_delib
            else:
                try:
                    delattr(orch, "t3_deliberate")
                except Exception:
                    pass
                import clematis.engine.orchestrator.core as core
                if hasattr(core, "t3_deliberate"):
                    delattr(core, "t3_deliberate")
        if rec is not None:
            nt = store_fail_nonempty and toggles >= 1
            evs = {t.get("every", h["every"]) for t in h["turns"]}
            rec.case(nontrivial=nt, dig=digest(h) if nt else None,
                     labels=[f"turns={len(h['turns'])}", f"cfg={h.get('cfg_mode', 'fresh')}", f"cm={h.get('cm_mode', 'orch')}",
                             f"orchestrator={h.get('orch', 'per-turn')}"] +
                            (["store_fail"] if store_fail_nonempty else []) + (["toggle"] if toggles else []) +
                            (["cadence-varies"] if len(evs) > 1 else []) + (["weight-range-narrow"] if h.get("wrange") else []) + sorted(labels),
                     sample={"every": h["every"], "cfg_mode": h.get("cfg_mode"),
                             "turns": [{k: t[k] for k in ("agent", "kill", "batch")} | {"n_deltas": len(t["deltas"]), "every": t.get("every")}
                                       for t in h["turns"]]} if nt else None)


def sub_history(rec, seed, shard, nshards, n=40, shrink=True):
    run_hypothesis(rec, seed, histories(), lambda h: check_history(h, rec), max_examples=n, shrink=shrink, name="history")


def _fix(case):
    from checks.c03 import _fix_floats
    return _fix_floats(case)


SUBCHECKS = [
    Sub("apply", sub_apply, quick={"n": 400}, thorough={"n": 5000}, shards_quick=4, shards_thorough=8,
        replay=lambda c: check_apply(_fix(c), None)),
    Sub("sequence", sub_sequence, quick={"n": 100}, thorough={"n": 1500}, shards_quick=4, shards_thorough=8,
        replay=lambda c: check_sequence(_fix(c), None)),
    Sub("history", sub_history, quick={"n": 40}, thorough={"n": 500}, shards_quick=4, shards_thorough=8,
        replay=lambda c: check_history(_fix(c), None)),
]
