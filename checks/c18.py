"""C18 — GEL edge weights stay bounded, decay monotonically, keys canonical.

One execution engine (`World`) runs a *history* = [init, op, op, ...] against the real clematis.engine.gel and the
reference model harness/models/gel.py, checking after every operation:

  A  structural: one record per unordered pair, stored under "min→max" with src <= dst, id == key, finite weight;
  B  observe: edge map == reference (threshold, sort (-score,id), top-k, pair cap, clamp); sum of co-activation
     bumps == pairs_updated <= pair_cap; every touched endpoint is among the reference top-k ids; a permuted
     item list applied to a deep copy of the pre-state yields an identical graph; touched weights inside the clamp;
  C  tick: no new keys, |w| never grows, sign kept, amount ~ 2**(-dt/H) (independent exp2), dropped set == exactly
     the edges whose decayed magnitude is < floor (reference), weights that were inside the clamp stay inside;
  D  merge/split passes and direct applies: nodes and edges untouched, meta only grows by the appended records;
  E  promotion: plan == reference plan; apply adds only the concept node and concept<->member edges (canonical
     keys, attach weight), everything else untouched, second apply is a no-op;
  F  graph.enabled=false: after every op the whole state is bit-identical to the initial one and `graph` is not
     created.

  G  ("turns") full orchestrator turns: state['graph'] after each turn == the same operations applied through the
     direct API (itself checked by A-E) -- the observation over ALL hits T2 returned that turn (captured at the stage
     hook; T2 lists them in ranking order, not score order), not over what the call site forwarded -- also across a process restart (fresh state boot-loading the snapshot the
     previous turn wrote == API round trip); gate off: no state['graph'] (a pre-existing one bit-identical), no gel.jsonl;
  H  snapshot round trip (write_snapshot + load_latest_snapshot) of a graph satisfying A: same keys, same endpoints;
     boot load of a legacy body: A up to the order of src/dst inside a record, no pair that was not stored.  The
     reference model takes the loaded weights over as new initial content.

Sub-checks machine/observe/tick/maint/gate/boot share the history format (`replay_history`); turns has `replay_turns`.
"""
from __future__ import annotations

import copy
import json
import math
from types import SimpleNamespace

from hypothesis import strategies as st

from harness.runner import Sub, Violation, run_hypothesis, run_machine, digest, jsonable
from harness.models.gel import GelModel, canon, SEP, exp2_close

LEVEL = "exploration"
FINDING = "gel-decay-below-clamp-min"

RULE = ("Histories over {observe(items), tick(dt), merge pass/direct, split pass/direct, promote pass/direct/apply, "
        "snapshot round trip into the same or a fresh state} under "
        "graph.* settings built from a frozen in-range table and passed through the repo's validate_config (both update "
        "modes, alpha 1e-9..1e308, clamp ranges incl. 0 as either bound and (rarely) ones excluding 0, half-lives 1..1e17, "
        "floors 0..clamp_max incl. floor == clamp_max, top-k 1..1e9, pair caps 0..1e9), on attribute- and dict-shaped states, "
        "contexts exposing .cfg+.config / only one of them / a plain dict, optionally with a pre-existing graph store in 6 "
        "shapes (full, edges only, no meta, legacy meta, state.gel alias, graph=None), left-over concept nodes, weights one "
        "ulp around floor*2**j. Item lists: 0..12 items over 9 frequent + 13 rare ids (unicode incl. NFC/NFD twins, "
        "numeric-looking, int ids, concept ids, ids around the 'c::' prefix, an id holding the key arrow, ids with '_') in 10 "
        "shapes (tuples, 4 dict spellings, EpisodeRef, 3 namespace spellings), scores with ties, duplicates, NaN, +-inf, +-0, "
        "values one ulp around the threshold; observe also 65..80 items with top-k / pair cap at and above the defaults. "
        "boot = a legacy snapshot body (edge list or dict under foreign keys, endpoints in either order, a pair listed "
        "twice) boot-loaded, then a short history; non-trivial when it holds a reversed or repeated pair. "
        "Non-trivial: machine = history with >=1 clamp hit AND >=1 edge dropped "
        "by the floor AND >=1 effective permuted observation (non-identity permutation, >=2 items used); observe = "
        ">=1 pair updated, non-identity permutation and a tie / cap truncation / top-k truncation / threshold filter; "
        "tick = >=1 edge dropped and >=1 edge kept-and-decayed; maint = >=1 merge or split record applied and >=1 "
        "promotion applied; gate = >=3 ops incl. an observation that would have paired items and a direct apply; "
        "turns (1-3 real Orchestrator.run_turn turns over 2-6 generated episodes, real T2 scores, maintenance flags "
        "random, t2.ranking blends with recency / importance over episodes of different age so that T2's listing is not in "
        "score order while observe_top_k is below the hit count, usually a pre-existing graph with strong pairs / weak bridges / ids sorting before 'c::', process restarts "
        "that boot-load the previous turn's snapshot) = gate on and >=1 pair updated or >=1 maintenance record applied, or "
        "gate off and T2 returned >=2 items. "
        "Distinct = digest of the whole history / case.")
ASSUMPTIONS = [
    "at most one id holds the key separator '→' and no id is a prefix/suffix part of it (two different pairs could "
    "otherwise share a key); config numbers are "
    "finite (non-finite values accepted by one-sided validator tests are C14's finding, e.g. alpha=inf makes NaN weights)",
    "update amounts follow the repo's own unit tests (additive: +alpha; proportional: +alpha*(1-min(|w|,1))), the "
    "decay factor is 0.5**(dt/half_life) evaluated in the same interpreter; an independent exp2 cross-check uses rel 1e-12",
    "the clamp-bound clause is asserted for weights produced by observations (and in-range initial weights) under "
    "ticks; promotion attach weights are only required to be what the promotion plan says",
    "bookkeeping fields (last_seen_turn, updated_at, meta.edges_count) are not part of the oracle, except that "
    "merge/split may not touch anything but their own meta list",
    "a snapshot round trip / boot load is only required to keep one record per unordered pair under the canonical key "
    "(records of a legacy body may keep src > dst); weights, rel and counters it returns are taken over by the model",
]

IDS = ["a", "b", "c", "B", "ä", "10", "9", "c::a", "x y"]
# rarer ids: concept ids a promotion can have created (observing them co-activates concept edges, e.g. ones attached
# with a negative weight), an id holding the key arrow (no other id is "p", "q" or holds an arrow, so keys stay
# unambiguous), ids with the snapshot key separator "_", ids sorting right around the "c::" prefix
IDS_RARE = ["c::b", "c::B", "c::10", "c::9", "p→q", "a_", "_b", "C", "c:", "c:;", "c::", "é", "e\u0301"]
BIG_IDS = [f"n{i:02d}" for i in range(90)]
SHAPES = ["tuple", "tuple", "tuple3", "dict", "dict_ep", "dict_node_sim", "dict_target", "ref", "ref", "ns", "ns_ep_sim",
          "ns_idonly"]
NAN, INF = float("nan"), float("inf")


# =============================================================================================== building inputs

def build_item(it):
    i, s, sh = it["id"], it["score"], it["shape"]
    if sh == "tuple":
        return (i, s)
    if sh == "tuple3":
        return (i, s, "extra")
    if sh == "dict":
        return {"id": i, "score": s, "text": "t"}
    if sh == "dict_ep":
        return {"episode_id": i, "score": s}
    if sh == "dict_node_sim":
        return {"node_id": i, "similarity": s}
    if sh == "dict_target":
        return {"target_id": i, "score": s}
    if sh == "ref":
        from clematis.engine.types import EpisodeRef
        return EpisodeRef(id=i, owner="A", score=s, text="t")
    if sh == "ns":
        return SimpleNamespace(id=i, score=s)
    if sh == "ns_ep_sim":
        return SimpleNamespace(episode_id=i, similarity=s)
    if sh == "ns_idonly":
        return SimpleNamespace(id=i)
    raise RuntimeError(f"unknown item shape {sh}")


def abstract_item(it):
    return (it["id"], 0.0 if it["shape"] == "ns_idonly" else it["score"])


def wrap_items(items, container):
    if container == "tuple":
        return tuple(items)
    if container == "iter":
        return iter(items)
    return items


def edge_record(a, b, w, rel="coact"):
    key, lo, hi = canon(a, b)
    return key, {"id": key, "src": lo, "dst": hi, "weight": float(w), "rel": rel, "updated_at": None,
                 "attrs": {"coact": 0, "last_seen_turn": None}}


class _State:
    pass


def _tmp_base():
    """Scratch directory for the snapshot files of one op: $VERIF_TMP like the harness, else a RAM disk if there is one."""
    import os
    base = os.environ.get("VERIF_TMP")
    if base:
        return base
    shm = "/dev/shm"
    return shm if os.path.isdir(shm) and os.access(shm, os.W_OK | os.X_OK) else None


def _snap(state):
    """Order-preserving serialisation of the whole state (bit-identity oracle for the disabled path)."""
    body = dict(vars(state)) if isinstance(state, _State) else state
    return json.dumps(jsonable(body), ensure_ascii=True)


def _meta_norm(meta):
    m = copy.deepcopy(meta or {})
    m.setdefault("schema", "v1")
    m.setdefault("merges", [])
    m.setdefault("splits", [])
    m.setdefault("promotions", [])
    m.setdefault("concept_nodes_count", 0)
    m.pop("edges_count", None)  # derived counter, maintained by tick/promotion only
    return m


# =============================================================================================== execution engine

class World:
    def __init__(self, init, rec=None):
        from configs.validate import ConfigError
        from harness.world import validated_cfg, make_ctx

        self.rec = rec
        self.history = [init]
        self.flags = {}
        self.rejected = False
        self.g = init["graph"]
        self.enabled = bool(self.g["enabled"])
        try:
            cfg = validated_cfg({"graph": copy.deepcopy(self.g)})
        except ConfigError as e:
            lines = [ln for ln in str(e).splitlines() if ln.strip()]
            if self.g["update"]["clamp_min"] > 0 and lines and all("graph.update.clamp" in ln for ln in lines):
                # a validator that refuses clamp ranges excluding 0 puts the case outside the property's domain
                self.rejected = True
                if rec is not None:
                    rec.label("cfg_rejected_by_validator")
                return
            raise RuntimeError(f"generator built graph settings the validator rejects: {e} :: {self.g}")
        self.cfg = cfg
        ck = init.get("ctx")
        if ck == "dict":
            self.ctx = cfg
        elif ck == "cfg_only":  # gel documents "objects with .config/.cfg": either attribute alone must do
            self.ctx = SimpleNamespace(cfg=cfg, turn_id=1, agent_id="A")
        elif ck == "config_only":
            self.ctx = SimpleNamespace(config=cfg, turn_id=1, agent_id="A")
        else:
            self.ctx = make_ctx(cfg)
        self.state_kind = "dict" if init.get("state") == "dict" else "obj"
        self.state = self._fresh_state()
        self.model = GelModel(self.g) if self.enabled else None
        self.loose = False  # True once a legacy snapshot was loaded: records may keep src > dst under the canonical key
        edges0 = init.get("edges") or []
        nodes0 = init.get("nodes") or []
        shape = init.get("store_shape") or "full"
        if edges0 or nodes0 or init.get("has_graph"):
            store = {"nodes": {}, "edges": {}, "meta": {"schema": "v1", "merges": [], "splits": [], "promotions": [],
                                                       "concept_nodes_count": 0}}
            for a, b, w, rel in edges0:
                key, r = edge_record(a, b, w, rel)
                if rel == "concept" and init.get("bare_concept_attrs"):
                    r["attrs"] = {}  # what apply_promotion itself writes
                store["edges"][key] = r
                if self.model is not None:
                    self.model.put_edge(a, b, w, rel)
            for cid, label in nodes0:  # concept nodes from an earlier promotion whose edges may be gone
                store["nodes"][cid] = {"id": cid, "label": label, "attrs": {"kind": "concept"}}
                store["meta"]["concept_nodes_count"] += 1
                if self.model is not None:
                    self.model.nodes[cid] = dict(store["nodes"][cid])
                    self.model.concepts += 1
            if shape == "edges_only" and not nodes0:
                store = {"edges": store["edges"]}
            elif shape == "no_meta":
                del store["meta"]
            elif shape == "meta_v1" and not nodes0:
                store["meta"] = {"schema": "v1"}
            self._set("graph", store)
            if shape == "alias_gel":  # the boot loader leaves state.graph and state.gel pointing at ONE dict
                self._set("gel", store)
        elif shape == "none_value":
            self._set("graph", None)
        if init.get("legacy") is not None and self.enabled:
            self._boot_legacy(init["legacy"])
        self.had_graph = self.graph() is not None
        self.snap0 = _snap(self.state)

    def _fresh_state(self):
        if self.state_kind == "dict":
            return {"version_etag": "v0", "active_graphs": ["g0"], "other": {"k": [1, 2.5, None]}}
        s = _State()
        s.version_etag = "v0"
        s.other = {"k": [1, 2.5, None]}
        return s

    def _set(self, k, v):
        if isinstance(self.state, dict):
            self.state[k] = v
        else:
            setattr(self.state, k, v)

    # ------------------------------------------------------------------ helpers
    def flag(self, k, n=1):
        self.flags[k] = self.flags.get(k, 0) + n

    def fail(self, msg, sig):
        raise Violation(msg, list(self.history), sig)

    def graph(self, state=None):
        s = self.state if state is None else state
        if isinstance(s, dict):
            return s.get("graph")
        return getattr(s, "graph", None)

    def edges(self):
        g = self.graph()
        return (g or {}).get("edges", {})

    def real_view(self):
        out = {}
        for k, r in self.edges().items():
            src, dst = r.get("src"), r.get("dst")
            if self.loose and isinstance(src, str) and isinstance(dst, str) and src > dst:
                src, dst = dst, src
            out[k] = (src, dst, r.get("weight"), r.get("rel"), int((r.get("attrs") or {}).get("coact", 0)))
        return out

    def check_structure(self, where):
        seen = {}
        for k, r in self.edges().items():
            src, dst, w = r.get("src"), r.get("dst"), r.get("weight")
            if not (isinstance(src, str) and isinstance(dst, str)):
                self.fail(f"after {where}: edge {k!r} has non-string endpoints {src!r},{dst!r}", "endpoint-type")
            if self.loose and src > dst:  # a legacy snapshot record: the property speaks about the key only
                src, dst = dst, src
            if not src <= dst:
                self.fail(f"after {where}: edge {k!r} stored with src {src!r} > dst {dst!r}", "non-canonical")
            if k != src + SEP + dst or r.get("id") != k:
                self.fail(f"after {where}: edge key {k!r} / id {r.get('id')!r} is not the canonical key of ({src!r},{dst!r})",
                          "non-canonical")
            pair = (src, dst)
            if pair in seen:
                self.fail(f"after {where}: two edges for the unordered pair {pair}: {seen[pair]!r} and {k!r}", "dup-pair")
            seen[pair] = k
            if not isinstance(w, float) or not math.isfinite(w):
                self.fail(f"after {where}: edge {k!r} has non-finite / non-float weight {w!r}", "nonfinite")

    def check_model(self, where):
        real, ref = self.real_view(), self.model.view()
        if real == ref:
            return
        for k in sorted(set(real) | set(ref)):
            if real.get(k) != ref.get(k):
                kind = "model-keys" if (k in real) != (k in ref) else "model-weight"
                self.fail(f"after {where}: edge {k!r} is {real.get(k)} but the reference edge map has {ref.get(k)} "
                          f"(src,dst,weight,rel,coact)", kind)

    def check_bounds(self, where, after_tick=False):
        lo, hi = self.model.lo, self.model.hi
        ed = self.edges()
        for k in sorted(self.model.covered):
            if not self.model.covered[k] or k not in ed:
                continue
            w = ed[k]["weight"]
            if lo <= w <= hi:
                continue
            # Known root cause: the validator admits clamp ranges that exclude 0, but new edges start at and
            # decay towards 0, so a plain (correct) decay step carries an in-range weight below clamp_min.
            if (after_tick and lo > 0.0 and 0.0 <= w < lo and w == self.model.edges[k]["w"]
                    and self.rec is not None and self.rec.is_known(FINDING)):
                self.model.covered[k] = False
                self.flag("known_below_clamp_min")
                continue
            self.fail(f"after {where}: weight of {k!r} = {w!r} lies outside the configured clamp [{lo!r}, {hi!r}]",
                      "decay-leaves-clamp" if after_tick else "observe-outside-clamp")

    # ------------------------------------------------------------------ dispatch
    def apply(self, op):
        self.history.append(op)
        if self.rejected:
            return
        kind = op["op"]
        self.flag("op_" + kind)
        if not self.enabled:
            return self.apply_disabled(op)
        getattr(self, "do_" + kind)(op)

    # ------------------------------------------------------------------ observe
    def do_observe(self, op):
        from clematis.engine import gel

        items = op["items"]
        before = {k: int((r.get("attrs") or {}).get("coact", 0)) for k, r in self.edges().items()}
        twin = copy.deepcopy(self.state)
        m = gel.observe_retrieval(self.ctx, self.state, wrap_items([build_item(it) for it in items], op.get("container")),
                                  turn=op.get("turn"), agent="A")
        info = self.model.observe([abstract_item(it) for it in items])
        self.check_structure("observe")
        ed = self.edges()
        if set(before) - set(ed):
            self.fail(f"observe removed edges {sorted(set(before) - set(ed))}", "observe-removed")
        bumps = {k: int((r.get("attrs") or {}).get("coact", 0)) - before.get(k, 0) for k, r in ed.items()}
        total = sum(bumps.values())
        cap = self.model.pair_cap
        if total > cap or len([1 for v in bumps.values() if v > 0]) > cap:
            self.fail(f"observation updated {total} pairs, pair_cap_per_obs is {cap}", "pair-cap")
        used = set(info["used_ids"])
        for k, v in sorted(bumps.items()):
            if v < 0:
                self.fail(f"co-activation counter of {k!r} went down", "coact-down")
            if (v > 0 or k not in before) and not ({ed[k]["src"], ed[k]["dst"]} <= used):
                self.fail(f"observation touched {k!r}, whose endpoints are not both among the top-{self.model.top_k} items "
                          f"scoring >= {self.model.threshold} (those are {sorted(used)})", "outside-topk")
        if m.get("pairs_updated") != total or m.get("k_in") != info["k_in"] or m.get("k_used") != info["k_used"]:
            self.fail(f"metrics {m} disagree with the observed update (pairs {total}, k_in {info['k_in']}, "
                      f"k_used {info['k_used']})", "observe-metrics")
        self.check_model("observe")
        self.check_bounds("observe")
        # order insensitivity: same pre-state, permuted list
        perm = op.get("perm") or list(range(len(items)))
        permuted = [items[i] for i in perm]
        m2 = gel.observe_retrieval(self.ctx, twin, wrap_items([build_item(it) for it in permuted], op.get("container")),
                                   turn=op.get("turn"), agent="A")
        if self.graph(twin) != self.graph() or m2 != m:
            self.fail(f"listing the items in order {perm} gives a different graph / metrics: "
                      f"{_brief(self.graph(twin))} vs {_brief(self.graph())}", "order-dependent")
        # coverage
        nonid = list(perm) != sorted(perm)
        if info["pairs"] > 0:
            self.flag("obs_effective")
        if nonid and info["k_used"] >= 2:
            self.flag("obs_permuted")
        if info["clamp_hits"]:
            self.flag("clamp_hit", info["clamp_hits"])
        if info["k_used"] > 64:
            self.flag("obs_used_beyond_64")
        if info["pairs"] > 2048:
            self.flag("obs_pairs_beyond_2048")
        scores = [float(abstract_item(it)[1]) for it in items]
        qual = [s for s in scores if s >= self.model.threshold]
        if len(qual) < len(scores):
            self.flag("obs_threshold_filtered")
        if len(qual) > self.model.top_k:
            self.flag("obs_topk_truncated")
        if info["possible_pairs"] > cap and info["k_used"] >= 2:
            self.flag("obs_cap_truncated")
        if len(set(qual)) < len(qual):
            self.flag("obs_tie")
        if len({str(it["id"]) for it in items}) < len(items):
            self.flag("obs_dup_id")
        if any(s != s or s in (INF, -INF) for s in scores):
            self.flag("obs_nonfinite_score")
        if nonid and info["pairs"] > 0 and (len(set(qual)) < len(qual) or info["possible_pairs"] > cap
                                            or len(qual) > self.model.top_k or len(qual) < len(scores)):
            self.flag("obs_nontrivial")

    # ------------------------------------------------------------------ tick
    def do_tick(self, op):
        from clematis.engine import gel

        dt = op["dt"]
        before = {k: r["weight"] for k, r in self.edges().items()}
        m = gel.tick(self.ctx, self.state, decay_dt=dt, turn=op.get("turn"), agent="A")
        info = self.model.tick(dt)
        self.check_structure("tick")
        ed = self.edges()
        if set(ed) - set(before):
            self.fail(f"tick created edges {sorted(set(ed) - set(before))}", "tick-created")
        H, floor = self.model.half_life, self.model.floor
        f_ind = math.exp2(-max(0, int(dt)) / H)
        kept_decayed = 0
        for k in sorted(before):
            w1 = before[k]
            if k in ed:
                w2 = ed[k]["weight"]
                if abs(w2) > abs(w1):
                    self.fail(f"tick(dt={dt}) increased |w| of {k!r}: {w1!r} -> {w2!r}", "tick-increases")
                if w2 != 0.0 and (w2 > 0) != (w1 > 0):
                    self.fail(f"tick(dt={dt}) flipped the sign of {k!r}: {w1!r} -> {w2!r}", "tick-sign")
                if not exp2_close(w1, w2, dt, H):
                    self.fail(f"tick(dt={dt}, half_life={H}) took {k!r} from {w1!r} to {w2!r}, half-life decay gives "
                              f"{w1 * f_ind!r}", "tick-amount")
                if abs(w1) * f_ind < floor * (1 - 1e-9):
                    self.fail(f"tick(dt={dt}) kept {k!r} at {w2!r} although its decayed magnitude {abs(w1) * f_ind!r} "
                              f"is below the floor {floor!r}", "floor-kept")
                if w2 != w1:
                    kept_decayed += 1
            elif abs(w1) * f_ind > floor * (1 + 1e-9):
                self.fail(f"tick(dt={dt}) removed {k!r} (w={w1!r}) although its decayed magnitude {abs(w1) * f_ind!r} "
                          f"is not below the floor {floor!r}", "floor-dropped")
        gone = sorted(set(before) - set(ed))
        if gone != sorted(info["dropped"]):
            self.fail(f"tick(dt={dt}) removed {gone}; exactly {sorted(info['dropped'])} fall below the floor {floor!r} "
                      f"(factor {info['factor']!r}, weights before {before})", "floor-exact")
        if m.get("dropped_edges") != len(gone):
            self.fail(f"tick metrics {m} but {len(gone)} edges were removed", "tick-metrics")
        if m.get("decayed_edges") != kept_decayed:
            self.fail(f"tick metrics {m} but {kept_decayed} kept edges changed their weight", "tick-metrics-decayed")
        self.check_model("tick")
        self.check_bounds("tick", after_tick=True)
        if gone:
            self.flag("floor_drop", len(gone))
        if kept_decayed:
            self.flag("tick_decayed")
        if gone and kept_decayed:
            self.flag("tick_nontrivial")
        if info["at_floor"]:
            self.flag("tick_exactly_at_floor", info["at_floor"])

    # ------------------------------------------------------------------ merge / split
    def _annotate_only(self, what, listname, before, n_added, added_check):
        g = self.graph()
        if g["nodes"] != before["nodes"]:
            self.fail(f"{what} changed graph nodes: {before['nodes']} -> {g['nodes']}", f"{listname}-touches-nodes")
        if g["edges"] != before["edges"]:
            self.fail(f"{what} changed graph edges: {_brief(before)} -> {_brief(g)}", f"{listname}-touches-edges")
        mb, ma = _meta_norm(before.get("meta")), _meta_norm(g.get("meta"))
        old, new = mb.pop(listname), ma.pop(listname)
        if ma != mb:
            self.fail(f"{what} changed meta outside meta.{listname}: {mb} -> {ma}", f"{listname}-touches-meta")
        if new[: len(old)] != old or len(new) != len(old) + n_added:
            self.fail(f"{what}: meta.{listname} went from {old} to {new}, expected {n_added} appended records",
                      f"{listname}-meta-not-append")
        for r, want in zip(new[len(old):], added_check):
            if r.get(want[0]) != want[1]:
                self.fail(f"{what}: appended record {r} does not describe {want}", f"{listname}-record")

    def _candidates(self, fn, name):
        pre = self._ensure()
        c1 = fn(self.ctx, self.state)
        c2 = fn(self.ctx, self.state)
        if c1 != c2:
            self.fail(f"{name} is not repeatable: {c1} vs {c2}", "candidates-unstable")
        g = self.graph()
        if pre is not None and (g["nodes"] != pre["nodes"] or g["edges"] != pre["edges"]
                                or _meta_norm(g.get("meta")) != _meta_norm(pre.get("meta"))):
            self.fail(f"{name} modified the graph", "candidates-mutate")
        ends = set()
        for r in self.edges().values():
            ends.add(r["src"])
            ends.add(r["dst"])
        for c in c1:
            ns = c.get("nodes") if "nodes" in c else c.get("original")
            if list(ns) != sorted(set(ns)) or not set(ns) <= ends:
                self.fail(f"{name} proposes {ns}: not a sorted set of edge endpoints {sorted(ends)}", "candidates-nodes")
        return c1

    def _ensure(self):
        from clematis.engine import gel
        return copy.deepcopy(gel._ensure_graph_store(self.state))

    def do_merge_pass(self, op):
        from clematis.engine import gel
        before = self._ensure()
        cands = self._candidates(gel.merge_candidates, "merge_candidates")
        cap = int(self.g["merge"]["cap_per_turn"])
        todo = cands[:cap]
        for c in todo:
            gel.apply_merge(self.ctx, self.state, c)
        self._annotate_only("merge pass", "merges", before, len(todo), [("nodes", list(c["nodes"])) for c in todo])
        self.check_structure("merge")
        self.check_model("merge")
        if todo:
            self.flag("merge_applied", len(todo))

    def do_merge_direct(self, op):
        from clematis.engine import gel
        before = self._ensure()
        gel.apply_merge(self.ctx, self.state, copy.deepcopy(op["cluster"]))
        self._annotate_only("apply_merge", "merges", before, 1, [("nodes", list(op["cluster"]["nodes"]))])
        self.check_structure("merge")
        self.check_model("merge")
        self.flag("merge_applied")

    def do_split_pass(self, op):
        from clematis.engine import gel
        before = self._ensure()
        cands = self._candidates(gel.split_candidates, "split_candidates")
        cap = int(self.g["split"]["cap_per_turn"])
        todo = cands[:cap]
        for c in todo:
            gel.apply_split(self.ctx, self.state, c)
        self._annotate_only("split pass", "splits", before, len(todo), [("original", list(c["original"])) for c in todo])
        self.check_structure("split")
        self.check_model("split")
        if todo:
            self.flag("split_applied", len(todo))

    def do_split_direct(self, op):
        from clematis.engine import gel
        before = self._ensure()
        gel.apply_split(self.ctx, self.state, copy.deepcopy(op["split"]))
        self._annotate_only("apply_split", "splits", before, 1, [("original", list(op["split"]["original"]))])
        self.check_structure("split")
        self.check_model("split")
        self.flag("split_applied")

    # ------------------------------------------------------------------ promotion
    def _promote_one(self, p):
        from clematis.engine import gel
        before = self._ensure()
        r = gel.apply_promotion(self.ctx, self.state, copy.deepcopy(p))
        pinfo = self.model.promote(p)
        g = self.graph()
        cid = str(p["concept_id"])
        want_nodes = dict(before["nodes"])
        if pinfo["new_node"]:
            want_nodes[cid] = {"id": cid, "label": str(p.get("label", cid)), "attrs": {"kind": "concept"}}
        if g["nodes"] != want_nodes:
            self.fail(f"promotion of {p} left nodes {g['nodes']}, expected only the concept node added: {want_nodes}",
                      "promotion-nodes")
        ck = set(pinfo["keys"])
        if set(g["edges"]) != set(before["edges"]) | ck:
            self.fail(f"promotion of {p} changed the edge key set by {sorted(set(g['edges']) ^ set(before['edges']))}, "
                      f"allowed: concept-member keys {sorted(ck)}", "promotion-edges")
        for k, rec_ in g["edges"].items():
            if k in ck:
                if rec_["weight"] != float(p.get("attach_weight", 0.5)) or rec_["rel"] != "concept" \
                        or {rec_["src"], rec_["dst"]} - {cid} - set(map(str, p["members"])):
                    self.fail(f"concept edge {k!r} is {rec_}, expected weight {p.get('attach_weight')} rel 'concept'",
                              "promotion-attach")
            elif rec_ != before["edges"][k]:
                self.fail(f"promotion of {p} modified unrelated edge {k!r}: {before['edges'][k]} -> {rec_}",
                          "promotion-unrelated")
        mb, ma = _meta_norm(before.get("meta")), _meta_norm(g.get("meta"))
        mb["concept_nodes_count"] = int(mb["concept_nodes_count"]) + (1 if pinfo["new_node"] else 0)
        if ma != mb:
            self.fail(f"promotion of {p} left meta {ma}, expected {mb}", "promotion-meta")
        if r.get("concept") != cid or r.get("members") != len(p["members"]):
            self.fail(f"apply_promotion returned {r} for {p}", "promotion-metrics")
        self.check_structure("promotion")
        self.check_model("promotion")
        once = copy.deepcopy(g)
        gel.apply_promotion(self.ctx, self.state, copy.deepcopy(p))
        self.model.promote(p)
        if self.graph() != once:
            self.fail(f"applying promotion {p} a second time changed the graph: {_brief(once)} -> {_brief(self.graph())} "
                      f"meta {once.get('meta')} -> {self.graph().get('meta')}", "promotion-not-idempotent")
        self.flag("promotion_applied")
        if pinfo["overwrote"]:
            self.flag("promotion_overwrote_edge")

    def _promote_clusters(self, clusters):
        from clematis.engine import gel
        pre = self._ensure()
        promos = gel.promote_clusters(self.ctx, self.state, copy.deepcopy(clusters))
        g = self.graph()
        if g["nodes"] != pre["nodes"] or g["edges"] != pre["edges"] or _meta_norm(g.get("meta")) != _meta_norm(pre.get("meta")):
            self.fail("promote_clusters (planning only) modified the graph", "candidates-mutate")
        want = self.model.plan_promotions(clusters)
        if promos != want:
            self.fail(f"promote_clusters({clusters}) = {promos}, reference plan {want}", "promotion-plan")
        for p in promos[: int(self.g["promotion"]["cap_per_turn"])]:
            self._promote_one(p)

    def do_promote_pass(self, op):
        from clematis.engine import gel
        self._promote_clusters(self._candidates(gel.merge_candidates, "merge_candidates"))

    def do_promote_direct(self, op):
        self._promote_clusters(op["clusters"])

    def do_promote_apply(self, op):
        self._promote_one(op["promo"])

    # ------------------------------------------------------------------ snapshot round trip / boot load
    def _snap_ctx(self, d):
        from harness.world import AttrDict, make_ctx
        cfg = AttrDict(self.cfg)
        t4 = AttrDict(cfg.get("t4") or {})
        t4["snapshot_dir"] = d
        cfg["t4"] = t4
        return make_ctx(cfg, agent="A")

    def _resync(self, where, allowed_pairs=None):
        """The graph was (re)loaded from a snapshot: it is new initial content for the model.  Only what the property
        states is asserted (canonical key, one record per unordered pair, finite weights)."""
        self.check_structure(where)
        g = self.graph()
        self.model.edges.clear()
        self.model.covered.clear()
        for k, r in g["edges"].items():
            lo, hi = sorted((r["src"], r["dst"]))
            if allowed_pairs is not None and (lo, hi) not in allowed_pairs:
                self.fail(f"after {where}: edge {k!r} joins {lo!r},{hi!r}, no such pair was stored", "snapshot-invented-pair")
            self.model.edges[k] = {"src": lo, "dst": hi, "w": r["weight"], "rel": r.get("rel"),
                                   "coact": int((r.get("attrs") or {}).get("coact", 0))}
            self.model.covered[k] = self.model.lo <= r["weight"] <= self.model.hi
        self.model.nodes = {str(n): dict(v) if isinstance(v, dict) else {"id": str(n)} for n, v in g["nodes"].items()}

    def do_snapshot(self, op):
        """write_snapshot + load_latest_snapshot (same or fresh state): a graph that has one canonical record per pair
        must come back with exactly the same keys and endpoints (weights, rel and counters are C06's business: the
        reference model simply takes them over as new initial content)."""
        import shutil
        import tempfile
        from clematis.engine import snapshot as snapmod

        g0 = self._ensure()
        d = tempfile.mkdtemp(prefix="vx_c18s_", dir=_tmp_base())
        try:
            ctx = self._snap_ctx(d)
            snapmod.write_snapshot(ctx, self.state, "7", 0, [])
            if op.get("fresh"):
                self.state = self._fresh_state()
            info = snapmod.load_latest_snapshot(ctx, self.state)
        finally:
            shutil.rmtree(d, ignore_errors=True)
        if not info.get("path"):
            raise RuntimeError(f"snapshot round trip: nothing was loaded ({info})")
        g = self.graph()
        if set(g["edges"]) != set(g0["edges"]):
            self.fail(f"snapshot round trip changed the edge keys: {sorted(g0['edges'])} -> {sorted(g['edges'])}",
                      "snapshot-rekey")
        for k, r in g["edges"].items():
            b = g0["edges"][k]
            if {r.get("src"), r.get("dst")} != {b["src"], b["dst"]}:
                self.fail(f"snapshot round trip turned edge {k!r} {b} into {r}", "snapshot-record")
        self._resync("snapshot round trip")
        self.flag("snapshot_roundtrip")
        if g0["edges"]:
            self.flag("snapshot_roundtrip_edges")

    def _boot_legacy(self, legacy):
        """Boot load of a foreign / older snapshot body: edges as a list or under arbitrary keys, endpoints in any
        order, the same pair listed twice (either direction, different rel)."""
        import os
        import shutil
        import tempfile
        from clematis.engine import snapshot as snapmod

        edges = legacy.get("edges") or []
        if legacy.get("form") == "list":
            body = [{"src": a, "dst": b, "rel": rel, "weight": w} for a, b, w, rel, _ in edges]
        else:
            body = {}
            for n, (a, b, w, rel, style) in enumerate(edges):
                key = {"arrow": f"{a}{SEP}{b}", "under": f"{a}__{b}__{rel}"}.get(style, f"e{n}")
                rec = {"src": a, "dst": b, "rel": rel, "weight": w}
                if style == "arrow":
                    rec["id"] = key
                    rec["attrs"] = {"coact": 2, "last_seen_turn": None}
                body[key] = rec
        gel_body = {"nodes": {}, "edges": body}
        if legacy.get("meta"):
            gel_body["meta"] = {"schema": "v1", "merges": [], "splits": [], "promotions": [], "concept_nodes_count": 0}
        payload = {"turn": 1, "agent": "A", "version_etag": "3", "schema_version": "v1", "store": {},
                   legacy.get("section") or "gel": gel_body}
        d = tempfile.mkdtemp(prefix="vx_c18b_", dir=_tmp_base())
        try:
            with open(os.path.join(d, "state_A.json"), "w", encoding="utf-8") as f:
                json.dump(payload, f)
            info = snapmod.load_latest_snapshot(self._snap_ctx(d), self.state)
        finally:
            shutil.rmtree(d, ignore_errors=True)
        if not info.get("path"):
            raise RuntimeError(f"legacy boot: nothing was loaded ({info})")
        self.loose = True
        self._resync("boot load", allowed_pairs={tuple(sorted((str(a), str(b)))) for a, b, _, _, _ in edges})
        self.flag("boot_legacy")
        pairs = [tuple(sorted((a, b))) for a, b, _, _, _ in edges]
        if len(set(pairs)) < len(pairs):
            self.flag("boot_dup_pair")
        if any(a > b for a, b, _, _, _ in edges):
            self.flag("boot_reversed_endpoints")

    # ------------------------------------------------------------------ disabled path
    def apply_disabled(self, op):
        from clematis.engine import gel
        kind = op["op"]
        ctx, s = self.ctx, self.state
        out = None
        if kind == "observe":
            out = gel.observe_retrieval(ctx, s, wrap_items([build_item(it) for it in op["items"]], op.get("container")),
                                        turn=op.get("turn"), agent="A")
            if out.get("pairs_updated") != 0:
                self.fail(f"gate off: observe reports {out}", "gate-metrics")
            act = [x for x in map(abstract_item, op["items"]) if float(x[1]) >= float(self.g["coactivation_threshold"])]
            if len(act) >= 2 and int(self.g["pair_cap_per_obs"]) > 0:
                self.flag("gate_obs_would_pair")
        elif kind == "tick":
            out = gel.tick(ctx, s, decay_dt=op["dt"], turn=op.get("turn"), agent="A")
            if out.get("decayed_edges") != 0 or out.get("dropped_edges") != 0:
                self.fail(f"gate off: tick reports {out}", "gate-metrics")
        elif kind in ("merge_pass", "promote_pass"):
            c = gel.merge_candidates(ctx, s)
            p = gel.promote_clusters(ctx, s, [{"nodes": ["a", "b"]}])
            if c or p:
                self.fail(f"gate off: candidates {c} promotions {p}", "gate-candidates")
        elif kind == "split_pass":
            c = gel.split_candidates(ctx, s)
            if c:
                self.fail(f"gate off: split candidates {c}", "gate-candidates")
        elif kind == "merge_direct":
            gel.apply_merge(ctx, s, copy.deepcopy(op["cluster"]))
            self.flag("gate_direct_apply")
        elif kind == "split_direct":
            gel.apply_split(ctx, s, copy.deepcopy(op["split"]))
            self.flag("gate_direct_apply")
        elif kind == "promote_direct":
            if gel.promote_clusters(ctx, s, copy.deepcopy(op["clusters"])):
                self.fail("gate off: promote_clusters planned promotions", "gate-candidates")
        elif kind == "promote_apply":
            gel.apply_promotion(ctx, s, copy.deepcopy(op["promo"]))
            self.flag("gate_direct_apply")
        else:
            raise RuntimeError(f"unknown op {kind}")
        if not self.had_graph and self.graph() is not None:
            self.fail(f"graph.enabled=false: {kind} created state.graph = {self.graph()}", "gate-creates-graph")
        now = _snap(self.state)
        if now != self.snap0:
            self.fail(f"graph.enabled=false: {kind} changed the state: {self.snap0} -> {now}", "gate-mutates")

    # ------------------------------------------------------------------ coverage
    def finish(self, kind):
        rec = self.rec
        if rec is None or self.rejected:
            return
        f = self.flags
        nops = len(self.history) - 1
        if kind == "machine":
            nt = bool(f.get("clamp_hit") and f.get("floor_drop") and f.get("obs_permuted"))
        elif kind == "observe":
            nt = bool(f.get("obs_nontrivial"))
        elif kind == "tick":
            nt = bool(f.get("tick_nontrivial"))
        elif kind == "maint":
            nt = bool((f.get("merge_applied") or f.get("split_applied")) and f.get("promotion_applied"))
        elif kind == "boot":
            nt = bool(f.get("boot_legacy") and (f.get("boot_reversed_endpoints") or f.get("boot_dup_pair")))
        else:
            nt = bool(nops >= 3 and f.get("gate_obs_would_pair") and f.get("gate_direct_apply"))
        labels = sorted(k for k in f if not k.startswith("op_")) + [f"mode={self.g['update']['mode']}"]
        init = self.history[0]
        labels.append(f"ctx={init.get('ctx')}")
        if init.get("store_shape"):
            labels.append(f"store={init['store_shape']}")
        if init.get("nodes"):
            labels.append("preexisting_concept_node")
        for k, lab in (("coactivation_threshold", "threshold=0"), ("pair_cap_per_obs", "pair_cap=0")):
            if self.g[k] == 0:
                labels.append(lab)
        if self.g["update"]["clamp_max"] == 0:
            labels.append("clamp_max=0")
        if self.g["update"]["clamp_min"] == 0:
            labels.append("clamp_min=0")
        if self.g["decay"]["floor"] == self.g["update"]["clamp_max"]:
            labels.append("floor=clamp_max")
        if self.g["update"]["clamp_min"] > 0:
            labels.append("clamp_excludes_0")
        if self.had_graph:
            labels.append("preexisting_graph")
        labels.append("state=" + ("dict" if isinstance(self.state, dict) else "obj"))
        rec.case(nontrivial=nt, dig=digest(self.history) if nt else None, labels=labels,
                 sample={"graph": {k: self.g[k] for k in ("coactivation_threshold", "observe_top_k", "pair_cap_per_obs",
                                                          "update", "decay")},
                         "ops": [_op_brief(o) for o in self.history[1:8]],
                         "edges_end": {k: v[2] for k, v in list(self.real_view().items())[:6]} if self.enabled else None,
                         "flags": dict(f)} if nt else None)


def _brief(g):
    if not g:
        return g
    return {k: (r.get("weight"), r.get("rel"), (r.get("attrs") or {}).get("coact")) for k, r in (g.get("edges") or {}).items()}


def _op_brief(o):
    if o["op"] == "observe":
        return {"op": "observe", "items": [(it["shape"], it["id"], it["score"]) for it in o["items"]], "perm": o.get("perm")}
    return o


def run_history(history, rec=None, kind="machine"):
    w = World(history[0], rec)
    for op in history[1:]:
        w.apply(op)
    w.finish(kind)
    return w


# =============================================================================================== strategies

def _pick(*xs):
    return st.sampled_from(list(xs))


@st.composite
def graph_settings(draw, enabled=True, maint=False):
    hi = draw(st.one_of(_pick(1.0, 1.0, 1.0, 0.1, 0.75, 0.5, 2.0, 0.25, 5.0, 0.0, 1e308),
                        st.floats(min_value=0.0, max_value=4.0, allow_nan=False)))
    lo_kind = draw(_pick("sym", "sym", "sym", "neg", "neg", "neg", "neg", "zero", "zero", "zero", "big", "big", "sym", "neg",
                         "neg", "pos"))
    if lo_kind == "sym" and hi > 0:
        lo = -hi
    elif lo_kind == "zero" and hi > 0:
        lo = 0.0
    elif lo_kind == "pos" and hi > 0:
        lo = hi * draw(_pick(0.5, 0.25, 0.125, 0.9))
    elif lo_kind == "big":
        lo = -1e308
    else:
        lo = draw(_pick(-1.0, -0.1, -0.5, -3.0, -1e-9))
    if not lo < hi:  # subnormal hi: hi * fraction rounds back to hi
        lo = -1.0
    alpha = draw(st.one_of(_pick(0.25, 0.5, 0.125, 1.0, 0.02, 0.3, 2.0, 0.0625, 1e-9, 1e308),
                           st.floats(min_value=1e-6, max_value=2.0, allow_nan=False)))
    floor = min(hi, draw(st.one_of(_pick(0.0, 0.0, 0.05, 0.1, 0.125, 0.25, 0.5, 0.0625, 1e-300, 1e308),
                                   st.floats(min_value=0.0, max_value=1.0, allow_nan=False))))  # 1e308 -> floor == clamp_max
    min_avg_w = draw(_pick(0.0, 0.05, 0.2, 0.5, 1.0)) if maint else draw(_pick(0.2, 0.0, 0.5))
    weak = min(min_avg_w, draw(_pick(0.0, 0.05, 0.2, 0.3, 0.5)))
    return {
        "enabled": enabled,
        "coactivation_threshold": draw(st.one_of(_pick(0.2, 0.2, 0.0, 0.5, 1.0, 0.9), st.floats(min_value=0.0, max_value=1.0))),
        "observe_top_k": draw(_pick(1, 2, 2, 3, 3, 4, 8, 64, 64, 65, 100, 10 ** 9)),
        "pair_cap_per_obs": draw(_pick(0, 1, 1, 2, 3, 5, 2048, 2048, 2049, 10 ** 9)),
        "update": {"mode": draw(_pick("additive", "proportional")), "alpha": alpha, "clamp_min": lo, "clamp_max": hi},
        "decay": {"half_life_turns": draw(_pick(1, 1, 2, 3, 10, 200, 10 ** 6, 10 ** 17)), "floor": floor},
        "merge": {"enabled": True, "min_size": draw(_pick(2, 2, 3)), "min_avg_w": min_avg_w,
                  "max_diameter": draw(_pick(1, 2, 2, 3, 3, 10 ** 9)), "cap_per_turn": draw(_pick(0, 1, 2, 4))},
        "split": {"enabled": True, "weak_edge_thresh": weak, "min_component_size": draw(_pick(2, 2, 3)),
                  "cap_per_turn": draw(_pick(0, 1, 4))},
        "promotion": {"enabled": True, "label_mode": draw(_pick("lexmin", "concat_k")),
                      "topk_label_ids": draw(_pick(1, 2, 2, 3, 3, 10 ** 9)),
                      "attach_weight": draw(st.one_of(_pick(0.5, 0.3, 1.0, -1.0, 0.0, -0.25),
                                                      st.floats(min_value=-1.0, max_value=1.0))),
                      "cap_per_turn": draw(_pick(0, 1, 2, 2))},
    }


def ids_():
    return st.one_of(st.sampled_from(IDS), st.sampled_from(IDS), st.sampled_from(IDS[:4]), st.sampled_from(IDS[:4]),
                     _pick(9, 10), st.sampled_from(IDS_RARE))


def scores_(thr_pool=(0.2, 0.5, 0.0, 1.0, 0.9)):
    around = [f(t) for t in thr_pool for f in (lambda t: t, lambda t: math.nextafter(t, -INF), lambda t: math.nextafter(t, INF))]
    special = [0.9, 0.9, 0.5, 0.75, 1.0, 0.0, -0.0, NAN, INF, -INF, 1, 0, 2.5, -1.0]
    return st.one_of(st.sampled_from(special), st.sampled_from(around), _pick(0.9, 0.8, 0.7, 0.6),
                     st.floats(min_value=0.0, max_value=1.0))


@st.composite
def observe_op(draw, max_items=8):
    n = draw(st.one_of(st.integers(2, max_items), st.integers(0, max_items)))
    items = [{"shape": draw(st.sampled_from(SHAPES)), "id": draw(ids_()), "score": draw(scores_())} for _ in range(n)]
    perm = list(draw(st.permutations(list(range(n)))))
    return {"op": "observe", "items": items, "perm": perm, "turn": draw(_pick(None, 0, 1, 7)),
            "container": draw(_pick("list", "list", "tuple", "iter"))}


@st.composite
def big_observe_op(draw):
    """More items than the default top-k (64) / more pairs than the default pair cap (2048)."""
    n = draw(st.integers(66, 90))
    ids = draw(st.permutations(BIG_IDS))[:n]
    hi = draw(_pick(0.95, 0.9, 1.0))
    n_low = draw(st.integers(0, 3))  # a few items below any threshold >= 0.2; the rest qualifies (>= 63 items)
    items = [{"shape": "tuple", "id": i, "score": 0.1 if j < n_low else draw(_pick(hi, hi, hi, 0.8, 0.85))}
             for j, i in enumerate(ids)]
    perm = list(range(n))[::-1] if draw(st.booleans()) else list(draw(st.permutations(list(range(n)))))
    return {"op": "observe", "items": items, "perm": perm, "turn": draw(_pick(None, 2)), "container": "list"}


def snapshot_op():
    return st.builds(lambda fresh: {"op": "snapshot", "fresh": fresh}, st.booleans())


def tick_op():
    return st.builds(lambda dt, turn: {"op": "tick", "dt": dt, "turn": turn},
                     _pick(1, 1, 1, 1, 2, 3, 4, 0, 10, 200, 1000, 10 ** 6, -1), _pick(None, 0, 3))


def _nodes(min_size=0, max_size=4):
    return st.lists(st.sampled_from(IDS), min_size=min_size, max_size=max_size, unique=True)


def merge_direct_op():
    return st.builds(lambda ns, w, d: {"op": "merge_direct", "cluster": {"type": "merge_candidate", "nodes": sorted(ns),
                                                                         "size": len(ns), "avg_w": w, "diameter": d,
                                                                         "signature": "|".join(sorted(ns))}},
                     _nodes(), _pick(0.5, 0.25, 1.0), st.integers(0, 3))


def split_direct_op():
    def mk(ns, cut, rem):
        ns = sorted(ns)
        return {"op": "split_direct", "split": {"type": "split_candidate", "original": ns,
                                                "parts": [ns[:cut], ns[cut:]], "removed_edges": rem,
                                                "orig_edges": rem + 1, "signature": "|".join(ns)}}
    return st.builds(mk, _nodes(2, 4), st.integers(1, 2), st.integers(0, 3))


def promote_direct_op():
    return st.builds(lambda cl: {"op": "promote_direct", "clusters": [{"nodes": c} for c in cl]},
                     st.lists(_nodes(0, 3), min_size=1, max_size=3))


def promote_apply_op():
    def mk(ns, w, lab, extra):
        ns = sorted(ns)
        promo = {"concept_id": "c::" + ns[0], "label": lab or ns[0], "members": ns + sorted(extra), "attach_weight": w}
        if w is None:  # apply_promotion documents defaults for both (0.5 / the concept id)
            del promo["attach_weight"]
            del promo["label"]
        return {"op": "promote_apply", "promo": promo}
    # `extra`: a later promotion of the same concept with more members (the node exists, new edges must still attach)
    return st.builds(mk, _nodes(1, 3), _pick(0.5, 0.3, -1.0, 1.0, 0.0, -0.5, None), _pick(None, "L"),
                     st.one_of(st.just([]), st.just([]), st.lists(st.sampled_from(IDS_RARE[:4] + ["z"]), max_size=2, unique=True)))


def maint_op():
    return st.one_of(st.just({"op": "merge_pass"}), st.just({"op": "split_pass"}), st.just({"op": "promote_pass"}),
                     merge_direct_op(), split_direct_op(), promote_direct_op(), promote_apply_op())


def any_op(snapshots=True):
    ops = [observe_op()] * 8 + [tick_op()] * 6 + [maint_op()] * 4
    if snapshots:  # not a GEL operation: never part of a gate-off history
        ops.append(snapshot_op())
    return st.one_of(*ops)


def init_edges(max_edges=5, strong=False):
    w = st.one_of(_pick(0.5, 0.25, 0.125, 1.0, 0.8, 0.05, 0.0, -0.5, 2.0, -2.0, 1e-300, 0.0625),
                  st.floats(min_value=-1.0, max_value=1.0)) if not strong else _pick(0.5, 0.8, 1.0, 0.25, 0.04, 0.3, -0.6)
    e = st.tuples(st.sampled_from(IDS), st.sampled_from(IDS), w, _pick("coact", "coact", "concept"))
    return st.lists(e, min_size=0, max_size=max_edges, unique_by=lambda t: canon(t[0], t[1])[0]).map(
        lambda xs: [list(x) for x in xs])


@st.composite
def init_(draw, enabled=True, edges=None, maint=False):
    ed = draw(edges) if edges is not None else []
    g = draw(graph_settings(enabled=enabled, maint=maint))
    floor = g["decay"]["floor"]
    if ed and 0.0 < floor < 1e300 and draw(_pick(False, False, True)):
        # weights that a tick carries to exactly the floor / one ulp around it (2**-j is exact)
        for e in ed[: draw(st.integers(1, 2))]:
            w = floor * 2.0 ** draw(st.integers(0, 3))
            w = draw(_pick(w, w, math.nextafter(w, 0.0), math.nextafter(w, INF)))
            e[2] = w if draw(_pick(True, True, False)) else -w
    init = {"op": "init", "graph": g, "ctx": draw(_pick("ns", "ns", "ns", "dict", "dict", "cfg_only", "config_only")),
            "state": draw(_pick("obj", "dict")), "edges": ed, "has_graph": bool(ed) or draw(st.booleans())}
    if init["has_graph"]:
        init["store_shape"] = draw(_pick("full", "full", "full", "edges_only", "no_meta", "meta_v1", "alias_gel"))
        if draw(_pick(False, False, False, True)):
            # a concept node left over from an earlier promotion (its edges may have decayed away since)
            init["nodes"] = [[cid, draw(_pick("old", cid))] for cid in draw(st.lists(_pick("c::a", "c::b", "c::10", "c::B"),
                                                                                     min_size=1, max_size=2, unique=True))]
        init["bare_concept_attrs"] = draw(st.booleans())
    elif draw(_pick(False, False, False, True)):
        init["store_shape"] = "none_value"
    return init


@st.composite
def hist_observe(draw):
    init = draw(init_(edges=init_edges(4)))
    if draw(_pick(*([False] * 7 + [True]))):
        # sizes beyond the default caps: 65..80 items, top-k / pair cap at and just above the defaults (64 / 2048)
        g = init["graph"]
        g["observe_top_k"] = draw(_pick(64, 65, 65, 100, 100, 10 ** 9, 10 ** 9, 3))
        g["pair_cap_per_obs"] = draw(_pick(2048, 2049, 2049, 10 ** 9, 10 ** 9, 10 ** 9, 5))
        g["coactivation_threshold"] = min(g["coactivation_threshold"], 0.5)
        return [init, draw(big_observe_op())] + draw(st.lists(st.one_of(big_observe_op(), observe_op(max_items=12)), max_size=1))
    return [init] + draw(st.lists(observe_op(max_items=12), min_size=1, max_size=3))


@st.composite
def hist_tick(draw):
    init = draw(init_(edges=init_edges(6)))
    ops = draw(st.lists(st.one_of(*([tick_op()] * 9 + [observe_op(max_items=4)] * 3 + [snapshot_op(), promote_apply_op()])),
                        min_size=1, max_size=5))
    return [init] + ops + [draw(tick_op())]


@st.composite
def hist_maint(draw):
    init = draw(init_(edges=init_edges(6, strong=True), maint=True))
    ops = draw(st.lists(st.one_of(*([maint_op()] * 9 + [observe_op(max_items=5)] * 3 + [tick_op()] * 3 + [snapshot_op()])),
                        min_size=1, max_size=6))
    return [init] + ops


@st.composite
def hist_gate(draw):
    init = draw(init_(enabled=False, edges=st.one_of(st.just([]), init_edges(4))))
    if not init["edges"]:
        init["has_graph"] = draw(st.booleans())
    return [init] + draw(st.lists(any_op(snapshots=False), min_size=1, max_size=8))


@st.composite
def hist_boot(draw):
    """Boot load of a legacy snapshot body, then a short history on the loaded graph (incl. another round trip)."""
    init = draw(init_())
    init["has_graph"], init["edges"] = False, []
    for k in ("store_shape", "nodes", "bare_concept_attrs"):
        init.pop(k, None)
    ids = st.one_of(st.sampled_from(IDS), st.sampled_from(IDS[:4]), st.sampled_from(IDS_RARE))
    w = _pick(0.5, 0.25, 1.0, -0.5, 0.05, 0.0, 1, 0.123456789, -1.0, 0.8)
    e = st.tuples(ids, ids, w, _pick("coact", "coact", "coact", "concept"), _pick("arrow", "under", "n"))
    edges = [list(x) for x in draw(st.lists(e, min_size=1, max_size=6))]
    if draw(st.booleans()):  # the same pair again: other direction and/or other rel
        a, b, w0, rel, style = draw(st.sampled_from(edges))
        edges.append([b, a, draw(w), draw(_pick(rel, "concept", "coact")), style])
    init["legacy"] = {"form": draw(_pick("list", "dict", "dict")), "section": draw(_pick("gel", "gel", "graph")),
                      "meta": draw(st.booleans()), "edges": edges}
    ops = draw(st.lists(st.one_of(*([observe_op(max_items=5)] * 4 + [tick_op()] * 2 + [maint_op(), snapshot_op()])),
                        min_size=0, max_size=4))
    return [init] + ops


# =============================================================================================== sub-checks

def sub_machine(rec, seed, shard, nshards, n=100, steps=30, shrink=True):
    from hypothesis import reject
    from hypothesis.stateful import RuleBasedStateMachine, initialize, rule

    class GelMachine(RuleBasedStateMachine):
        def __init__(self):
            super().__init__()
            self.world = None
            self.history = []

        @initialize(init=init_(edges=st.one_of(st.just([]), st.just([]), init_edges(3))))
        def start(self, init):
            self.world = World(init, rec)
            self.history = self.world.history
            if self.world.rejected:
                reject()

        @rule(op=any_op())
        def step(self, op):
            try:
                self.world.apply(op)
            except Violation as v:
                type(self)._vx_last["v"] = v
                raise

        def teardown(self):
            if self.world is not None:
                self.world.finish("machine")

    run_machine(rec, seed, GelMachine, max_examples=n, steps=steps, shrink=shrink, name="machine")


def _sub(kind, strat):
    def fn(rec, seed, shard, nshards, n=300, shrink=True):
        run_hypothesis(rec, seed, strat(), lambda h: run_history(h, rec, kind), max_examples=n, shrink=shrink, name=kind)
    fn.__name__ = "sub_" + kind
    return fn


sub_observe = _sub("observe", hist_observe)
sub_tick = _sub("tick", hist_tick)
sub_maint = _sub("maint", hist_maint)
sub_gate = _sub("gate", hist_gate)
sub_boot = _sub("boot", hist_boot)


# ----------------------------------------------------------------------------------- orchestrator level ("turns")

TEXTS = ["apple pear", "apple", "apple pear kiwi", "plum", "kiwi plum", "pear", "Äpfel apple"]


@st.composite
def turn_cases(draw):
    g = draw(graph_settings(enabled=draw(_pick(True, True, True, False)), maint=True))
    for sec in ("merge", "split", "promotion"):
        g[sec]["enabled"] = draw(_pick(True, True, False))
    episodes = draw(st.lists(st.sampled_from(TEXTS), min_size=2, max_size=6))
    case = {"graph": g, "episodes": episodes, "turns": draw(st.lists(st.sampled_from(TEXTS), min_size=1, max_size=3))}
    if draw(_pick(True, True, True, False)):
        # a graph is already there (as after a boot load): strong pairs, weak bridges, a concept edge, an id that sorts
        # before "c::" -- so that the per-turn maintenance block has candidates to cap, annotate and promote
        n = len(episodes)
        ids = [f"ep{i}" for i in range(n)] + ["Z9", "zz"]
        w = _pick(0.9, 0.8, 1.0, 0.6, 0.9, 0.03, 0.01, -0.7)
        e = st.tuples(st.sampled_from(ids), st.sampled_from(ids), w, _pick("coact", "coact", "coact", "concept"))
        pattern = draw(_pick("bridge", "bridge", "triangle", "random"))
        base = {"bridge": [("ep0", "ep1", 0.9, "coact"), ("Z9", "zz", draw(_pick(0.8, -0.8)), "coact"),
                           ("ep1", "Z9", draw(_pick(0.03, 0.02, -0.03)), "coact")],
                "triangle": [("ep0", "ep1", 0.9, "coact"), ("ep1", "Z9", 0.8, "coact"), ("ep0", "Z9", 0.7, "concept")],
                "random": []}[pattern]
        extra = draw(st.lists(e, min_size=0 if base else 1, max_size=4))
        seen_keys, pre = set(), []
        for x in base + extra:
            k = canon(x[0], x[1])[0]
            if k not in seen_keys:
                seen_keys.add(k)
                pre.append(list(x))
        case["pre_edges"] = pre
        if base or draw(st.booleans()):  # settings under which those edges survive the tick and qualify
            g["decay"]["floor"] = min(g["decay"]["floor"], draw(_pick(0.0, 0.0, 0.01)))
            g["decay"]["half_life_turns"] = draw(_pick(3, 10, 200))
            g["merge"]["min_avg_w"] = draw(_pick(0.0, 0.05, 0.2, 0.5))
            g["merge"]["min_size"] = 2
            g["merge"]["enabled"] = draw(_pick(True, True, True, False))
            g["split"]["weak_edge_thresh"] = min(g["merge"]["min_avg_w"], draw(_pick(0.05, 0.2)))
            g["split"]["min_component_size"] = 2
            g["split"]["enabled"] = draw(_pick(True, True, True, False))
            g["promotion"]["enabled"] = draw(_pick(True, True, True, False))
    if draw(_pick(True, True, False)):
        # T2 lists its hits in RANKING order (cosine blended with recency / importance) while GEL thresholds and sorts on
        # the raw score: old episodes with high cosines next to fresh / important ones, fewer top-k slots than hits
        case["rank"] = {"ranking": draw(_pick({"alpha_sim": 0.75, "beta_recency": 0.2, "gamma_importance": 0.05},
                                              {"alpha_sim": 0.5, "beta_recency": 0.5, "gamma_importance": 0.0},
                                              {"alpha_sim": 0.5, "beta_recency": 0.0, "gamma_importance": 0.5},
                                              {"alpha_sim": 0.34, "beta_recency": 0.33, "gamma_importance": 0.33})),
                        "ep_meta": [[draw(_pick(0, 0, 1, 300, 400, 3000)), draw(_pick(0.0, 0.0, 1.0, 0.5))] for _ in episodes]}
        g["observe_top_k"] = draw(_pick(1, 2, 2, 3, 3, 4))
        g["coactivation_threshold"] = min(g["coactivation_threshold"], draw(_pick(0.2, 0.0, 0.3)))
        g["pair_cap_per_obs"] = max(g["pair_cap_per_obs"], draw(_pick(1, 3, 2048)))
    if g["enabled"] and len(case["turns"]) >= 2:
        # process restarts: a fresh state boot-loads the snapshot the previous turn wrote
        case["restarts"] = sorted(draw(st.lists(st.integers(2, len(case["turns"])), max_size=2, unique=True)))
    return case


def check_turns(case, rec=None):
    """Real Orchestrator.run_turn turns (real T1..T4/apply, in-memory index) versus the same GEL operations applied
    through the direct API in the order the orchestrator documents: observe(t2.retrieved) -> tick(1) -> merge pass ->
    split pass -> promotion pass (clusters = merge candidates).  Gate off: no state['graph'], no gel.jsonl."""
    import os
    import clematis.engine.orchestrator.core as core
    from clematis.memory.index import InMemoryIndex
    from clematis.adapters.embeddings import DeterministicEmbeddingAdapter
    from clematis.engine.types import EpisodeRef
    from configs.validate import ConfigError
    from harness.world import sandbox, validated_cfg, make_ctx, build_store, reset_engine_globals

    g = case["graph"]
    pre_edges = case.get("pre_edges") or []
    restarts = set(case.get("restarts") or [])
    shadow = World({"op": "init", "graph": g, "ctx": "ns", "state": "dict", "edges": pre_edges, "has_graph": bool(pre_edges)},
                   rec)
    if shadow.rejected:
        return
    seen = []
    real_obs = core.gel_observe

    def spy(ctx, state, items, **kw):
        seen.append(list(items))
        return real_obs(ctx, state, items, **kw)

    paired = 0
    with sandbox("vx_c18_") as d:
        reset_engine_globals()
        rank = case.get("rank") or {}
        over = {"graph": copy.deepcopy(g), "t4": {"snapshot_dir": os.path.join(d, "snap")}}
        if rank:
            over["t2"] = {"ranking": dict(rank["ranking"]), "exact_recent_days": 36500}
        cfg = validated_cfg(over)
        idx = InMemoryIndex()
        enc = DeterministicEmbeddingAdapter(dim=32)
        for i, txt in enumerate(case["episodes"]):
            ts, aux = "2025-06-15T00:00:00Z", {}
            if rank:
                from harness.world import iso_minus
                ts = iso_minus("2025-06-15T00:00:00Z", int(rank["ep_meta"][i][0]) * 86400)
                aux = {"importance": float(rank["ep_meta"][i][1])}
            idx.add({"id": f"ep{i}", "owner": "A", "text": txt, "vec_full": enc.encode([txt])[0], "ts": ts, "aux": aux})
        state = {"store": build_store({}), "active_graphs": [], "mem_index": idx, "_boot_loaded": True, "version_etag": "0"}
        if pre_edges:
            state["graph"] = copy.deepcopy(shadow.graph())
        graph0 = _snap(state.get("graph"))
        core.gel_observe = spy
        import clematis.engine.orchestrator as orch_pkg
        real_t2 = orch_pkg.t2_semantic
        t2_hits = []

        def rec_t2(ctx, state_, text_, t1):
            res = real_t2(ctx, state_, text_, t1)
            if not t2_hits:  # the turn's retrieval (a later one-shot RAG retrieval is not what the turn observes)
                t2_hits.append(list(getattr(res, "retrieved", []) or []))
            return res

        orch_pkg.t2_semantic = rec_t2
        try:
            for t, text in enumerate(case["turns"], start=1):
                del seen[:]
                del t2_hits[:]
                restarted = g["enabled"] and t in restarts
                if restarted:
                    # a new process: nothing but the snapshot directory survives (the previous turn wrote state_A.json)
                    reset_engine_globals()
                    state = {"store": build_store({}), "active_graphs": [], "mem_index": idx, "version_etag": "0"}
                core.Orchestrator().run_turn(make_ctx(cfg, agent="A", turn_id=t), state, text)
                if not g["enabled"]:
                    if "graph" in state and not pre_edges:
                        raise Violation(f"graph.enabled=false: turn {t} created state['graph'] = {state['graph']}", case,
                                        "gate-creates-graph")
                    if _snap(state.get("graph")) != graph0:
                        raise Violation(f"graph.enabled=false: turn {t} changed state['graph']: {graph0} -> "
                                        f"{_snap(state.get('graph'))}", case, "gate-mutates")
                    if os.path.exists(os.path.join(d, "logs", "gel.jsonl")):
                        raise Violation(f"graph.enabled=false: turn {t} wrote gel.jsonl", case, "gate-log")
                    continue
                if len(seen) != 1:
                    raise Violation(f"turn {t}: the orchestrator observed retrieval {len(seen)} times", case, "turn-observe-count")
                if not all(isinstance(r, EpisodeRef) for r in seen[0]):
                    raise RuntimeError(f"orchestrator passes items of an unexpected shape: {seen[0][:2]}")
                # the observe clause holds for the turn: pairs among the top-k BY SCORE of ALL hits T2 returned this turn
                # (in whatever order T2 lists them), not of what the call site chose to forward
                hits = t2_hits[0] if t2_hits else seen[0]
                items = [{"shape": "ref", "id": r.id, "score": float(r.score)} for r in hits]
                if t2_hits:
                    shadow.flag("t2_captured")
                    listed = [(str(r.id), float(r.score)) for r in hits]
                    if len(listed) > g["observe_top_k"]:
                        shadow.flag("t2_more_hits_than_topk")
                        if listed != sorted(listed, key=lambda x: (-x[1], x[0])):
                            shadow.flag("t2_listing_not_score_order_and_truncated")
                ops = [{"op": "snapshot", "fresh": True}] if restarted else []
                ops += [{"op": "observe", "items": items, "perm": list(range(len(items)))[::-1], "turn": t, "container": "list"},
                        {"op": "tick", "dt": 1, "turn": t}]
                if g["merge"]["enabled"]:
                    ops.append({"op": "merge_pass"})
                if g["split"]["enabled"]:
                    ops.append({"op": "split_pass"})
                if g["promotion"]["enabled"] and g["merge"]["enabled"]:
                    ops.append({"op": "promote_pass"})
                try:
                    for op in ops:
                        shadow.apply(op)
                except Violation as v:
                    raise Violation(f"turn {t} (direct replay of the turn's GEL operations): {v.message}", case, v.sig)
                if state.get("graph") != shadow.graph():
                    raise Violation(f"turn {t}: the orchestrator left graph {_brief(state.get('graph'))} / meta "
                                    f"{(state.get('graph') or {}).get('meta')}, the same operations through the API give "
                                    f"{_brief(shadow.graph())} / meta {(shadow.graph() or {}).get('meta')}", case, "turn-diverges")
        finally:
            core.gel_observe = real_obs
            orch_pkg.t2_semantic = real_t2
        if not g["enabled"]:
            with open(os.path.join(d, "logs", "t2.jsonl"), "r", encoding="utf-8") as f:
                paired = max(int(json.loads(ln).get("k_returned", 0)) for ln in f if ln.strip())
    if rec is not None:
        f = shadow.flags
        nt = bool(f.get("obs_effective") or f.get("merge_applied") or f.get("split_applied")
                  or f.get("promotion_applied")) if g["enabled"] else paired >= 2
        labels = sorted(k for k in f if not k.startswith("op_")) + ["enabled" if g["enabled"] else "disabled"] + \
                 [f"{sec}_on" for sec in ("merge", "split", "promotion") if g[sec]["enabled"] and g["enabled"]]
        if pre_edges:
            labels.append("preexisting_graph")
        if restarts and g["enabled"]:
            labels.append("restart")
        for sec, fl in (("merge", "merge_applied"), ("split", "split_applied"), ("promotion", "promotion_applied")):
            if g["enabled"] and g[sec]["cap_per_turn"] == 0 and g[sec]["enabled"]:
                labels.append(f"{sec}_cap=0")
        rec.case(nontrivial=nt, dig=digest(case) if nt else None, labels=labels,
                 sample={"episodes": case["episodes"], "turns": case["turns"], "flags": dict(f),
                         "edges_end": {k: v[2] for k, v in list(shadow.real_view().items())[:6]}} if nt else None)


def sub_turns(rec, seed, shard, nshards, n=100, shrink=True):
    run_hypothesis(rec, seed, turn_cases(), lambda c: check_turns(c, rec), max_examples=n, shrink=shrink, name="turns")


def replay_turns(case):
    check_turns(_fix_floats(case), None)


def _fix_floats(x):
    if isinstance(x, dict):
        if set(x) == {"__float__"}:
            return float(x["__float__"])
        return {k: _fix_floats(v) for k, v in x.items()}
    if isinstance(x, list):
        return [_fix_floats(v) for v in x]
    return x


def replay_history(case):
    run_history(_fix_floats(case), None)


# =============================================================================================== known finding

MINIMAL = [
    {"op": "init", "ctx": "ns", "state": "obj", "edges": [], "has_graph": False,
     "graph": {"enabled": True, "coactivation_threshold": 0.2, "observe_top_k": 64, "pair_cap_per_obs": 2048,
               "update": {"mode": "additive", "alpha": 0.02, "clamp_min": 0.5, "clamp_max": 1.0},
               "decay": {"half_life_turns": 1, "floor": 0.0},
               "merge": {"enabled": False, "min_size": 3, "min_avg_w": 0.2, "max_diameter": 2, "cap_per_turn": 4},
               "split": {"enabled": False, "weak_edge_thresh": 0.05, "min_component_size": 2, "cap_per_turn": 4},
               "promotion": {"enabled": False, "label_mode": "lexmin", "topk_label_ids": 3, "attach_weight": 0.5,
                             "cap_per_turn": 2}}},
    {"op": "observe", "items": [{"shape": "tuple", "id": "a", "score": 0.9}, {"shape": "tuple", "id": "b", "score": 0.9}],
     "perm": [0, 1], "turn": None, "container": "list"},
    {"op": "tick", "dt": 1, "turn": None},
]


def probe_decay_below_clamp_min():
    """True while a validated config with clamp_min > 0 lets one decay tick carry a weight below clamp_min."""
    try:
        run_history(copy.deepcopy(MINIMAL), None)
    except Violation as v:
        return v.sig == "decay-leaves-clamp"
    return False


KNOWN_PROBES = {FINDING: probe_decay_below_clamp_min}

SUBCHECKS = [
    Sub("machine", sub_machine, quick={"n": 100, "steps": 30}, thorough={"n": 650, "steps": 60}, shards_quick=6,
        shards_thorough=16, replay=replay_history),
    Sub("observe", sub_observe, quick={"n": 400}, thorough={"n": 6000}, shards_quick=2, shards_thorough=8,
        replay=replay_history),
    Sub("tick", sub_tick, quick={"n": 400}, thorough={"n": 6000}, shards_quick=2, shards_thorough=8, replay=replay_history),
    Sub("maint", sub_maint, quick={"n": 300}, thorough={"n": 5000}, shards_quick=2, shards_thorough=8,
        replay=replay_history),
    Sub("gate", sub_gate, quick={"n": 300}, thorough={"n": 5000}, shards_quick=2, shards_thorough=8, replay=replay_history),
    Sub("boot", sub_boot, quick={"n": 300}, thorough={"n": 5000}, shards_quick=1, shards_thorough=8, replay=replay_history),
    Sub("turns", sub_turns, quick={"n": 120}, thorough={"n": 1500}, shards_quick=2, shards_thorough=8, replay=replay_turns),
]
