"""C01 — turn execution is reproducible byte-for-byte.

Metamorphic, run-vs-run: the observation of a generated (world, validated config, multi-agent script) must be identical
(a) when re-executed in the same warm process, (b) in fresh processes under other PYTHONHASHSEED values (case order
reversed), (c) under perturbed clocks (perf_counter / time.time / monotonic / *_ns jittered, scaled, stalling; datetime.now()
offset by hours or years inside the engine modules; os.listdir order shuffled; another process time zone), (d) with thread switching forced to 1 microsecond
(T1- and T2-parallel configs run their shard tasks on threads).

Hardened generator (see HARDENING.md): every cap the stages apply is drawn small enough to bite (k_retrieval, clusters_top_m,
residual cap, topic cap, GEL observe/pair/merge/promotion caps, hybrid k_max/anchors, MMR k, T4 churn/novelty/L2, queue/frontier/
visited caps, cache sizes/TTLs), worlds carry exact ties, labels / episode ids differing only in case, more touched labels
than the topic cap; the planner hook feeds real deltas to T4/apply/snapshots; an LLM dialogue backend (deterministic echo
adapter) makes the prompt visible; a second session boots from the snapshots the first one wrote; snapshot bodies are hashed
after EVERY turn (a body overwritten later is still compared); retrieval order is visible in most utterances.
"""
from __future__ import annotations

import contextlib
import copy
import hashlib
import json
import os
import subprocess
import sys
import tempfile

from hypothesis import strategies as st

from harness.runner import Sub, Violation, run_hypothesis, digest, jsonable
from harness import world, observe

LEVEL = "exploration"
RULE = ("Hypothesis-generated worlds (3 graphs of up to 10/4/3 nodes with overlapping node ids, labels differing only in case, "
        "crowds of >5 touched labels; 3-14 episodes of 4 owners incl. exact tie blocks, ids differing in case; GEL edges), "
        "validated configs (every stage cap drawn small enough to bite; caches on/off/small/byte-sized; T1- and T2-parallel 2-4 "
        "workers; scheduler with huge quantum so only budget-driven yields occur; GEL merge/split/promotion with caps; reflection; "
        "hybrid; quality+MMR; perf metrics/caps; retrieval from on-disk embedding shards; planner hook feeding deltas to T4/apply; "
        "LLM dialogue through an echo adapter; eager RAG; turn-level cache hits at a frozen instant with T4 off) and scripts of 2-6 turns over 2-3 agents with ingest/rewire steps between turns, optional second session "
        "booting from the written snapshots, optional header+payload (full/delta) re-encoding of the snapshot bodies; each case "
        "is executed in 4 environments (in-process, warm re-run, fresh process PYTHONHASHSEED=1 with reversed case order, fresh "
        "process with a seed-derived hash seed + perturbed clocks/listdir/time zone + 1us thread switching; thorough: two more). "
        "Non-trivial = some turn did T1 work (pops>0) and retrieved >=1 episode, and >=2 agents took turns. Distinct = digest of the case.")
ASSUMPTIONS = ["compared: utterances, t1/t2/t4/apply/turn/health.jsonl bytes under CI=true with the sandbox path normalised, "
               "scheduler.jsonl with consumed.ms masked, snapshot bodies (state_*.json) after every turn and at the end, "
               "header+payload snapshot files written from those bodies, final state digests; t3*/gel.jsonl (raw timings) by "
               "record count only",
               "scheduler.budgets.time_ms_reflection is not set (a wall-clock budget is wall-clock dependent by design)",
               "episodes carry a valid ts, except in cases whose tiers exclude exact_semantic (shape no_ts): the exact tier's recency filter "
               "falls back to the wall clock for a missing ts on the unchanged tree",
               "T1-parallel is never combined with a T1 stage cache smaller than the entries touched (known finding "
               "t1-parallel-cache-eviction-order, owned by C09)",
               "before a second session boots, the snapshot files get mtimes in the order they were written (the loader picks "
               "the newest state_*.json by mtime; real mtimes of files written milliseconds apart may tie on coarse clocks)",
               "a fresh session resumes from the snapshot written last (follows from pacing independence, see check_resume)",
               "the planner installed through the orchestrator's t3_deliberate hook is a pure function of the plan bundle"]

# drawn features (repeats = weight). "agent_scope", "snapshot_every_2", "snippet_template" of the first version are still understood by
# feature_overrides (saved cases) but are now drawn as plain config leaves (_base_cfg).
FEATURES = ["caches_off", "t1_parallel", "t1_parallel", "t2_parallel", "t2_parallel", "sched_budgets", "gel", "gel", "reflection", "hybrid", "hybrid", "hybrid", "quality", "quality",
            "perf_metrics", "kill_switch",
            # hardening wave
            "planner_deltas", "planner_deltas", "planner_deltas", "llm_dialogue", "rag_eager", "perf_caches", "small_caches", "t1_perf_caps",
            "embed_reader", "embed_reader"]

TEMPLATES = ["say {labels} | {snippets} | {intent}", "{intent}: {snippets_text}", "{style_prefix}| {labels} / {snippets} / {snippets_text}",
             "{snippets} :: {labels}"]


def _opt(d: dict, key: str, val):
    if val is not None:
        d[key] = val
    return d


def feature_overrides(feats, v):
    """Config overrides of the drawn features. `v` holds the drawn values; keys absent from `v` (older saved cases) keep the
    engine defaults / the constants the first version of this check used."""
    o = {}
    par = {}
    if "caches_off" in feats:
        o = world.deep_merge(o, {"t1": {"cache": {"enabled": False}}, "t2": {"cache": {"enabled": False}}, "t4": {"cache": {"enabled": False}}})
    if "t1_parallel" in feats:
        par.update({"enabled": True, "t1": True, "max_workers": v["workers"]})
    if "t2_parallel" in feats:
        # sharded retrieval on worker threads; without the archive tier nothing re-finds what a tier lost
        par.update({"enabled": True, "t2": True, "max_workers": v["workers"]})
        o = world.deep_merge(o, {"t2": {"tiers": ["exact_semantic", "cluster_semantic"], "exact_recent_days": 1}})
    if par:
        o = world.deep_merge(o, {"perf": {"parallel": par}})
    if "sched_budgets" in feats:
        o = world.deep_merge(o, {"scheduler": {"enabled": True, "quantum_ms": 10 ** 8, "policy": v["policy"],
                                               "budgets": dict({"wall_ms": 10 ** 9}, **v["budgets"])}})
    if "gel" in feats:
        g = v.get("gel") or {}
        o = world.deep_merge(o, {"graph": _opt(_opt({
            "enabled": True, "coactivation_threshold": g.get("thr", 0.0),
            "update": _opt({"alpha": g.get("alpha", 0.5)}, "mode", g.get("mode")),
            "decay": {"half_life_turns": g.get("half_life", 2), "floor": 0.01},
            "merge": _opt(_opt({"enabled": True, "min_size": 2, "min_avg_w": 0.1}, "cap_per_turn", g.get("merge_cap")), "max_diameter", g.get("diam")),
            "split": _opt({"enabled": True, "weak_edge_thresh": 0.05}, "cap_per_turn", g.get("split_cap")),
            "promotion": _opt(_opt(_opt({"enabled": True}, "label_mode", g.get("label_mode")), "cap_per_turn", g.get("promo_cap")),
                              "topk_label_ids", g.get("topk_label_ids"))},
            "observe_top_k", g.get("top_k")), "pair_cap_per_obs", g.get("pair_cap"))})
    if "reflection" in feats:
        r = v.get("refl") or {}
        o = world.deep_merge(o, {"t3": {"allow_reflection": True,
                                        "reflection": _opt({"summary_tokens": r.get("summary_tokens", 12), "embed": r.get("embed", True)},
                                                           "topk_snippets", r.get("topk"))},
                                 "scheduler": {"budgets": {"ops_reflection": r.get("ops", 2)}}})
    if "hybrid" in feats:
        h = v.get("hyb") or {}
        hy = {"enabled": True, "lambda_graph": h.get("lam", 1.0), "edge_threshold": 0.0, "walk_hops": v["hops"]}
        for k in ("anchor_top_m", "degree_norm", "k_max", "damping", "max_bonus"):
            _opt(hy, k, h.get(k))
        o = world.deep_merge(o, {"t2": {"hybrid": hy}})
    if "quality" in feats:
        q = v.get("qual") or {}
        o = world.deep_merge(o, {"t2": {"quality": _opt({"enabled": True,
                                                         "mmr": _opt({"enabled": q.get("mmr", True), "lambda": q.get("lam", 0.7)}, "k", q.get("k"))},
                                                        "fusion", (None if q.get("alpha") is None else {"alpha_semantic": q["alpha"]}))}})
    if "perf_metrics" in feats:
        o = world.deep_merge(o, {"perf": {"enabled": True, "metrics": {"report_memory": True},
                                          "t1": {"caps": {"frontier": v["frontier"]}, "dedupe_window": 4}}})
    if "t1_perf_caps" in feats:
        c = v.get("t1caps") or {}
        o = world.deep_merge(o, {"perf": {"enabled": True, "t1": {"caps": {"frontier": c.get("frontier", 2), "visited": c.get("visited", 2)},
                                                                  "dedupe_window": c.get("dedupe", 2)}}})
    if "perf_caches" in feats:
        c = v.get("pcache") or {}
        t1c = dict(c.get("t1") or {"max_entries": 64, "max_bytes": 10 ** 6})
        if "t1_parallel" in feats:
            t1c = {"max_entries": 64, "max_bytes": 10 ** 6}  # see ASSUMPTIONS: eviction order under the T1 fan-out is C09's known finding
        o = world.deep_merge(o, {"perf": {"enabled": True, "t1": {"cache": t1c}, "t2": {"cache": dict(c.get("t2") or {"max_entries": 64, "max_bytes": 10 ** 6})}}})
    if "small_caches" in feats:
        c = v.get("scache") or {}
        t1c = {"ttl_s": c.get("ttl", 60)}
        if "t1_parallel" not in feats:
            t1c["max_entries"] = c.get("n1", 1)
        o = world.deep_merge(o, {"t1": {"cache": t1c}, "t2": {"cache": {"max_entries": c.get("n2", 1), "ttl_s": c.get("ttl", 60)}},
                                 "t4": {"cache": {"max_entries": c.get("n4", 1), "ttl_sec": c.get("ttl", 60)}}})
    if "embed_reader" in feats:
        # retrieval straight from on-disk embedding shards (written by the harness from the case's episodes before the first turn)
        e = v.get("embed") or {}
        o = world.deep_merge(o, {"perf": {"enabled": True, "t2": {"reader": {"partitions": {"enabled": True, "layout": e.get("layout", "none")}},
                                                                  "embed_store_dtype": e.get("dtype", "fp32"), "precompute_norms": bool(e.get("norms", False))}},
                                 "t2": {"reader_batch": e.get("batch", 8192)}})
    if "agent_scope" in feats:
        o = world.deep_merge(o, {"t2": {"owner_scope": "agent"}})
    if "kill_switch" in feats:
        o = world.deep_merge(o, {"t4": {"enabled": False}})
    if "snapshot_every_2" in feats:
        o = world.deep_merge(o, {"t4": {"snapshot_every_n_turns": 2}})
    if "snippet_template" in feats:
        o = world.deep_merge(o, {"t3": {"dialogue": {"template": "say {labels} | {snippets} | {intent}", "include_top_k_snippets": 3}}})
    if "llm_dialogue" in feats:
        o = world.deep_merge(o, {"t3": {"backend": "llm"}})
    if "rag_eager" in feats:
        # thresholds above what retrieval reaches: the planner asks for a refinement although hits exist
        p = v.get("rag") or {}
        o = world.deep_merge(o, {"t3": {"policy": {"tau_high": p.get("tau_high", 1.0), "tau_low": p.get("tau_low", 1.0)},
                                        "max_rag_loops": p.get("loops", 1)}})
    return o


# ---------------------------------------------------------------- generator

G1_IDS = ["a", "b", "c", "d", "e", "ä", "A", "n:1", "f", "g", "h", "B"]
EP_IDS = ["e1", "e10", "e2", "E3", "e3", "é4", "e5", "e6", "e7", "e8", "e9", "E1", "e07", "ep-6"]
_DECAYS = [{"mode": "attn_quad", "alpha": 0.1}, {"mode": "attn_quad", "alpha": 2.0}, {"mode": "attn_quad", "alpha": 0.8},
           {"mode": "exp_floor", "rate": 0.9, "floor": 0.05}, {"mode": "exp_floor", "rate": 0.3, "floor": 0.2}]
_EDGE_MULTS = [{"supports": 1.0, "associates": 0.6, "contradicts": 0.8}, {"supports": 0.4, "associates": 1.0, "contradicts": 0.1}]
_TIERS = [["exact_semantic", "cluster_semantic", "archive"], ["cluster_semantic", "exact_semantic"], ["cluster_semantic"], ["archive"],
          ["exact_semantic", "cluster_semantic"], ["cluster_semantic", "archive"]]


def _case_variants(w: str):
    out = []
    for x in (w.lower(), w.capitalize(), w.upper(), w.lower()):
        out.append(x)
    return out


@st.composite
def _shape_world(draw, graphs, eps):
    """Post-process the drawn world so that the inputs which make iteration order / de-duplication visible exist by construction."""
    shape = []
    g1 = graphs["g1"]
    # (1) labels differing only in case inside ONE graph (and once more in another graph)
    if len(g1["nodes"]) >= 2 and draw(st.booleans()):
        w = draw(st.sampled_from(["apple", "plum", "Date", "Äpfel", "kiwi"]))
        var = _case_variants(w)
        k = draw(st.integers(2, min(3, len(g1["nodes"]))))
        idx = draw(st.permutations(list(range(len(g1["nodes"])))))[:k]
        for j, i in enumerate(idx):
            g1["nodes"][i]["label"] = var[j]
        if graphs["g2"]["nodes"] and draw(st.booleans()):
            graphs["g2"]["nodes"][0]["label"] = draw(st.sampled_from(var))
        shape.append("case_twins")
    # (2) one label on several nodes (all seeds tie)
    if len(g1["nodes"]) >= 3 and draw(st.sampled_from([False, False, True])):
        w = draw(st.sampled_from(world.VOCAB[:6]))
        for n in draw(st.permutations(g1["nodes"]))[:draw(st.integers(2, 4))]:
            n["label"] = w
        shape.append("same_label")
    # (2b) two labels that may or may not land on ONE node id: g1 carries label w on node X and on another node, g2 carries another label
    #      on its own node X (ids overlap between graphs), and one episode mentions both labels
    shared = [n for n in g1["nodes"] if any(m["id"] == n["id"] for m in graphs["g2"]["nodes"])]
    if shared and len(g1["nodes"]) >= 2 and eps and draw(st.sampled_from([False, True, True])):
        x = draw(st.sampled_from(shared))
        y = draw(st.sampled_from([n for n in g1["nodes"] if n is not x]))
        w, w2 = draw(st.permutations(["apple", "pear", "kiwi", "fig"]))[:2]
        x["label"], y["label"] = w, draw(st.sampled_from([w, w, w.upper()]))
        for m in graphs["g2"]["nodes"]:
            if m["id"] == x["id"]:
                m["label"] = w2
        e = draw(st.sampled_from(eps))
        e["text"] = draw(st.sampled_from([f"{w} {w2}", f"{w2} {w} {w}", f"{w} {w2} plum"]))
        e["vec_full"] = world.BowEncoder().vec(e["text"])
        e["owner"] = draw(st.sampled_from(["B", "world", e["owner"]]))
        shape.append("label_collision:" + w)
    # (3) a block of exact ties among the episodes: same content, and for some of them the same timestamp
    if len(eps) >= 3 and draw(st.booleans()):
        src = draw(st.sampled_from(eps))
        if src.get("vec_full") is not None:
            k = draw(st.integers(2, min(5, len(eps) - 1)))
            for e in [e for e in draw(st.permutations(eps)) if e is not src][:k]:
                e["text"], e["vec_full"] = src["text"], list(src["vec_full"])
                if draw(st.booleans()):
                    e["ts"] = src["ts"]
                if draw(st.booleans()):
                    e["owner"] = src["owner"]
                if draw(st.booleans()):
                    e["aux"] = copy.deepcopy(src.get("aux") or {})
                    if draw(st.booleans()):
                        e["aux"]["cluster_id"] = draw(st.sampled_from(["c1", "c2", "c3", "C1"]))
            shape.append("tie_block")
    return shape


@st.composite
def _base_cfg(draw):
    """Config leaves drawn independently of the features (each one on in about half of the cases)."""
    base = {}

    def maybe(path_val):
        nonlocal base
        if draw(st.booleans()):
            base = world.deep_merge(base, path_val())

    maybe(lambda: {"t2": {"k_retrieval": draw(st.sampled_from([1, 2, 3, 10]))}})
    maybe(lambda: {"t2": {"ranking": draw(st.sampled_from([{"alpha_sim": 0.5, "beta_recency": 0.4, "gamma_importance": 0.1},
                                                           {"alpha_sim": 0.0, "beta_recency": 0.0, "gamma_importance": 1.0},
                                                           {"alpha_sim": 1.0, "beta_recency": 0.0, "gamma_importance": 0.0}]))}})
    maybe(lambda: {"t1": {"queue_budget": draw(st.sampled_from([2, 4, 10000])), "radius_cap": draw(st.sampled_from([1, 2, 4]))}})
    # decay settings differ from case to case: anything the process memoises about them must be keyed completely
    maybe(lambda: {"t1": {"decay": draw(st.sampled_from(_DECAYS))}})
    maybe(lambda: {"t1": {"edge_type_mult": draw(st.sampled_from(_EDGE_MULTS))}})
    maybe(lambda: {"t1": {"iter_cap": draw(st.sampled_from([1, 2, 50])), "node_budget": draw(st.sampled_from([0.5, 1.0, 1.5]))}})
    maybe(lambda: {"t2": {"clusters_top_m": draw(st.sampled_from([1, 1, 2]))}})
    maybe(lambda: {"t2": {"sim_threshold": draw(st.sampled_from([-1.0, 0.0, 0.0, 0.6]))}})
    if draw(st.sampled_from([False, False, False, True])):  # only the COUNT of residual nudges reaches a log: a tight cap hides which nodes were chosen
        base = world.deep_merge(base, {"t2": {"residual_cap_per_turn": draw(st.sampled_from([1, 2, 3]))}})
    maybe(lambda: {"t2": {"exact_recent_days": draw(st.sampled_from([0, 1, 7, 365])), "tiers": draw(st.sampled_from(_TIERS))}})
    maybe(lambda: {"t2": {"owner_scope": draw(st.sampled_from(["world", "any", "agent"]))}})
    maybe(lambda: {"t3": {"tokens": draw(st.sampled_from([2, 4, 8, 40])), "max_ops_per_turn": draw(st.sampled_from([1, 2, 3]))}})
    maybe(lambda: {"t3": {"policy": {"tau_high": draw(st.sampled_from([0.5, 0.8, 0.95])), "tau_low": draw(st.sampled_from([0.0, 0.2, 0.4])),
                                     "epsilon_edit": draw(st.sampled_from([0.0, 0.0, 0.1]))}}})
    # retrieval ORDER must reach an output the property names: most cases list the top snippets in the utterance
    if draw(st.sampled_from([True, True, True, False])):
        base = world.deep_merge(base, {"t3": {"dialogue": {"template": draw(st.sampled_from(TEMPLATES)),
                                                           "include_top_k_snippets": draw(st.sampled_from([1, 2, 3, 5]))}}})
    maybe(lambda: {"t4": {"churn_cap_edges": draw(st.sampled_from([1, 2, 3])), "novelty_cap_per_node": draw(st.sampled_from([0.05, 0.3])),
                          "delta_norm_cap_l2": draw(st.sampled_from([0.1, 1.5])),
                          "cooldowns": draw(st.sampled_from([{}, {"EditGraph": 2}, {"Speak": 1, "EditGraph": 1}]))}})
    maybe(lambda: {"t4": {"cache_bust_mode": draw(st.sampled_from(["none", "on-apply"])), "snapshot_every_n_turns": draw(st.sampled_from([1, 2, 3]))}})
    maybe(lambda: {"t4": {"cache": {"ttl_sec": draw(st.sampled_from([1, 100, 600])), "max_entries": draw(st.sampled_from([1, 2, 512]))}}})
    return base


@st.composite
def _vals(draw):
    cache_small = st.sampled_from([{"max_entries": 1, "max_bytes": 10 ** 6}, {"max_entries": 2, "max_bytes": 10 ** 6}, {"max_entries": 64, "max_bytes": 200},
                                   {"max_entries": 64, "max_bytes": 10 ** 6}, {"max_entries": 0, "max_bytes": 120}])
    return {
        "workers": draw(st.sampled_from([2, 3, 4])), "policy": draw(st.sampled_from(["round_robin", "fair_queue"])),
        "budgets": draw(st.fixed_dictionaries({}, optional={"t1_pops": st.sampled_from([0, 1, 2, 50]), "t1_iters": st.sampled_from([0, 1, 50]),
                                                            "t2_k": st.sampled_from([0, 1, 2, 50]), "t3_ops": st.sampled_from([0, 1, 3])})),
        "hops": draw(st.sampled_from([1, 2])), "frontier": draw(st.sampled_from([1, 2, 50])),
        "gel": draw(st.fixed_dictionaries({}, optional={
            "thr": st.sampled_from([0.0, 0.3]), "alpha": st.sampled_from([0.5, 0.3, 1.0]), "mode": st.sampled_from(["additive", "proportional"]),
            "half_life": st.sampled_from([1, 2, 200]), "merge_cap": st.sampled_from([1, 1, 4]), "diam": st.sampled_from([1, 2]),
            "split_cap": st.sampled_from([1, 4]), "label_mode": st.sampled_from(["lexmin", "concat_k"]), "promo_cap": st.sampled_from([1, 2]),
            "topk_label_ids": st.sampled_from([1, 2]), "top_k": st.sampled_from([2, 3, 64]), "pair_cap": st.sampled_from([1, 2, 3, 2048])})),
        "refl": draw(st.fixed_dictionaries({}, optional={"summary_tokens": st.sampled_from([3, 12]), "embed": st.booleans(),
                                                         "topk": st.sampled_from([0, 1, 3]), "ops": st.sampled_from([1, 2])})),
        "hyb": draw(st.fixed_dictionaries({}, optional={"lam": st.sampled_from([1.0, 0.25]), "anchor_top_m": st.sampled_from([1, 2, 8]),
                                                        "degree_norm": st.sampled_from(["none", "invdeg"]), "k_max": st.sampled_from([2, 3, 128]),
                                                        "damping": st.sampled_from([0.5, 0.9]), "max_bonus": st.sampled_from([0.1, 0.5])})),
        "qual": draw(st.fixed_dictionaries({}, optional={"mmr": st.sampled_from([True, True, False]), "lam": st.sampled_from([0.3, 0.7, 1.0]),
                                                         "k": st.sampled_from([1, 2, 3]), "alpha": st.sampled_from([0.0, 0.6, 1.0])})),
        "t1caps": {"frontier": draw(st.sampled_from([1, 2, 50])), "visited": draw(st.sampled_from([1, 2, 8])), "dedupe": draw(st.sampled_from([1, 2, 8]))},
        "pcache": {"t1": draw(cache_small), "t2": draw(cache_small)},
        "scache": {"n1": draw(st.sampled_from([1, 2])), "n2": draw(st.sampled_from([1, 2])), "n4": draw(st.sampled_from([1, 2])),
                   "ttl": draw(st.sampled_from([1, 60, 300]))},
        "rag": {"tau_high": 1.0, "tau_low": draw(st.sampled_from([1.0, 0.999])), "loops": draw(st.sampled_from([1, 1, 0]))},
        "embed": {"layout": draw(st.sampled_from(["none", "none", "owner_quarter"])), "dtype": draw(st.sampled_from(["fp32", "fp16"])),
                  "norms": draw(st.booleans()), "batch": draw(st.sampled_from([1, 2, 8192])), "shards": draw(st.sampled_from([1, 2, 3]))},
        "planner": {"mags": draw(st.sampled_from([[0.2], [0.2, 0.2, 0.5], [0.05, -0.05], [1.0, -1.0, 0.25], [0.3, 0.3, 0.3, -0.3]])),
                    "max_hits": draw(st.sampled_from([0, 2, 5])), "dup": draw(st.booleans()), "op_idx": draw(st.sampled_from([None, 0, 1]))},
    }


@st.composite
def cases(draw):
    eps = draw(world.episode_lists(max_eps=draw(st.sampled_from([10, 10, 14])), owners=["A", "B", "world", "Ç"], allow_missing_ts=False, ids=EP_IDS))
    big = draw(st.sampled_from([False, False, True]))
    graphs = {"g1": draw(world.graph_specs(max_nodes=10 if big else 6, max_edges=14 if big else 8, ids=G1_IDS if big else ["a", "b", "c", "d", "e", "ä"])),
              # node ids overlap between graphs (a label map over several active graphs meets the same id twice)
              "g2": draw(world.graph_specs(max_nodes=4, max_edges=4, ids=["a", "b", "x", "y"])),
              "g3": draw(world.graph_specs(max_nodes=3, max_edges=3, ids=["a", "c", "q"]))}
    shape = draw(_shape_world(graphs, eps)) + (["big_g1"] if big else [])
    gel = draw(world.gel_graphs([e["id"] for e in eps])) if draw(st.booleans()) else None
    feats = sorted(draw(st.sets(st.sampled_from(FEATURES), max_size=6)))
    vals = draw(_vals())
    base = draw(_base_cfg())
    if "hybrid" in feats and len(eps) >= 4 and draw(st.sampled_from([True, True, True, False])):
        # graph evidence with tie structures: every other episode links to one intermediate W with the SAME |w| and alternating sign
        # (the strongest anchor->W link is a magnitude tie), W links on to a target V; several anchors also reach V directly with
        # weights whose float sum depends on the summation order
        perm = [e["id"] for e in draw(st.permutations(eps))]
        w_id, v_id, anchors = perm[0], perm[1], perm[2:]
        mag = draw(st.sampled_from([0.5, 0.9, 0.2, 1.0]))
        gel = gel or {"nodes": {i: {"id": i} for i in perm}, "edges": {}, "meta": {}}

        def _edge(a, b, wt):
            s_, d_ = (a, b) if a <= b else (b, a)
            gel["edges"][f"{s_}→{d_}"] = {"id": f"{s_}→{d_}", "src": s_, "dst": d_, "weight": wt, "rel": "coact", "attrs": {}}

        sign0 = draw(st.sampled_from([1.0, -1.0]))
        for i, a in enumerate(anchors):
            _edge(a, w_id, mag * sign0 * (1.0 if i % 2 == 0 else -1.0))
        _edge(w_id, v_id, draw(st.sampled_from([0.9, 0.5, -0.5, 1.0])))
        if draw(st.booleans()):
            for i, a in enumerate(anchors):
                _edge(a, v_id, [0.1, 0.2, 0.3, 0.7, -0.1][i % 5])
        vals["hops"] = draw(st.sampled_from([2, 2, 2, 1]))
        # the structure must reach the re-ranker: a slice wide enough for W, V and anchors of both signs, every owner / age retrievable
        vals["hyb"] = {k: v_ for k, v_ in vals["hyb"].items() if k not in ("k_max", "anchor_top_m")}
        if draw(st.booleans()):
            vals["hyb"]["anchor_top_m"] = draw(st.sampled_from([3, 4, 8]))
        base = world.deep_merge(base, {"t2": {"k_retrieval": draw(st.sampled_from([10, 64])), "sim_threshold": draw(st.sampled_from([0.0, -1.0])),
                                              "owner_scope": "any", "tiers": ["exact_semantic", "cluster_semantic", "archive"]}})
        shape.append("gel_ties")
    if "t2_parallel" not in feats and "gel_ties" not in shape and eps and draw(st.sampled_from([True, False, False])):
        # episodes WITHOUT a timestamp: sound only while no tier filters by recency (the exact tier's filter falls back to the wall clock
        # for a missing ts on the unchanged tree); the combined score must treat them as old whatever the wall clock says
        base = world.deep_merge(base, {"t2": {"tiers": draw(st.sampled_from([["cluster_semantic"], ["archive"], ["cluster_semantic", "archive"],
                                                                             ["archive", "cluster_semantic"]]))}})
        if float(((base.get("t2") or {}).get("ranking") or {}).get("beta_recency", 0.2)) <= 0.0:
            base["t2"]["ranking"] = {"alpha_sim": 0.5, "beta_recency": 0.4, "gamma_importance": 0.1}
        if draw(st.booleans()):
            base = world.deep_merge(base, {"t2": {"sim_threshold": draw(st.sampled_from([0.0, -1.0])), "owner_scope": "any"}})
        for e in draw(st.permutations([e for e in eps if e.get("vec_full") is not None] or eps))[:draw(st.integers(1, 3))]:
            e.pop("ts", None)
        shape.append("no_ts")
    agents = {"A": ["g1", "g3"], "B": ["g2", "g1"], "Ç": ["g3"]}
    if draw(st.booleans()):
        agents = {a: list(draw(st.permutations(["g1", "g2", "g3"])))[:draw(st.integers(1, 3))] for a in ("A", "B", "Ç")}
    collide = [s_.split(":", 1)[1] for s_ in shape if s_.startswith("label_collision:")]
    if collide:
        agents["B"] = list(draw(st.permutations(["g1", "g2"]))) + (["g3"] if draw(st.booleans()) else [])
    words = [w for e in eps for w in (e.get("text") or "").lower().split()] or world.VOCAB[:4]
    glabels = [n["label"] for g in graphs.values() for n in g["nodes"] if n["label"]] or world.VOCAB[:2]
    script = []
    n_turns = draw(st.integers(2, 6))
    for _ in range(n_turns):
        agent = draw(st.sampled_from(["A", "B", "B", "Ç"]))
        if draw(st.sampled_from([False, False, False, True])):
            # everything the agent's graphs can be asked about at once: more touched labels than any cap downstream
            tw = [n["label"] for gid in agents[agent] for n in graphs[gid]["nodes"] if n["label"]] or [draw(st.sampled_from(glabels))]
            tw = list(draw(st.permutations(tw)))[:12]
        else:
            tw = draw(st.lists(st.sampled_from(words + glabels + glabels), min_size=1, max_size=4))
        text = " ".join(tw)
        script.append({"agent": agent, "text": draw(st.sampled_from([text, text, text, text, text, text.upper(), text.lower(), ""])),
                       # seconds, minutes, a day, and hour steps that move the logical time of day (calendar-day / time-zone boundaries)
                       "adv_ms": draw(st.sampled_from([1000, 60000, 86400000, 5 * 3600000, 11 * 3600000, 13 * 3600000]))})
    if collide:
        script[draw(st.integers(0, len(script) - 1))] = {"agent": "B", "text": draw(st.sampled_from([collide[0], collide[0] + " " + draw(st.sampled_from(glabels))])),
                                                         "adv_ms": draw(st.sampled_from([1000, 60000]))}
    if script and draw(st.booleans()):
        script.append(dict(draw(st.sampled_from(script))))  # a verbatim repeat: cache hit candidate
    clock = draw(st.sampled_from(["normal", "normal", "normal", "zero_fixed", "zero_start", "frozen"]))
    if draw(st.sampled_from([False] * 8 + [True])):
        # the turn-level cache (keyed on version, agent, logical now, request) can only hit while the version does not move (T4 off)
        # and the logical clock stands still: repeat few (agent, text) pairs at one instant
        pairs = [dict(s_) for s_ in draw(st.permutations(script))[:2]]
        script = [dict(draw(st.sampled_from(pairs))) for _ in range(draw(st.integers(3, 5)))]
        feats = sorted(set(feats) | {"kill_switch"})
        clock = draw(st.sampled_from(["zero_fixed", "frozen"]))
        shape.append("turn_cache")
    if clock in ("zero_fixed", "frozen"):
        for s_ in script:
            s_["adv_ms"] = 0
    elif clock == "zero_start":
        script[0]["adv_ms"] = 0
        for s_ in script[1:]:
            s_["adv_ms"] = draw(st.sampled_from([1000, 200000, 400000]))
    # edits by other writers between turns: an ingested episode (index version moves), a rewired graph (etag moves)
    if draw(st.sampled_from([False, False, True])):
        pos = draw(st.integers(1, len(script)))
        if draw(st.booleans()) and eps:
            twin = draw(st.sampled_from(eps))
            ep = dict(copy.deepcopy(twin), id=draw(st.sampled_from(["new1", "E9", "e11"])), owner=draw(st.sampled_from(["A", "B", "world"])))
            script.insert(pos, {"op": "ingest", "ep": ep})
        else:
            gid = draw(st.sampled_from(["g1", "g2"]))
            nids = [n["id"] for n in graphs[gid]["nodes"]]
            if len(nids) >= 1:
                script.insert(pos, {"op": "rewire", "gid": gid, "edges": [
                    {"id": draw(st.sampled_from(["e0", "e1", "r1"])), "src": draw(st.sampled_from(nids)), "dst": draw(st.sampled_from(nids)),
                     "w": draw(st.sampled_from([1.0, 0.5, -0.5])), "rel": draw(st.sampled_from(["supports", "associates"]))}]})
    # a second session: fresh engine state over the same world, booting from the snapshot directory of the first
    resume = []
    if draw(st.sampled_from([False, False, True])):
        for _ in range(draw(st.integers(1, 2))):
            resume.append({"agent": draw(st.sampled_from(["A", "B", "Ç"])), "text": " ".join(draw(st.lists(st.sampled_from(words + glabels), min_size=1, max_size=3))),
                           "adv_ms": draw(st.sampled_from([0, 1000, 400000]))})
    turn0 = draw(st.sampled_from([1, 1, 1, 0, 8, 98]))
    return {"eps": eps, "graphs": graphs, "gel": gel, "feats": feats, "vals": vals, "base": base, "script": script, "clock": clock,
            "encoder": draw(st.sampled_from(["bow", "default"])), "agents": agents, "shape": shape, "resume": resume, "turn0": turn0,
            "tid": draw(st.sampled_from(["int", "int", "str"])),
            "style": draw(st.sampled_from([None, None, {"A": "A>", "B": "", "Ç": "ç says"}])),
            "meta": draw(st.sampled_from([None, None, {"cooldowns": {"EditGraph": 1, "Speak": 0}}, {"cooldowns": {"EditGraph": 97}}])),
            "version0": draw(st.sampled_from([None, None, "0", "9", "99", "v7"])),
            "snap_auto": draw(st.sampled_from([None, None, {"delta": True, "codec": "none"}, {"delta": False, "codec": "none"},
                                               {"delta": True, "codec": "zstd"}]))}


# ---------------------------------------------------------------- execution of one case

def _sha(b: bytes) -> str:
    return hashlib.sha1(b).hexdigest()[:16]


def _fix_floats(x):
    if isinstance(x, dict):
        if set(x) == {"__float__"}:
            return float(x["__float__"])
        return {k: _fix_floats(v) for k, v in x.items()}
    if isinstance(x, list):
        return [_fix_floats(v) for v in x]
    return x


def _engine(case, root):
    eps = case["eps"]
    enc = "bow"
    if case.get("encoder") == "default":
        # the engine's own deterministic (content-hash, word-order sensitive) adapter for queries AND episodes
        eps = _case_eps(case)
        enc = None
    eng = observe.Engine({"graphs": case["graphs"], "eps": eps, "gel": case["gel"], "version": case.get("version0"),
                          "agents": case.get("agents") or {"A": ["g1", "g3"], "B": ["g2", "g1"], "Ç": ["g3"]}}, root, encoder=enc)
    if "reflection" in case["feats"]:
        eng.state["_planner_reflection_flag"] = True
    if "llm_dialogue" in case["feats"]:
        from clematis.adapters.llm import DeterministicLLMAdapter
        eng.state["llm_adapter"] = DeterministicLLMAdapter()  # the orchestrator's documented adapter slot; echoes the prompt
    if case.get("meta") is not None:
        eng.state["meta"] = copy.deepcopy(case["meta"])
    return eng


def _default_vec(e):
    from clematis.adapters.embeddings import DeterministicEmbeddingAdapter
    ad = DeterministicEmbeddingAdapter(dim=32)
    return dict(e, vec_full=(None if e.get("vec_full") is None else [float(x) for x in ad.encode([e.get("text") or ""])[0]]))


@contextlib.contextmanager
def _planner(case):
    """feature planner_deltas: the rule-based plan plus deltas derived from the bundle (touched nodes, retrieved episodes), installed
    through the orchestrator's t3_deliberate hook. Pure function of (bundle, drawn parameters)."""
    if "planner_deltas" not in case["feats"]:
        yield
        return
    import clematis.engine.orchestrator as orch
    import clematis.engine.orchestrator.core as core
    from clematis.engine.types import ProposedDelta
    p = (case.get("vals") or {}).get("planner") or {"mags": [0.2], "max_hits": 2, "dup": False, "op_idx": None}
    mags = p["mags"]

    def delib(ctx, state, bundle):
        plan = core.deliberate(bundle)
        nodes = list(bundle.get("t1", {}).get("touched_nodes", []) or [])
        hits = list(bundle.get("t2", {}).get("retrieved", []) or [])[: p["max_hits"]]
        ds = []
        for i, n in enumerate(nodes):
            ds.append(ProposedDelta("node", "n:" + str(n["id"]), "weight", float(mags[i % len(mags)]), op_idx=(p["op_idx"] if i % 2 == 0 else None), idx=i))
        anchor = str(nodes[0]["id"]) if nodes else "x"
        for j, h in enumerate(hits):
            ds.append(ProposedDelta("edge", f"e:{h['id']}|coact|{anchor}", "weight", float(mags[(j + 1) % len(mags)]) * (-1.0 if j % 2 else 1.0),
                                    op_idx=None, idx=len(nodes) + j))
        if p["dup"] and ds:
            ds.append(ProposedDelta(ds[0].target_kind, ds[0].target_id, ds[0].attr, 0.125, op_idx=1, idx=len(ds)))
        plan.deltas = ds
        return plan

    had = "t3_deliberate" in vars(orch)
    old = vars(orch).get("t3_deliberate")
    had_core = "t3_deliberate" in vars(core)
    old_core = vars(core).get("t3_deliberate")
    orch.t3_deliberate = delib
    try:
        yield
    finally:
        if had:
            orch.t3_deliberate = old
        else:
            vars(orch).pop("t3_deliberate", None)
        if had_core:
            core.t3_deliberate = old_core
        elif "t3_deliberate" in vars(core):
            delattr(core, "t3_deliberate")


def _case_eps(case):
    return [_default_vec(e) for e in case["eps"]] if case.get("encoder") == "default" else case["eps"]


def _write_embed_store(case, root):
    """feature embed_reader: the case's episodes as on-disk embedding shards under <root>/embed (layout none: s0..sN round-robin;
    owner_quarter: <owner>/<year>Q<q>/s0)."""
    import numpy as np
    from clematis.engine.util.embed_store import write_shard
    e = (case.get("vals") or {}).get("embed") or {}
    rows = [(str(ep["id"]), ep["vec_full"], ep) for ep in _case_eps(case) if ep.get("vec_full") is not None]
    base = os.path.join(root, "embed")
    os.makedirs(base, exist_ok=True)
    groups = {}
    for i, (eid, vec, ep) in enumerate(rows):
        if e.get("layout") == "owner_quarter":
            ts = str(ep.get("ts") or "1970-01")
            key = os.path.join(str(ep.get("owner") or "none"), f"{ts[:4]}Q{(int(ts[5:7]) - 1) // 3 + 1}", "s0")
        else:
            key = f"s{i % int(e.get('shards', 2))}"
        groups.setdefault(key, []).append((eid, vec))
    for key, items in groups.items():
        write_shard(os.path.join(base, key), [eid for eid, _ in items], np.asarray([v for _, v in items], dtype=np.float32),
                    dtype=e.get("dtype", "fp32"), precompute_norms=bool(e.get("norms", False)))
    return base


def _tid(case, k: int):
    t = int(case.get("turn0", 1)) + k
    return str(t) if case.get("tid") == "str" else t


def _do_step(case, eng, st_):
    op = st_.get("op")
    if op == "ingest":
        import numpy as np
        ep = copy.deepcopy(st_["ep"])
        if case.get("encoder") == "default":
            ep = _default_vec(ep)
        if ep.get("vec_full") is not None:
            ep["vec_full"] = np.asarray(ep["vec_full"], dtype=np.float32)
        eng.state["mem_index"].add(ep)
    elif op == "rewire":
        from clematis.engine.types import Edge
        eng.state["store"].upsert_edges(st_["gid"], [Edge(id=e["id"], src=e["src"], dst=e["dst"], weight=e["w"], rel=e["rel"]) for e in st_["edges"]])
    else:
        raise RuntimeError(f"harness: unknown script step {op!r}")


def _execute(case, root):
    """Run the script (and the optional second session) in sandbox `root`. Returns (engines, lines, work, snapshot chain, bodies)."""
    overrides = world.deep_merge(case["base"], feature_overrides(case["feats"], case["vals"]))
    if "embed_reader" in case["feats"]:
        overrides = world.deep_merge(overrides, {"t2": {"embed_root": _write_embed_store(case, root)}})
    eng = _engine(case, root)
    cfg = eng.cfg(overrides)
    lines, work_t1, work_t2 = [], False, False
    now = world.NOW_MS if case.get("clock", "normal") in ("normal", "frozen") else 0
    chain = hashlib.sha1()
    last_sha, written_at, bodies = {}, {}, []
    snap_dir = os.path.join(root, "snap")

    def after_turn(k):
        for name, data in sorted(eng.snaps().items()):
            if name.endswith(".meta"):
                continue
            h = _sha(data)
            if last_sha.get(name) != h:
                last_sha[name] = h
                written_at[name] = k
                chain.update(f"{k}:{name}:{h};".encode())
                if case.get("snap_auto") and len(bodies) < 4:
                    bodies.append(data)

    def turn(e, st_, k):
        nonlocal now, work_t1, work_t2
        now += st_["adv_ms"]
        extra = {}
        if case.get("style") and case["style"].get(st_["agent"]):
            extra["style_prefix"] = case["style"][st_["agent"]]
        r = e.turn(st_["agent"], st_["text"], cfg, _tid(case, k), now, ctx_extra=extra or None)
        lines.append(r["line"] if r["exc"] is None else "EXC:" + str(r["exc"]))
        if r.get("t1") and (r["t1"]["counters"].get("pops") or 0) > 0:
            work_t1 = True
        if r.get("t2") and r["t2"]["retrieved"]:
            work_t2 = True
        after_turn(k)

    k = 0
    with _planner(case):
        for st_ in case["script"]:
            if st_.get("op"):
                _do_step(case, eng, st_)
                continue
            turn(eng, st_, k)
            k += 1
        eng2 = None
        resume_pick = None
        if case.get("resume"):
            # the loader picks the newest state_*.json by mtime: give the files the order in which they were written
            for name, kk in written_at.items():
                p = os.path.join(snap_dir, name)
                if os.path.exists(p):
                    os.utime(p, (1_000_000_000 + kk, 1_000_000_000 + kk))
            if written_at:
                # what a boot would resume from now vs. the snapshot the script wrote LAST (public probe, same picker as the boot hook)
                from clematis.engine.snapshot import get_latest_snapshot_info
                info = get_latest_snapshot_info(snap_dir)
                resume_pick = [os.path.basename(info["path"]) if info else None, max(written_at, key=lambda n: written_at[n])]
            eng2 = _engine(case, root)
            eng2.state["_boot_loaded"] = False
            for st_ in case["resume"]:
                turn(eng2, st_, k)
                k += 1
    return eng, eng2, lines, bool(work_t1 and work_t2), chain.hexdigest()[:16], bodies, resume_pick


def _snap_auto(case, root, bodies):
    """Re-encode the recorded snapshot bodies through the header+payload writer (full, then deltas against the first full)."""
    from clematis.engine.snapshot import write_snapshot_auto, read_snapshot
    sa = case["snap_auto"]
    d = os.path.join(root, "auto")
    out = {}
    with open(os.devnull, "w") as devnull, contextlib.redirect_stderr(devnull):
        for i, raw in enumerate(bodies):
            payload = json.loads(raw.decode("utf-8"))
            path, was_delta = write_snapshot_auto(d, etag_from=("b0" if i else None), etag_to=f"b{i}", payload=payload,
                                                  compression=sa["codec"], level=3, delta_mode=bool(sa["delta"] and i))
            with open(path, "rb") as f:
                out[os.path.basename(path)] = _sha(f.read().replace(root.encode(), b"<ROOT>"))
            if sa["codec"] == "none":  # without the zstandard module the writer's fallback keeps the .zst name (C06's finding): no read-back
                back = read_snapshot(path=path)
                out["read:" + os.path.basename(path)] = digest(json.dumps(back, sort_keys=True))
    return out


def run_case(case) -> dict:
    """Execute one case in the current process/environment; returns the comparable observation (hashes + lines)."""
    with world.sandbox() as root:
        eng, eng2, lines, work, chain, bodies, resume_pick = _execute(case, root)
        logs = eng.logs()
        obs = {"lines": lines}
        for name in observe.CANONICAL:
            obs["log:" + name] = _sha(logs.get(name, b""))
        if "scheduler.jsonl" in logs:
            obs["log:scheduler.jsonl(masked)"] = _sha(observe.mask_scheduler(logs["scheduler.jsonl"]))
        obs["counts"] = {k: v for k, v in sorted(observe.line_counts(logs).items())}
        for k, v in sorted(eng.snaps().items()):
            if not k.endswith(".meta"):
                obs["snap:" + k] = _sha(v)
        obs["snapchain"] = chain
        obs["state"] = digest(observe.state_digest(eng.state))
        if eng2 is not None:
            obs["state2"] = digest(observe.state_digest(eng2.state))
        if resume_pick is not None:
            obs["resume_pick"] = resume_pick
        if case.get("snap_auto") and bodies:
            obs["auto"] = _snap_auto(case, root, bodies)
        obs["files"] = eng.listing()
        obs["_work"] = work
        obs["_raw"] = None
        return obs


def check_resume(o: dict, case):
    """The second session must resume from the snapshot the script wrote last. Follows from pacing independence: when the writes are
    paced further apart than any clock tick, every time-based notion of 'latest' designates the last-written file, and the outcome may
    not depend on the pacing (nor on SOURCE_DATE_EPOCH, which only replaces the wall clock in the sidecars)."""
    rp = o.get("resume_pick")
    if rp and rp[0] != rp[1]:
        raise Violation(f"a fresh session would resume from {rp[0]!r} although {rp[1]!r} is the snapshot written last "
                        f"(file mtimes follow the write order)", case, "resume-not-latest")


def diff_obs(a: dict, b: dict):
    keys = sorted((set(a) | set(b)) - {"_work", "_raw"})
    return [k for k in keys if a.get(k) != b.get(k)]


def full_logs(case) -> dict:
    """Re-run and return the canonical log texts (for violation messages / debugging)."""
    with world.sandbox() as root:
        eng = _execute(case, root)[0]
        return {k: v.decode("utf-8", "replace") for k, v in eng.logs().items()}


# ---------------------------------------------------------------- environments (worker side)

def install_clock_perturbation(seed: int):
    import random
    import time
    import datetime as _dtmod
    import types

    rng = random.Random(seed)
    st_ = {"t": 1000.0, "w": rng.choice([1.7e9, 0.0, 5.0e9]), "m": rng.choice([5.0, 86400.0 * 40]), "c": 0.0}

    def fake_pc():
        r = rng.random()
        if r >= 0.2:  # 20 %: stall
            st_["t"] += rng.choice([1e-7, 1e-4, 3e-3, 0.05, 2.0])
        return st_["t"]

    def fake_time():
        st_["w"] += rng.choice([0.0, 1e-3, 1.0, 3600.0])
        return st_["w"]

    def fake_mono():
        st_["m"] += rng.choice([0.0, 1e-6, 1e-3, 0.3, 700.0])
        return st_["m"]

    def fake_cpu():
        st_["c"] += rng.choice([0.0, 1e-4, 0.5])
        return st_["c"]

    time.perf_counter = fake_pc
    time.time = fake_time
    time.monotonic = fake_mono
    time.perf_counter_ns = lambda: int(fake_pc() * 1e9)
    time.time_ns = lambda: int(fake_time() * 1e9)
    time.monotonic_ns = lambda: int(fake_mono() * 1e9)
    time.process_time = fake_cpu
    time.thread_time = fake_cpu
    # hours (crossing a date line) or years: back to the logical timeline of the cases (mid 2025), far ahead, before the epoch (earlier than every logical clock of the cases)
    off = _dtmod.timedelta(hours=rng.choice([-11, 23, -24 * 471 + 7, -24 * 571, -24 * 700, 24 * 3650, -24 * 365 * 60, -24 * 365 * 60]))
    real = _dtmod.datetime

    class ShiftedDT(real):
        @classmethod
        def now(cls, tz=None):
            return real.now(tz) + off

        @classmethod
        def utcnow(cls):
            return real.utcnow() + off

    shim = types.SimpleNamespace(datetime=ShiftedDT, timedelta=_dtmod.timedelta, timezone=_dtmod.timezone, date=_dtmod.date,
                                 time=_dtmod.time)
    import clematis.engine.orchestrator  # noqa: F401  (make sure engine modules are imported before shadowing)
    n = 0
    for name, mod in list(sys.modules.items()):
        if not name.startswith("clematis") or mod is None:
            continue
        if getattr(mod, "dt", None) is _dtmod:
            mod.dt = shim
            n += 1
        if getattr(mod, "datetime", None) is real:
            mod.datetime = ShiftedDT
            n += 1
        if getattr(mod, "_dt", None) is _dtmod:
            mod._dt = shim
            n += 1
    # directory listing order is unspecified: hand it out shuffled
    real_listdir = os.listdir

    def listdir(*a, **kw):
        out = real_listdir(*a, **kw)
        rng.shuffle(out)
        return out

    os.listdir = listdir
    return n


def worker(argv):
    inp, outp, mode = argv[0], argv[1], argv[2]
    with open(inp, encoding="utf-8") as f:
        cases_ = json.load(f)
    cases_ = _fix_floats(cases_)
    flags = set(mode.split("+"))
    if "clocks" in flags:
        install_clock_perturbation(int(os.environ.get("VERIF_ENV_SEED", "1")))
    if "threads" in flags:
        sys.setswitchinterval(1e-6)
    order = list(range(len(cases_)))
    if "reverse" in flags:
        order.reverse()
    world.reset_engine_globals()
    out = {}
    for i in order:
        o = run_case(cases_[i])
        out[str(i)] = {k: v for k, v in o.items() if k not in ("_raw",)}
    with open(outp, "w", encoding="utf-8") as f:
        json.dump(out, f)
    return 0


def run_env(case_list, mode: str, hashseed: str, env_seed: int) -> dict:
    d = tempfile.mkdtemp(prefix="vx_c01_")
    try:
        inp, outp = os.path.join(d, "in.json"), os.path.join(d, "out.json")
        with open(inp, "w", encoding="utf-8") as f:
            json.dump(jsonable(case_list), f)
        env = dict(os.environ)
        env["PYTHONHASHSEED"] = hashseed
        env["VERIF_ENV_SEED"] = str(env_seed)
        if "clocks" in mode.split("+"):
            # the process time zone is part of "the process" (POSIX TZ strings: no tzdata needed)
            env["TZ"] = ["UTC0", "JST-9", "PST8PDT", "LINT-14", "XXX12", "IST-5:30"][env_seed % 6]
            # SOURCE_DATE_EPOCH only replaces the wall clock in the snapshot sidecars (not compared): without it the sidecars carry the
            # perturbed wall clock, and nothing the property names may follow them
            env.pop("SOURCE_DATE_EPOCH", None)
        p = subprocess.run([sys.executable, "-m", "checks.c01", "worker", inp, outp, mode], env=env, stdout=subprocess.PIPE,
                           stderr=subprocess.STDOUT, cwd=os.path.dirname(os.path.dirname(os.path.abspath(__file__))))
        if not os.path.exists(outp):
            raise RuntimeError(f"harness: C01 worker ({mode}, hashseed {hashseed}) died rc={p.returncode}: {p.stdout.decode(errors='replace')[-2000:]}")
        with open(outp, encoding="utf-8") as f:
            return json.load(f)
    finally:
        import shutil
        shutil.rmtree(d, ignore_errors=True)


# ---------------------------------------------------------------- the sub-check

def _labels(case, o0):
    base = case.get("base") or {}
    lb = [f"feat={f}" for f in case["feats"]] + [f"encoder={case.get('encoder')}", f"clock={case.get('clock')}"]
    lb += [f"shape={s.split(':')[0]}" for s in case.get("shape") or []]
    for sec, leaves in sorted(base.items()):
        for leaf in sorted(leaves):
            lb.append(f"base={sec}.{leaf}")
    if case.get("resume"):
        lb.append("resume")
    if case.get("snap_auto"):
        lb.append(f"snap_auto={'delta' if case['snap_auto']['delta'] else 'full'}/{case['snap_auto']['codec']}")
    if case.get("tid") == "str":
        lb.append("tid=str")
    lb.append(f"turn0={case.get('turn0', 1)}")
    if case.get("version0") is not None:
        lb.append(f"version0={case['version0']}")
    if case.get("style"):
        lb.append("style_prefix")
    if case.get("meta"):
        lb.append("state_meta_cooldowns")
    for s_ in case["script"]:
        if s_.get("op"):
            lb.append("step=" + s_["op"])
    if o0["_work"]:
        lb.append("work")
    if any(str(x).startswith("EXC:") for x in o0["lines"]):
        lb.append("exc")
    if "log:scheduler.jsonl(masked)" in o0:
        lb.append("yielded")
    if o0["counts"].get("apply.jsonl"):
        lb.append("applied")
    return lb


def sub_repro(rec, seed, shard, nshards, n=40, envs=2, shrink=True):
    world.reset_engine_globals()
    collected = []

    def body(case):
        o0 = run_case(case)
        check_resume(o0, case)
        o1 = run_case(case)  # warm re-run in the same process (no reset in between)
        d = diff_obs(o0, o1)
        if d:
            raise Violation(f"re-run in the same warm process differs in {d}", case, "warm:" + d[0].split(":")[0])
        collected.append((case, o0))
        agents = {s["agent"] for s in case["script"] if not s.get("op")}
        nt = o0["_work"] and len(agents) >= 2
        rec.case(nontrivial=nt, dig=digest(case) if nt else None, labels=_labels(case, o0),
                 sample={"feats": case["feats"], "script": case["script"], "lines": o0["lines"],
                         "episodes": [(e["id"], e["owner"], e["text"]) for e in case["eps"]][:6]} if nt else None)

    run_hypothesis(rec, seed, cases(), body, max_examples=n, shrink=shrink, name="warm")
    if not collected:
        return
    case_list = [c for c, _ in collected]
    env_specs = [("reverse", "1", 11), ("clocks+threads", str(100 + seed % 4000), 22),
                 ("clocks+reverse", "2", 33), ("threads", "random", 44)][:envs]
    for mode, hs, es in env_specs:
        res = run_env(case_list, mode, hs, es + seed)
        rec.label(f"env[{mode}|hashseed={hs}]", len(case_list))
        rec.evaluations += len(case_list)
        for i, (case, o0) in enumerate(collected):
            o = res.get(str(i))
            if o is None:
                raise RuntimeError("harness: worker returned no observation for a case")
            d = diff_obs(o0, o)
            if d:
                rec.violation(f"fresh process [{mode}, PYTHONHASHSEED={hs}] differs from the reference run in {d}: "
                              f"{ {k: (o0.get(k), o.get(k)) for k in d[:3]} }",
                              {"case": case, "mode": mode, "hashseed": hs, "env_seed": es + seed}, f"env:{mode}:{d[0].split(':')[0]}")
                break


def replay_case(c):
    c = _fix_floats(c)
    case = c.get("case", c)
    world.reset_engine_globals()
    o0 = run_case(case)
    check_resume(o0, case)
    o1 = run_case(case)
    d = diff_obs(o0, o1)
    if d:
        raise Violation(f"re-run in the same warm process differs in {d}", case, "warm")
    if "mode" in c:
        res = run_env([case], c["mode"], str(c["hashseed"]), int(c["env_seed"]))
        d = diff_obs(o0, res["0"])
        if d:
            raise Violation(f"fresh process [{c['mode']}] differs in {d}", c, "env")


SUBCHECKS = [
    Sub("repro", sub_repro, quick={"n": 40, "envs": 2}, thorough={"n": 400, "envs": 4}, shards_quick=8, shards_thorough=16,
        replay=replay_case),
]

if __name__ == "__main__":
    if len(sys.argv) > 1 and sys.argv[1] == "worker":
        sys.exit(worker(sys.argv[2:]))
