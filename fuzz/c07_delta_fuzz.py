"""atheris / libFuzzer byte target for C07 (delta codec round-trip law).

Run by checks/c07.py:sub_codec_atheris in a child process (atheris.Fuzz() never returns, libFuzzer calls exit()):
    python fuzz/c07_delta_fuzz.py -runs=N -seed=S <writable corpus dir> [/verif/corpus/C07]
Env: C07_FUZZ_OUT   directory receiving stats.json (coverage of the generator) and failure.json (first violation)
     C07_FUZZ_KNOWN comma list of finding ids that are listed as known (their failures are counted, not reported)
The oracle is checks.c07.check_pair — exactly the one the Hypothesis and exhaustive sub-checks use.
Exit code 77 = violation found (failure.json written).
"""
import json
import os
import sys

import atheris

with atheris.instrument_imports(include=["clematis.engine.util.snapshot_delta"]):
    import clematis.engine.util.snapshot_delta  # noqa: F401

from checks.c07 import decode_pair, check_pair, pair_labels  # noqa: E402
from harness.runner import Violation, digest  # noqa: E402

OUT = os.environ.get("C07_FUZZ_OUT") or "."
KNOWN = set(filter(None, (os.environ.get("C07_FUZZ_KNOWN") or "").split(",")))
STATS = {"execs": 0, "decoded": 0, "labels": {}, "excluded": {}, "nontrivial": []}
_NT = set()
NT_CAP = 20000


class _Rec:
    known = KNOWN

    def is_known(self, fid):
        if fid in KNOWN:
            STATS["excluded"][fid] = STATS["excluded"].get(fid, 0) + 1
            return True
        return False


REC = _Rec()


def _flush():
    STATS["nontrivial"] = sorted(_NT)
    tmp = os.path.join(OUT, "stats.json.tmp")
    with open(tmp, "w", encoding="utf-8") as f:
        json.dump(STATS, f)
    os.replace(tmp, os.path.join(OUT, "stats.json"))


def TestOneInput(data: bytes):
    STATS["execs"] += 1
    pair = decode_pair(data)
    if pair is not None:
        base, cur = pair
        STATS["decoded"] += 1
        try:
            check_pair(base, cur, REC)
        except Violation as v:
            with open(os.path.join(OUT, "failure.json"), "w", encoding="utf-8") as f:
                json.dump({"base": v.case["base"], "cur": v.case["cur"], "sig": v.sig, "message": v.message,
                           "input_hex": data.hex()}, f)
            _flush()
            sys.stdout.flush()
            os._exit(77)
        labels, nt = pair_labels(base, cur)
        lab = STATS["labels"]
        for lb in labels:
            lab[lb] = lab.get(lb, 0) + 1
        if nt:
            lab["nontrivial_execs"] = lab.get("nontrivial_execs", 0) + 1
            if len(_NT) < NT_CAP:
                _NT.add(digest([base, cur]))
    if STATS["execs"] % 1000 == 0 or STATS["execs"] >= RUNS:
        _flush()


def _runs(argv):
    for a in argv:
        if a.startswith("-runs="):
            return int(a.split("=", 1)[1])
    return 1 << 62


RUNS = _runs(sys.argv)

if __name__ == "__main__":
    atheris.Setup(sys.argv, TestOneInput)
    atheris.Fuzz()
