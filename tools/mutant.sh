#!/bin/sh
# tools/mutant.sh <patch.diff> <PID> [subchecks]  — sensitivity test: copy /repo's working tree to a scratch dir,
# apply the patch, run the quick check against it (VERIF_REPO), expect exit 1.  Evidence/replays of this run are
# throw-away (written under a private VERIF_OUT).  The scratch copy is removed afterwards.
P="$(readlink -f "$1")"; PID="$2"; ONLY="$3"
HERE="$(cd "$(dirname "$0")/.." && pwd)"
S=$(mktemp -d /tmp/mut_XXXXXX)
(cd /repo && git ls-files -z | xargs -0 cp --parents -t "$S" 2>/dev/null)
if ! (cd "$S" && patch -p1 -s < "$P"); then echo "MUTANT $P: patch does not apply"; rm -rf "$S"; exit 3; fi
VERIF_REPO="$S" VERIF_EVIDENCE_DIR="$S/.evidence" VERIF_ONLY="$ONLY" VERIF_JOBS="${VERIF_JOBS:-8}" "$HERE/vcheck" run "$PID" --tier quick > "$S/.out" 2>&1
rc=$?
grep -m3 -A1 "VIOLATION\|HARNESS" "$S/.out" | cut -c1-300
tail -1 "$S/.out" | cut -c1-200
rm -rf "$S"
if [ $rc -eq 1 ]; then echo "MUTANT $(basename $P) on $PID: CAUGHT"; else echo "MUTANT $(basename $P) on $PID: MISSED (rc=$rc)"; fi
exit $rc
