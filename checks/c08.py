"""C08 — durable files are replaced all-or-nothing (fault enumeration).

Sub-checks
  faults   fixed matrix (target x old/new size class x permission bits); for every recorded I/O step of the write and
           every fault kind one forked re-execution with that fault injected; exhaustive over (step x fault) per case.
  gen      the same enumeration on Hypothesis-generated contents / old states (few cases, each fully enumerated).
  rlimit   real kernel faults, no proxy: the write runs under RLIMIT_FSIZE (short write / EFBIG from write(2)).
  anywhere the same enumeration with PROCESS-WIDE proxies (os.*, builtins/io.open, tempfile, time.sleep patched in the
           forked child, restricted to the sandbox): every write-side I/O call of the write is a step whichever module
           issues it (a writer that bypasses clematis.io.atomic is seen); buffered files lose their unflushed tail when
           flush()/close() fails; all targets (thorough also compression="zstd"), payload sizes at 4K/8K/64K/1M boundaries,
           relative destinations, writer umask 077.
  writers  two writers to one destination, interleaved deterministically: writer A is stopped before each of its I/O
           steps, writer B performs a complete write, A goes on (no fault).
  kernel   destination path is a directory / a symlink / a dangling symlink: real kernel answers, RLIMIT_FSIZE, kills.
  rlimit   real kernel faults, no proxy: the write runs under RLIMIT_FSIZE (short write / EFBIG from write(2)); limits
           in the middle, in the last buffer-full and in the last byte of payloads of 0.7K..1M; empty payload.
  readers  a reader thread + a reader process loop open().read() on the destination AND its sidecar while the writer
           alternates two contents of different length; every read must be exactly one of the two.

Oracle (per injection; `old` = complete previous content or absent, `new` = complete new content):
  always            every destination (body, sidecar) is byte-for-byte old or new; no other file of the directory changes
  call returned     every destination == new; no other new file in the directory
  call raised       no new file besides the destinations (temp cleaned); for snapshot writers body must not be new
                    (a sidecar failure never fails the snapshot write)
  killed            temp files may remain but `_pick_latest_snapshot_path`, the `*.jsonl` rotation glob and the name
                    patterns of snapshot/log discovery never select one; differentially: every directory-scanning
                    reader of the repo (pick/info/load latest, _find_snapshot_file, read_snapshot, console latest,
                    mem_inspect / mem_compact globs, rotation glob, frontend export) answers the same with the
                    leftovers present as with them hidden
  two writers       B returned => every destination == B's content; at the end every destination is completely A's,
                    B's or the old content; no temp file left
  transient on replace (K in {1,3} << retries=80, errno EACCES/EPERM/EBUSY)  => the call succeeds (documented retry)
  permissions       a successful write keeps the old mode (0o644 when new); a failed write leaves the old file's mode
"""
from __future__ import annotations

import glob
import json
import os
import pathlib
import random
import select
import shutil
import stat as _stat
import tempfile
import threading
from types import SimpleNamespace
from typing import Any, Callable, Dict, List, Optional, Tuple

from harness.runner import Sub, Violation, run_hypothesis, digest
from harness import faults as F

LEVEL = "fault_enumeration"
RULE = ("Per case (target in atomic_write_bytes/text/json, write_snapshot body+sidecar, write_snapshot_auto delta/full "
        "(_write_lines), rewrite_jsonl; old content absent/small/200KB; new small/200KB/CRLF; permission bits) a "
        "fault-free forked run records the S ordered I/O steps seen by clematis.io.atomic (mkdir, mktemp, temp close, "
        "open, write, flush, fsync, close, stat, chmod, replace, reopen+fsync, dir open/fsync/close). Then EVERY step "
        "i<S x EVERY fault kind {kill before, kill after, kill mid-write, short write, persistent OSError "
        "EIO/ENOSPC/EACCES/EBUSY/EPERM, transient x1/x3 of EACCES/EPERM/EBUSY} is re-executed in a forked child "
        "(kill = os._exit(137)). Non-trivial = fault injected at a step after temp creation. Distinct = (target, step "
        "kind, step index, fault kind, old present?, size class). Contents of `gen` come from Hypothesis; readers: "
        "OS schedules sampled, oracle exact. `anywhere` repeats the enumeration with process-wide proxies in the forked "
        "child (steps of any module; reduced fault list per operation kind); `writers` enumerates the interleavings "
        "'A stopped before step i, B writes completely, A resumes' for every i; `kernel`/`rlimit` use real kernel "
        "faults (EISDIR, symlinks, RLIMIT_FSIZE cutting the payload in its middle / last buffer / last byte).")
ASSUMPTIONS = [
    "crash model: the process dies between two Python-visible I/O calls (or in the middle of one write); reordering "
    "below the file-system API (power loss) is out of scope",
    "single-fault model: one fault (persistent for that operation, or transient K times) per write; cleanup calls "
    "themselves succeed",
    "a kill (unlike a propagated exception) may legitimately leave a temp file; it only must not look like real data",
    "reference `new` bytes of snapshot/delta/jsonl targets come from a fault-free run of the same writer (content "
    "correctness is C06/C07/C16's business); bytes/text/json targets use an independent expected encoding",
    "POSIX rename semantics: a concurrent reader must never see the destination absent once it existed",
]

BIG = 200_000
# fault enumeration sandboxes live on tmpfs when there is one (fsync latency of a real disk only slows the ~6000 forked
# writes down; the crash model is process death, which the page cache survives); readers use the default temp dir
FAST_TMP = "/dev/shm" if os.path.isdir("/dev/shm") and os.access("/dev/shm", os.W_OK) else None
A_MOD = "clematis.io.atomic"
KNOWN_SHORT = "atomic-short-write"
KNOWN_TMPCLOSE = "atomic-tmp-close-leak"
TARGETS = ["bytes", "text", "json", "snapshot", "delta", "jsonl", "full"]
ALL_TARGETS = TARGETS + ["fullz"]  # fullz: write_snapshot_auto(compression="zstd") (name chosen by the writer)


# ------------------------------------------------------------------------------------------------ process-wide proxies
#
# harness.faults shadows the I/O names of ONE module (clematis.io.atomic).  A writer that lives anywhere else (a
# "fast path" in snapshot.py, an own temp+rename in log.py, a new helper module) is invisible to it.  The layer below
# patches the PROCESS (os.*, builtins.open/io.open, tempfile, time.sleep) inside the forked child only, restricted to
# paths/descriptors under the case's sandbox, so every Python-visible write-side I/O call of the write is a step,
# whoever issues it.  Read-only opens pass through unrecorded (they are not part of the write).

import builtins as _builtins
import io as _io
import tempfile as _tempfile_mod
import time as _time_mod

_R_WRITE, _R_READ, _R_FTRUNCATE, _R_FSTAT = os.write, os.read, os.ftruncate, os.fstat


class GInjector(F.Injector):
    """Injector for process-wide proxies: re-entrancy guard (a proxied call that is implemented on top of other
    proxied calls, e.g. tempfile -> os.open, os.makedirs -> os.mkdir, is ONE step) and an optional pause point
    (before step `pause[0]` the child tells the parent and blocks until told to go on)."""

    def __init__(self, at=-1, fault=None, trace_fd=None, root="/nonexistent/", pause=None, kill2=None):
        super().__init__(at, fault, trace_fd)
        self.root = root
        self.busy = False
        self.pause = pause  # (step index, notify fd, resume fd)
        self.kill2 = kill2  # second fault of a sequence: die before step `kill2` (a step of the path taken after `fault`)

    def _trace(self, op, detail, partial):
        if self.trace_fd is not None:
            _R_WRITE(self.trace_fd, b"S" + json.dumps([op, detail, partial]).encode() + b"\n")

    def inside(self, p) -> bool:
        try:
            if isinstance(p, int):
                s = os.readlink(f"/proc/self/fd/{p}")
            else:
                s = os.fspath(p)
                if isinstance(s, bytes):
                    s = os.fsdecode(s)
                s = os.path.abspath(s)
        except (TypeError, OSError, ValueError):
            return False
        return (s + "/").startswith(self.root)

    def step(self, op, detail, perform, partial=None, on_fail=None):
        if self.busy:
            return perform()
        if self.pause is not None and self.n == self.pause[0]:
            _R_WRITE(self.pause[1], b"P")
            _R_READ(self.pause[2], 1)
        if self.kill2 is not None and self.n == self.kill2:
            self.steps.append((op, detail, partial is not None))
            self._trace(op, detail, partial is not None)
            os._exit(F.KILL_CODE)
        self.busy = True
        try:
            return super().step(op, detail, perform, partial, on_fail)
        finally:
            self.busy = False


class GFile(F.FileProxy):
    """File proxy that knows raw from buffered files.
    raw (buffering=0): a write may be short -> kill_mid / short faults apply (as in harness.faults).
    buffered/text: write() never returns a short count (op name 'bwrite', no `short` fault); an error reported by
    flush()/close() means the tail still sitting in the userspace buffer did NOT reach the file (what ENOSPC/EIO/EFBIG
    at flush time does) — the proxy drops exactly that tail."""

    def __init__(self, inj, real, tag=""):
        super().__init__(inj, real, tag)
        object.__setattr__(self, "_raw", isinstance(real, _io.RawIOBase))

    def _lose_pending(self):
        real = self._real
        try:
            fd = real.fileno()
            before = _R_FSTAT(fd).st_size
        except Exception:
            fd, before = None, None
        try:
            real.flush()
        except Exception:
            pass
        if fd is not None and not self._raw:
            try:
                if _R_FSTAT(fd).st_size > before:
                    _R_FTRUNCATE(fd, before)
            except Exception:
                pass

    def write(self, data):
        real = self._real
        half = len(data) // 2
        if self._raw:
            return self._inj.step(self._tag + "write", f"{self._label()}:{len(data)}", lambda: real.write(data),
                                  partial=lambda: real.write(data[:half]), on_fail=lambda: real.write(data[:half]))

        def half_down():
            real.write(data[:half])
            real.flush()

        return self._inj.step(self._tag + "bwrite", f"{self._label()}:{len(data)}", lambda: real.write(data),
                              partial=half_down, on_fail=self._lose_pending)

    def flush(self):
        return self._inj.step(self._tag + "flush", self._label(), self._real.flush, on_fail=self._lose_pending)

    def close(self):
        real = self._real
        if getattr(real, "closed", False):
            return None

        def failing_close():
            self._lose_pending()
            try:
                real.close()
            except Exception:
                pass

        return self._inj.step(self._tag + "close", self._label(), real.close, on_fail=failing_close)


def install_global(inj: GInjector) -> None:
    """Patch the process. ONLY for a forked child that never returns."""
    R = {n: getattr(os, n) for n in ("open", "close", "fsync", "fdatasync", "write", "ftruncate", "truncate", "replace",
                                     "rename", "link", "symlink", "chmod", "fchmod", "unlink", "remove", "mkdir",
                                     "makedirs", "rmdir")}
    base, fdn = F._base, F._fd_name

    def quiet(fn, *a):
        def run():
            try:
                fn(*a)
            except OSError:
                pass
        return run

    def p_open(path, flags, mode=0o777, *, dir_fd=None):
        if dir_fd is None and inj.inside(path):
            return inj.step("os.open", base(path), lambda: R["open"](path, flags, mode))
        return R["open"](path, flags, mode, dir_fd=dir_fd)

    def p_close(fd):
        if inj.inside(fd):
            return inj.step("os.close", fdn(fd), lambda: R["close"](fd), on_fail=quiet(R["close"], fd))
        return R["close"](fd)

    def p_fsync(fd):
        fdi = fd if isinstance(fd, int) else fd.fileno()
        if inj.inside(fdi):
            return inj.step("fsync", fdn(fdi), lambda: R["fsync"](fd))
        return R["fsync"](fd)

    def p_fdatasync(fd):
        fdi = fd if isinstance(fd, int) else fd.fileno()
        if inj.inside(fdi):
            return inj.step("fdatasync", fdn(fdi), lambda: R["fdatasync"](fd))
        return R["fdatasync"](fd)

    def p_write(fd, data):
        if inj.inside(fd):
            half = len(data) // 2
            return inj.step("os.write", f"{fdn(fd)}:{len(data)}", lambda: R["write"](fd, data),
                            partial=lambda: R["write"](fd, data[:half]), on_fail=lambda: R["write"](fd, data[:half]))
        return R["write"](fd, data)

    def p_ftruncate(fd, n):
        if inj.inside(fd):
            return inj.step("ftruncate", fdn(fd), lambda: R["ftruncate"](fd, n))
        return R["ftruncate"](fd, n)

    def p_truncate(path, n):
        if inj.inside(path):
            return inj.step("truncate", base(path), lambda: R["truncate"](path, n))
        return R["truncate"](path, n)

    def two(name, opname):
        def f(src, dst, **kw):
            if not kw and (inj.inside(src) or inj.inside(dst)):
                return inj.step(opname, f"{base(src)}->{base(dst)}", lambda: R[name](src, dst))
            return R[name](src, dst, **kw)
        return f

    def one(name, opname):
        def f(path, *a, **kw):
            if inj.inside(path) and not kw.get("dir_fd"):
                return inj.step(opname, base(path), lambda: R[name](path, *a, **kw))
            return R[name](path, *a, **kw)
        return f

    def fd_copy(name):
        real = getattr(os, name, None)
        if real is None:
            return None

        def f(*a, **kw):
            fds = [x for x in a[:2] if isinstance(x, int)]
            out_fd = (fds[0] if name == "sendfile" else fds[-1]) if fds else None  # sendfile(out, in..) / copy_file_range(src, dst..)
            if out_fd is not None and inj.inside(out_fd):
                return inj.step(name, fdn(out_fd), lambda: real(*a, **kw))
            return real(*a, **kw)
        return f

    for nm in ("sendfile", "copy_file_range"):
        px = fd_copy(nm)
        if px is not None:
            setattr(os, nm, px)
    os.open, os.close, os.fsync, os.fdatasync, os.write = p_open, p_close, p_fsync, p_fdatasync, p_write
    os.ftruncate, os.truncate = p_ftruncate, p_truncate
    os.replace, os.rename, os.link, os.symlink = two("replace", "replace"), two("rename", "rename"), two("link", "link"), \
        two("symlink", "symlink")
    os.chmod, os.fchmod = one("chmod", "chmod"), one("fchmod", "chmod")
    os.unlink, os.remove, os.rmdir = one("unlink", "unlink"), one("remove", "unlink"), one("rmdir", "rmdir")
    os.mkdir, os.makedirs = one("mkdir", "mkdir"), one("makedirs", "mkdir")

    real_open = _builtins.open

    def b_open(file, mode="r", *a, **kw):
        if isinstance(mode, str) and any(c in mode for c in "wax+") and inj.inside(file):
            label = fdn(file) if isinstance(file, int) else base(file)
            return inj.step(f"open:{mode}", label, lambda: GFile(inj, real_open(file, mode, *a, **kw)))
        return real_open(file, mode, *a, **kw)

    _builtins.open = b_open
    _io.open = b_open

    r_ntf, r_mkstemp = _tempfile_mod.NamedTemporaryFile, _tempfile_mod.mkstemp

    def t_ntf(*a, **kw):
        label = f"{kw.get('prefix') or ''}*{kw.get('suffix') or ''}"
        return inj.step("mktemp", label, lambda: GFile(inj, r_ntf(*a, **kw), tag="tmpf."))

    def t_mkstemp(*a, **kw):
        label = f"{kw.get('prefix') or ''}*{kw.get('suffix') or ''}"
        return inj.step("mktemp", label, lambda: r_mkstemp(*a, **kw))

    _tempfile_mod.NamedTemporaryFile, _tempfile_mod.mkstemp = t_ntf, t_mkstemp

    def no_sleep(_secs):
        inj.sleeps += 1

    _time_mod.sleep = no_sleep


def run_child(fn: Callable[[], Any], setup: Callable[[F.Injector], None], at: int = -1, fault: Optional[F.Fault] = None,
              root: str = "/nonexistent/", prepare: Optional[Callable[[], None]] = None, pause_at: Optional[int] = None,
              on_pause: Optional[Callable[[], None]] = None, kill2: Optional[int] = None) -> Tuple[F.ChildResult, bool]:
    """harness.faults.run_forked with a pluggable proxy installation (`setup(inj)` runs in the child) and an optional
    pause point: the child blocks before step `pause_at`, the parent runs `on_pause()` and lets it go on.
    Returns (result, paused?). Always reaps the child."""
    fault = fault or F.Fault()
    r, w = os.pipe()
    n_r = n_w = c_r = c_w = None
    if pause_at is not None:
        n_r, n_w = os.pipe()
        c_r, c_w = os.pipe()
    pid = os.fork()
    if pid == 0:  # ---- child: never returns
        code = 70
        try:
            os.close(r)
            if pause_at is not None:
                os.close(n_r)
                os.close(c_w)
            if prepare is not None:
                prepare()
            inj = GInjector(at, fault, trace_fd=w, root=root, pause=None if pause_at is None else (pause_at, n_w, c_r),
                            kill2=kill2)
            setup(inj)
            try:
                ret = fn()
                out = {"outcome": "ok", "ret": ret if isinstance(ret, (str, int, float, bool, type(None))) else repr(ret)[:200]}
                code = 0
            except BaseException as e:  # noqa: BLE001 - reported to the parent, which decides
                out = {"outcome": "exc", "type": type(e).__name__, "errno": getattr(e, "errno", None), "msg": str(e)[:300]}
                code = 3
            out["sleeps"] = inj.sleeps
            _R_WRITE(w, b"R" + json.dumps(out).encode() + b"\n")
        finally:
            os._exit(code)
    # ---- parent
    os.close(w)
    paused = False
    chunks = []
    try:
        if pause_at is not None:
            os.close(n_w)
            os.close(c_r)
            try:
                trace_open = True
                while True:  # wait for the pause message, draining the trace pipe meanwhile (it must never fill up)
                    ready, _, _ = select.select([n_r] + ([r] if trace_open else []), [], [])
                    if r in ready:
                        b = os.read(r, 65536)
                        if b:
                            chunks.append(b)
                        else:
                            trace_open = False
                    if n_r in ready:
                        paused = os.read(n_r, 1) == b"P"  # EOF: the child ended before reaching the step
                        break
                if paused and on_pause is not None:
                    on_pause()
            finally:
                try:
                    os.write(c_w, b"G")
                except OSError:
                    pass
                os.close(c_w)
                os.close(n_r)
        while True:
            b = os.read(r, 65536)
            if not b:
                break
            chunks.append(b)
    finally:
        os.close(r)
        _, status = os.waitpid(pid, 0)
    res = F.ChildResult()
    for line in b"".join(chunks).split(b"\n"):
        if line[:1] == b"S":
            op, d, p = json.loads(line[1:])
            res.steps.append((op, d, bool(p)))
        elif line[:1] == b"R":
            out = json.loads(line[1:])
            res.outcome = out["outcome"]
            res.sleeps = out.get("sleeps", 0)
            res.ret = out.get("ret")
            if res.outcome == "exc":
                res.exc = {k: out.get(k) for k in ("type", "errno", "msg")}
    code = os.waitstatus_to_exitcode(status)
    if code == F.KILL_CODE:
        if not fault.is_kill and kill2 is None:
            raise F.ForkHarnessError(f"child died with {F.KILL_CODE} but fault was {fault.name}")
        res.outcome = "killed"
    elif code in (0, 3) and res.outcome in ("ok", "exc"):
        if (fault.is_kill and 0 <= at < len(res.steps)) or (kill2 is not None and 0 <= kill2 < len(res.steps)):
            raise F.ForkHarnessError(f"kill fault at step {at}/{kill2} did not fire: {res.trace()}")
    else:
        raise F.ForkHarnessError(f"child ended with status {code}, outcome {res.outcome!r}, trace {res.trace()}")
    return res, paused


EXTRA_ERRNOS_QUICK = ["ENOENT"]
EXTRA_ERRNOS_THOROUGH = ["ENOENT", "EROFS", "EDQUOT", "EINTR", "EEXIST"]


def fault_kinds_for(op: str, has_partial: bool, scope: str, extra: Tuple[str, ...] = ()) -> List[str]:
    """Fault names enumerated for one step. scope 'atomic': harness.faults' full list (+ extra errnos);
    scope 'global' (every injection is a fork): a reduced list chosen per operation kind."""
    if scope != "global":
        return [k for k in F.fault_kinds(has_partial) if not (k == "short" and op.endswith("bwrite"))] + \
               [f"raise:{e}" for e in extra]
    out = ["kill_before", "kill_after"]
    if has_partial:
        out.append("kill_mid")
        if not op.endswith("bwrite"):
            out.append("short")
    out += ["raise:EIO", "raise:EACCES"]
    if op.endswith(("write", "flush", "close", "fsync", "mktemp")) or op.startswith("open:"):
        out.append("raise:ENOSPC")
    if op in ("replace", "rename", "link"):
        out += ["raise:ENOENT", "transient1:EBUSY", "transient3:EACCES"]
    out += [f"raise:{e}" for e in extra if f"raise:{e}" not in out]
    return out


# ------------------------------------------------------------------------------------------------ contents

_WORDS = ["alpha", "beta", "gamma", "Äpfel", "汉字", "naïve", "x", "snapshot", "0", "tab\there", "q\"uote", "emoji😀"]


def _gen_text(seed: int, size: int, style: str) -> str:
    rng = random.Random(seed * 7919 + size)
    eols = {"crlf": ["\r\n", "\r\n", "\n", "\r", "\r\r\n"], "ascii": ["\n"], "unicode": ["\n"], "binary": ["\n"]}[style]
    words = _WORDS if style != "ascii" else ["alpha", "beta", "gamma", "x", "0"]
    out: List[str] = []
    n = 0
    while n < size:
        w = rng.choice(words) + (rng.choice(eols) if rng.random() < 0.25 else " ")
        out.append(w)
        n += len(w)
    return "".join(out)[:size]


def _gen_obj(seed: int, size: int, style: str) -> Any:
    rng = random.Random(seed * 104729 + size)
    items = []
    n = 0
    while n < size:
        s = _gen_text(rng.randrange(1 << 30), rng.randrange(5, 60), style)
        items.append({"id": len(items), "s": s, "w": rng.randrange(-1000, 1000) / 8.0})
        n += len(s) + 24
    return {"seed": seed, "items": items, "z": None, "a": [True, False, 1.5]}


def size_class(spec: Optional[dict]) -> str:
    if spec is None:
        return "absent"
    if "lit" in spec:
        return "lit"
    if "rel" in spec:  # old content RELATED to the new one: its canonical prefix / identical
        return spec["rel"]
    return "big" if spec["size"] >= 100_000 else ("empty" if spec["size"] == 0 else "small")


def _text_expected(text: str) -> bytes:
    return text.replace("\r\n", "\n").encode("utf-8")


def _json_expected(obj: Any) -> bytes:
    return _text_expected(json.dumps(obj, sort_keys=True, separators=(",", ":"), ensure_ascii=False))


def materialize_simple(kind: str, spec: dict) -> Tuple[Any, bytes]:
    """(argument handed to the writer, independently computed expected file bytes) for bytes/text/json targets."""
    if kind == "bytes":
        if "lit" in spec:
            b = bytes.fromhex(spec["lit"]) if isinstance(spec["lit"], str) else json.dumps(spec["lit"]).encode()
        elif spec["style"] == "binary":
            b = random.Random(spec["seed"]).randbytes(spec["size"])
        else:
            b = _gen_text(spec["seed"], spec["size"], spec["style"]).encode("utf-8")
        return b, b
    if kind == "text":
        t = (spec["lit"] if isinstance(spec["lit"], str) else json.dumps(spec["lit"])) if "lit" in spec else \
            _gen_text(spec["seed"], spec["size"], spec["style"])
        return t, _text_expected(t)
    if kind == "json":
        o = spec["lit"] if "lit" in spec else _gen_obj(spec["seed"], spec["size"], spec["style"])
        return o, _json_expected(o)
    raise ValueError(kind)


def _payload(spec: dict) -> Dict[str, Any]:
    if "lit" in spec:
        return {"version_etag": "lit", "lit": spec["lit"], "store": {}}
    o = _gen_obj(spec["seed"], spec["size"], spec["style"])
    return {"version_etag": f"v{spec['seed']}", "store": {f"k{i['id']}": i for i in o["items"]}, "n": len(o["items"])}


def _state(spec: dict) -> Tuple[dict, str, list]:
    if "lit" in spec:
        return {"graph": {"nodes": {"lit": {"id": "lit", "label": spec["lit"]}}, "edges": {}}}, "lit", []
    rng = random.Random(spec["seed"] * 31 + spec["size"])
    n_edges = spec["size"] // 110
    nodes = {f"n{i}": {"id": f"n{i}", "label": _gen_text(rng.randrange(1 << 30), 8, spec["style"])}
             for i in range(min(40, n_edges + 1))}
    edges = {}
    for i in range(n_edges):
        a, b = f"n{i}", f"m{rng.randrange(1 << 20)}"
        edges[f"{a}__{b}__coact"] = {"src": a, "dst": b, "rel": "coact", "weight": rng.randrange(-100, 100) / 100.0,
                                     "updated_at": None, "attrs": {}}
    deltas = [SimpleNamespace(target_kind="node", target_id=f"n{i}", attr="weight", delta=0.125 * i, op_idx=i, idx=i)
              for i in range(rng.randrange(0, 3))]
    return {"graph": {"nodes": nodes, "edges": edges}}, f"v{spec['seed']}", deltas


def _records(spec: dict) -> List[dict]:
    if "lit" in spec:
        return [{"turn": 0, "ms": 1.25, "lit": spec["lit"]}]
    rng = random.Random(spec["seed"] * 17 + spec["size"])
    out = []
    n = 0
    while n < spec["size"]:
        r = {"turn": len(out), "ms": rng.random(), "now": "2020-01-01T00:00:00Z", "agent": "a1",
             "text": _gen_text(rng.randrange(1 << 30), rng.randrange(3, 50), spec["style"])}
        out.append(r)
        n += len(r["text"]) + 70
    return out


# ------------------------------------------------------------------------------------------------ prepared cases


class Dest:
    def __init__(self, name: str, role: str, old: Optional[bytes], new: bytes, old_mode: Optional[int]):
        self.name, self.role, self.old, self.new, self.old_mode = name, role, old, new, old_mode


class Env:
    """One prepared case: sandbox, work directory `w` with its initial files, destinations, the call."""

    def __init__(self, case: dict, base_dir: Optional[str] = None):
        self.case = case
        self.target = case["target"]
        self.sandbox = tempfile.mkdtemp(prefix="c08_", dir=base_dir)
        self.w = os.path.join(self.sandbox, "w")
        os.mkdir(self.w)
        self.dests: List[Dest] = []
        self.initial: Dict[str, Tuple[bytes, int]] = {}
        self.call: Callable[[], Any] = lambda: None
        # a later, fault-free, much SHORTER write to the same destination(s): (call, {dest name: expected bytes})
        self.follow: Optional[Tuple[Callable[[], Any], Dict[str, bytes]]] = None
        self.suffixes: Tuple[str, ...] = ()
        self.age = case.get("age")  # None: files as fresh as the set-up made them
        self.scope = case.get("scope", "atomic")  # which proxies record/inject: clematis.io.atomic only | process-wide
        self._env_saved = {k: os.environ.get(k) for k in ("CLEMATIS_LOG_DIR", "CLEMATIS_SNAPSHOT_DIR")}
        os.environ["CLEMATIS_SNAPSHOT_DIR"] = self.scratch("snapenv")
        os.environ["CLEMATIS_LOG_DIR"] = self.scratch("logenv")
        self.root = os.path.realpath(self.sandbox) + "/"
        # optional dimensions: the writer's umask, and destinations given relative to the working directory
        self._umask_saved = os.umask(int(case["umask"])) if case.get("umask") is not None else None
        self._cwd_saved = None
        if case.get("pathstyle") == "rel":
            self._cwd_saved = os.getcwd()
            os.chdir(self.sandbox)

    @property
    def wdir(self) -> str:
        """The work directory as the writer is told it (relative for pathstyle 'rel')."""
        return "w" if self._cwd_saved is not None else self.w

    def scratch(self, name: str) -> str:
        p = os.path.join(self.sandbox, name)
        os.makedirs(p, exist_ok=True)
        return p

    def put(self, name: str, data: bytes, mode: int = 0o644) -> None:
        p = os.path.join(self.w, name)
        if os.path.lexists(p):
            os.unlink(p)
        with open(p, "wb") as f:
            f.write(data)
        os.chmod(p, mode)
        self.initial[name] = (data, mode)
        self._age_one(p, len(self.initial))

    def _age_one(self, p: str, idx: int) -> None:
        """Optional dimension `age` (seconds; "1980" = fixed epoch): the files the write finds are not from this
        second but hours / days / years old (a previous session) — time-gated code paths see them as old."""
        if self.age is None:
            return
        t = (315532800.0 if self.age == "1980" else _time_mod.time() - float(self.age)) + idx
        os.utime(p, (t, t), follow_symlinks=False)

    def age_all(self) -> None:
        if self.age is None:
            return
        for k, n in enumerate(sorted(os.listdir(self.w))):
            p = os.path.join(self.w, n)
            if os.path.isfile(p) and not os.path.islink(p):
                self._age_one(p, k)

    def seal(self) -> None:
        """Take the initial picture of `w` (after the target's set-up wrote bystanders through the real code)."""
        self.initial = self.observe()

    def observe(self) -> Dict[str, Tuple[bytes, int]]:
        out = {}
        for n in sorted(os.listdir(self.w)):
            p = os.path.join(self.w, n)
            st = os.lstat(p)
            if _stat.S_ISREG(st.st_mode):
                with open(p, "rb") as f:
                    out[n] = (f.read(), _stat.S_IMODE(st.st_mode))
            else:
                out[n] = (b"<not a regular file>", _stat.S_IMODE(st.st_mode))
        return out

    def reset(self, obs: Dict[str, Tuple[bytes, int]]) -> None:
        for n in obs:
            if n not in self.initial:
                p = os.path.join(self.w, n)
                shutil.rmtree(p) if os.path.isdir(p) and not os.path.islink(p) else os.unlink(p)
        for n, (b, m) in self.initial.items():
            if obs.get(n) != (b, m):
                self.put(n, b, m)

    @property
    def dest_names(self):
        return {d.name for d in self.dests}

    def close(self) -> None:
        if self._cwd_saved is not None:
            os.chdir(self._cwd_saved)
        if self._umask_saved is not None:
            os.umask(self._umask_saved)
        for k, v in self._env_saved.items():
            if v is None:
                os.environ.pop(k, None)
            else:
                os.environ[k] = v
        shutil.rmtree(self.sandbox, ignore_errors=True)


OLD_SIDECAR = b'{"created_at": "1979-12-31T00:00:00Z", "schema_version": "v0"}\n'


def _read(p: str) -> bytes:
    with open(p, "rb") as f:
        return f.read()


def _quiet_stderr(fn):
    import contextlib

    def run(*a, **kw):
        with contextlib.redirect_stderr(_io.StringIO()):
            return fn(*a, **kw)
    return run


FOLLOW = {"lit": "7a"}  # the payload of the follow-up write (a few bytes in every target's encoding)


def prepare(case: dict, base_dir: Optional[str] = FAST_TMP) -> Env:
    """Build the sandbox for a case: {"target","old":spec|None,"new":spec,"perm":int,"pathstyle":"str"|"path"}."""
    import importlib
    A = importlib.import_module(A_MOD)
    env = Env(case, base_dir)
    try:
        t, perm = case["target"], int(case.get("perm", 0o644))
        old_spec, new_spec = case.get("old"), case["new"]
        if old_spec is not None and "rel" in old_spec and t not in ("bytes", "text", "json", "jsonl"):
            old_spec = new_spec  # snapshot writers: the related old content is the same state written before
        if t in ("bytes", "text", "json"):
            name = {"bytes": "blob.bin", "text": "note.txt", "json": "export.json"}[t]
            arg, new = materialize_simple(t, new_spec)
            if old_spec is not None and "rel" in old_spec:  # the new content EXTENDS (or equals) what is on disk
                old = new if old_spec["rel"] == "same" else new[:max(1, int(len(new) * float(old_spec.get("frac", 0.5))))]
            else:
                old = materialize_simple(t, old_spec)[1] if old_spec is not None else None
            if old is not None:
                env.put(name, old, perm)
            env.put("other.bin", b"bystander", 0o640)
            env.put(name + ".bak", b"operator's backup copy", 0o600)  # durable sibling named '<dest>.<something>'
            env.put(name + ".1", b"previous generation", 0o644)
            path = os.path.join(env.wdir, name)
            parg = pathlib.Path(path) if case.get("pathstyle") == "path" else path
            fn = {"bytes": A.atomic_write_bytes, "text": A.atomic_write_text, "json": A.atomic_write_json}[t]
            env.call = lambda: fn(parg, arg)
            f_arg, f_new = materialize_simple(t, FOLLOW)
            env.follow = (lambda: fn(parg, f_arg), {name: f_new})
            env.dests = [Dest(name, "body", old, new, perm if old is not None else None)]
            env.suffixes = (".json",) if t == "json" else ()
        elif t == "snapshot":
            from clematis.engine import snapshot as S

            def ctx_for(d):
                return SimpleNamespace(cfg=None, config={"t4": {"snapshot_dir": d}}, agent_id="a1", turn_id=7)

            def ref(spec, sub):
                st, etag, dl = _state(spec)
                d = env.scratch(sub)
                p = S.write_snapshot(ctx_for(d), st, etag, applied=len(dl), deltas=dl)
                body = _read(p)
                if json.loads(body).get("version_etag") != etag:
                    raise Violation("fault-free write_snapshot body does not carry the version etag", case, "baseline")
                return body, _read(p + ".meta")

            new_body, new_meta = ref(new_spec, "r_new")
            old_body = None
            if old_spec is not None:
                old_body, _ = ref(old_spec, "r_old")
                env.put("state_a1.json", old_body, perm)
                env.put("state_a1.json.meta", OLD_SIDECAR, 0o644)
            env.put("state_b2.json", b'{"schema_version":"v1","version_etag":"other"}', 0o644)
            st, etag, dl = _state(new_spec)
            env.call = lambda: S.write_snapshot(ctx_for(env.wdir), st, etag, applied=len(dl), deltas=dl)
            f_body, f_meta = ref(FOLLOW, "r_follow")
            fst, fetag, fdl = _state(FOLLOW)
            env.follow = (lambda: S.write_snapshot(ctx_for(env.wdir), fst, fetag, applied=len(fdl), deltas=fdl),
                          {"state_a1.json": f_body, "state_a1.json.meta": f_meta})
            env.dests = [Dest("state_a1.json", "body", old_body, new_body, perm if old_body is not None else None),
                         Dest("state_a1.json.meta", "sidecar", OLD_SIDECAR if old_body is not None else None, new_meta,
                              0o644 if old_body is not None else None)]
            env.suffixes = (".json", ".json.zst")
        elif t in ("delta", "full", "fullz"):
            from clematis.engine import snapshot as S
            base_p = {"version_etag": "e1", "store": {"k0": {"id": 0, "s": "base", "w": 1.0}}, "n": 1}
            dmode = t == "delta"
            comp = "zstd" if t == "fullz" else "none"
            name = "snapshot-e2.delta.json" if dmode else "snapshot-e2.full.json"
            if t == "fullz":
                # compression="zstd": '<name>.json.zst' with zstandard installed; without it the writer degrades to
                # an uncompressed '<name>.json' (since repo fix 9f474a1; before, uncompressed under the .zst name).
                # The destination name is whatever the fault-free writer chooses.
                probe = _quiet_stderr(S.write_snapshot_auto)(env.scratch("r_name"), etag_from=None, etag_to="e2",
                                                             payload=base_p, compression="zstd")[0]
                name = os.path.basename(probe)
                if name not in ("snapshot-e2.full.json", "snapshot-e2.full.json.zst"):
                    raise Violation(f"fault-free write_snapshot_auto(compression='zstd') wrote {probe}", case, "baseline")

            def ref(spec, sub):
                d = env.scratch(sub)
                S.write_snapshot_auto(d, etag_from=None, etag_to="e1", payload=base_p)
                p, wrote_delta = S.write_snapshot_auto(d, etag_from="e1", etag_to="e2", payload=_payload(spec),
                                                       delta_mode=dmode, compression=comp)
                if os.path.basename(p) != name or wrote_delta != dmode:
                    raise Violation(f"fault-free write_snapshot_auto wrote {p} delta={wrote_delta}", case, "baseline")
                return _read(p), _read(p + ".meta")

            if t == "fullz":  # zstandard is absent: every call prints a degrade warning on stderr
                ref = _quiet_stderr(ref)
            new_body, new_meta = ref(new_spec, "r_new")
            S.write_snapshot_auto(env.w, etag_from=None, etag_to="e1", payload=base_p)
            env.seal()
            old_body = None
            if old_spec is not None:
                old_body, _ = ref(old_spec, "r_old")
                env.put(name, old_body, perm)
                env.put(name + ".meta", OLD_SIDECAR, 0o644)
            if t == "full":  # a compressed sibling of the same snapshot, kept by the operator
                env.put(name + ".zst", b"\x28\xb5\x2f\xfd compressed sibling", 0o644)
            new_p = _payload(new_spec)
            env.call = lambda: S.write_snapshot_auto(env.wdir, etag_from="e1", etag_to="e2", payload=new_p, delta_mode=dmode,
                                                     compression=comp)
            f_body, f_meta = ref(FOLLOW, "r_follow")
            f_p = _payload(FOLLOW)
            env.follow = (lambda: S.write_snapshot_auto(env.wdir, etag_from="e1", etag_to="e2", payload=f_p, delta_mode=dmode,
                                                       compression=comp),
                          {name: f_body, name + ".meta": f_meta})
            if t == "fullz":
                env.call, env.follow = _quiet_stderr(env.call), (_quiet_stderr(env.follow[0]), env.follow[1])
            env.dests = [Dest(name, "body", old_body, new_body, perm if old_body is not None else None),
                         Dest(name + ".meta", "sidecar", OLD_SIDECAR if old_body is not None else None, new_meta,
                              0o644 if old_body is not None else None)]
            env.suffixes = (".json", ".json.zst")
        elif t == "jsonl":
            from clematis.io import log as L
            recs = _records(new_spec)
            os.environ["CLEMATIS_LOG_DIR"] = env.scratch("r_new")
            L.rewrite_jsonl("t1.jsonl", recs)
            new = _read(os.path.join(env.sandbox, "r_new", "t1.jsonl"))
            if [json.loads(x).get("turn") for x in new.decode("utf-8").split("\n") if x] != [r["turn"] for r in recs]:
                raise Violation("fault-free rewrite_jsonl does not hold one line per record", case, "baseline")
            f_recs = _records(FOLLOW)
            os.environ["CLEMATIS_LOG_DIR"] = env.scratch("r_follow")
            L.rewrite_jsonl("t1.jsonl", f_recs)
            f_new = _read(os.path.join(env.sandbox, "r_follow", "t1.jsonl"))
            os.environ["CLEMATIS_LOG_DIR"] = env.wdir
            old = None
            if old_spec is not None and "rel" in old_spec:
                # the log on disk is CANONICAL (written by an earlier rewrite_jsonl) and the new record list extends
                # it ("prefix": records appended since the last compaction) or equals it ("same")
                k = len(recs) if old_spec["rel"] == "same" else max(1, int(len(recs) * float(old_spec.get("frac", 0.5))))
                os.environ["CLEMATIS_LOG_DIR"] = env.scratch("r_old")
                L.rewrite_jsonl("t1.jsonl", recs[:k])
                old = _read(os.path.join(env.sandbox, "r_old", "t1.jsonl"))
                os.environ["CLEMATIS_LOG_DIR"] = env.wdir
                env.put("t1.jsonl", old, perm)
            elif old_spec is not None:
                old = "".join(json.dumps(r, ensure_ascii=False) + "\n" for r in _records(old_spec)).encode("utf-8")
                env.put("t1.jsonl", old, perm)
            env.put("t1.jsonl.1", b'{"turn":-1,"rotated":true}\n', 0o644)
            env.put("t2.jsonl", b'{"turn":0}\n', 0o644)

            def call_jsonl():
                os.environ["CLEMATIS_LOG_DIR"] = env.wdir
                L.rewrite_jsonl("t1.jsonl", recs)
            env.call = call_jsonl

            def follow_jsonl():
                os.environ["CLEMATIS_LOG_DIR"] = env.wdir
                L.rewrite_jsonl("t1.jsonl", f_recs)
            env.follow = (follow_jsonl, {"t1.jsonl": f_new})
            env.dests = [Dest("t1.jsonl", "body", old, new, perm if old is not None else None)]
            env.suffixes = (".jsonl",)
        else:
            raise ValueError(f"unknown target {t!r}")
        env.age_all()
        return env
    except BaseException:
        env.close()
        raise


# ------------------------------------------------------------------------------------------------ oracle


def _describe(content: Optional[bytes], d: Dest) -> str:
    if content is None:
        return "absent"
    for nm, ref in (("new", d.new), ("old", d.old)):
        if ref is not None and len(content) < len(ref) and ref.startswith(content):
            return f"truncated-{nm}"
    return "other"


def _case_of(env: Env, i: Optional[int], op: str, fault: str) -> dict:
    c = dict(env.case)
    c.update({"step": i, "step_op": op, "fault": fault})
    if env.scope != "atomic":
        c["scope"] = env.scope
    return c


def judge(env: Env, i: Optional[int], op: str, fault: F.Fault, res: F.ChildResult, obs: Dict[str, Tuple[bytes, int]],
          rec, realfault: str = "") -> List[str]:
    """Raise Violation when the observed directory breaks the property. Returns labels."""
    fname = realfault or fault.name
    case = _case_of(env, i, op, fname)
    where = f"target={env.target} step={i}:{op} fault={fname} outcome={res.outcome}" + \
            (f" exc={res.exc['type']}(errno={res.exc['errno']})" if res.exc else "")
    tail = f" | trace: {' '.join(res.trace(24))}" if res.steps else ""
    labels = [f"outcome={res.outcome}"]
    dest_names = env.dest_names
    leftovers = sorted(n for n in obs if n not in env.initial and n not in dest_names)

    # 1. bystanders never change
    for n, v in env.initial.items():
        if n not in dest_names and obs.get(n) != v:
            raise Violation(f"{where}: unrelated file {n!r} was {'removed' if n not in obs else 'modified'}{tail}", case,
                            "bystander")

    # 2. all-or-nothing on every destination
    state = {}
    for d in env.dests:
        cur = obs.get(d.name)
        content = cur[0] if cur is not None else None
        if content == d.new:
            state[d.role] = "new"
        elif content == d.old:
            state[d.role] = "old"
        else:
            what = _describe(content, d)
            short_like = fault.kind == "short" or realfault.startswith("rlimit")
            if short_like and res.outcome == "ok" and what == "truncated-new" and rec is not None and rec.is_known(KNOWN_SHORT):
                state[d.role] = "known-truncated"
                labels.append("known:" + KNOWN_SHORT)
                continue
            sig = "short-write" if (short_like and what == "truncated-new" and res.outcome == "ok") else f"partial:{d.role}:{what}"
            raise Violation(
                f"{where}: destination {d.name} is neither the complete old nor the complete new content: {what} "
                f"(len {None if content is None else len(content)}, old {None if d.old is None else len(d.old)}, "
                f"new {len(d.new)}){tail}", case, sig)
    labels.append("body=" + state.get("body", "?"))

    # 3. a call that returned has written the new content everywhere
    #    (a sidecar is written fail-soft: under an injected error it may legitimately stay old — only the
    #    fault-free run must refresh it)
    if res.outcome == "ok":
        for d in env.dests:
            if d.role != "body" and (fault.kind != "none" or realfault):
                continue
            if state[d.role] == "old" and d.old != d.new:
                raise Violation(f"{where}: call returned normally but {d.name} still holds the old content{tail}", case,
                                f"ok-not-new:{d.role}")
    # 4. sidecar failure never fails the snapshot write
    if res.outcome == "exc" and len(env.dests) > 1:
        body = env.dests[0]
        if state["body"] == "new" and body.old != body.new:
            raise Violation(f"{where}: body {body.name} was replaced but the call raised (a sidecar/durability failure "
                            f"must not fail the snapshot write){tail}", case, "sidecar-fails-write")
    # 5. no temp file after a call that returned or raised
    if res.outcome != "killed" and leftovers:
        empties = all(obs[n][0] == b"" for n in leftovers)
        if (op == "tmpf.close" and fault.kind in ("raise", "transient") and empties and rec is not None
                and rec.is_known(KNOWN_TMPCLOSE)):
            labels.append("known:" + KNOWN_TMPCLOSE)
        else:
            sig = "tmp-close-leak" if (op == "tmpf.close" and empties) else f"leftover:{res.outcome}"
            raise Violation(f"{where}: temp file(s) {leftovers} left behind after the call "
                            f"{'returned' if res.outcome == 'ok' else 'propagated a failure'}{tail}", case, sig)
    # 6. discovery never selects a temp (any outcome)
    if leftovers:
        from clematis.engine.snapshot import _pick_latest_snapshot_path
        from clematis.scripts.rotate_logs import iter_targets
        # body-parsing readers: always on small directories, on every third step on big ones (cost)
        heavy = i is None or i % 3 == 0 or sum(len(v[0]) for v in obs.values()) < 100_000
        diff = discovery_diff(env, leftovers, heavy)
        if diff:
            raise Violation(f"{where}: with the leftover temp file(s) {leftovers} in the directory, discovery/readers "
                            f"answer differently than without them: {diff}{tail}", case, "discovery-sees-temp:" + diff[0][0])
        pick = _pick_latest_snapshot_path(env.w)
        if pick is not None and os.path.basename(pick) in leftovers:
            raise Violation(f"{where}: _pick_latest_snapshot_path selects the temp file {os.path.basename(pick)}{tail}",
                            case, "discovery-picks-temp")
        hit = sorted(set(os.path.basename(p) for p in iter_targets(env.w, "*.jsonl")) & set(leftovers))
        if hit:
            raise Violation(f"{where}: the *.jsonl rotation glob selects temp file(s) {hit}{tail}", case,
                            "log-glob-picks-temp")
        bad = [n for n in leftovers if n.endswith(env.suffixes)] if env.suffixes else []
        if bad:
            raise Violation(f"{where}: temp file(s) {bad} carry a name that snapshot/log discovery patterns "
                            f"({'/'.join('*' + s for s in env.suffixes)}) accept{tail}", case, "temp-name-looks-real")
        labels.append("leftover-present")
    # 7. documented retry of transient sharing/permission errors on replace
    if fault.kind == "transient" and op == "replace" and res.outcome != "ok":
        raise Violation(f"{where}: {fault.times} transient {fault.err} failure(s) of os.replace were not retried to "
                        f"success (documented: retried, retries=80){tail}", case, "transient-replace-not-retried")
    # 8. permission bits
    for d in env.dests:
        cur = obs.get(d.name)
        if cur is None:
            continue
        if state[d.role] == "old" and d.old != d.new and cur[1] != d.old_mode:
            raise Violation(f"{where}: old {d.name} kept its content but its mode changed {oct(d.old_mode)} -> "
                            f"{oct(cur[1])}{tail}", case, "perm-old-changed")
        if res.outcome == "ok" and state[d.role] == "new" and op not in ("stat", "chmod") and fault.kind != "short" \
                and not realfault:
            want = d.old_mode if d.old_mode is not None else 0o644
            if cur[1] != want:
                raise Violation(f"{where}: {d.name} written with mode {oct(cur[1])}, documented "
                                f"{'preserved ' if d.old_mode is not None else 'default '}{oct(want)}{tail}", case, "perm")
    return labels


def _run(env: Env, at: int = -1, fault: Optional[F.Fault] = None, fork: bool = True, kill2: Optional[int] = None) -> F.ChildResult:
    """One execution of the case's write under the case's proxy scope with one fault armed."""
    fault = fault or F.Fault()
    if env.scope == "global":
        return run_child(env.call, install_global, at=at, fault=fault, root=env.root, kill2=kill2)[0]
    if kill2 is not None:
        raise ValueError("fault sequences (fault, then kill) need scope 'global'")
    if fault.is_kill or fork:
        return run_child(env.call, install_atomic, at=at, fault=fault, root=env.root)[0]
    return run_inproc_atomic(env.call, at=at, fault=fault)


def install_atomic(inj: F.Injector) -> List[Tuple[Any, Dict[str, Any]]]:
    """harness.faults' module-local proxies on clematis.io.atomic, with `open` handing out GFile (raw/buffered aware:
    no short count from a buffered write; a failing flush()/close() loses the unflushed tail)."""
    import importlib
    saved = []
    for m in [importlib.import_module(A_MOD)]:
        sv = F.install(m, inj)

        def open_(file, mode="r", *a, _inj=inj, **kw):
            return _inj.step(f"open:{mode}", F._base(file) if not isinstance(file, int) else F._fd_name(file),
                             lambda: GFile(_inj, _builtins.open(file, mode, *a, **kw)))
        m.open = open_
        saved.append((m, sv))
    return saved


def run_inproc_atomic(fn: Callable[[], Any], at: int = -1, fault: Optional[F.Fault] = None) -> F.ChildResult:
    """harness.faults.run_inproc with install_atomic (non-kill faults only; proxies always removed again)."""
    fault = fault or F.Fault()
    if fault.is_kill:
        raise F.ForkHarnessError("kill faults need a forked child")
    inj = F.Injector(at, fault)
    res = F.ChildResult()
    saved = install_atomic(inj)
    try:
        try:
            ret = fn()
            res.outcome = "ok"
            res.ret = ret if isinstance(ret, (str, int, float, bool, type(None))) else repr(ret)[:200]
        except Exception as e:  # noqa: BLE001 - reported to the caller, which decides
            res.outcome = "exc"
            res.exc = {"type": type(e).__name__, "errno": getattr(e, "errno", None), "msg": str(e)[:300]}
    finally:
        for m, sv in reversed(saved):
            F.restore(m, sv)
    res.steps = list(inj.steps)
    res.sleeps = inj.sleeps
    return res


def _relativize(x: Any, w: str) -> Any:
    if isinstance(x, str):
        return x.replace(w, "<w>")
    if isinstance(x, dict):
        return {str(k): _relativize(v, w) for k, v in x.items()}
    if isinstance(x, (list, tuple)):
        return [_relativize(v, w) for v in x]
    if isinstance(x, (int, float, bool, type(None))):
        return x
    return repr(x)[:200]


def _shape(x: Any, depth: int = 2) -> Any:
    """Cheap fingerprint of a loaded payload: scalars and the key sets / lengths of the first levels."""
    if isinstance(x, dict):
        return {str(k): (_shape(v, depth - 1) if depth > 0 else type(v).__name__) for k, v in sorted(x.items(), key=lambda kv: str(kv[0]))} \
            if len(x) <= 12 else {"__len__": len(x)}
    if isinstance(x, (list, tuple)):
        return [_shape(v, depth - 1) for v in x] if (len(x) <= 4 and depth > 0) else {"__len__": len(x)}
    if isinstance(x, str):
        return x if len(x) <= 80 else f"str[{len(x)}]"
    if isinstance(x, (int, float, bool, type(None))):
        return x
    return type(x).__name__


def discovery_view(w: str, heavy: bool = True) -> Dict[str, Any]:
    """What every directory-scanning reader of the repository makes of `w` (snapshot discovery/loaders, snapshot
    inspection/compaction globs, log rotation glob, frontend export). Exceptions of the code under test are part of
    the answer (compared differentially), never a verdict by themselves."""
    import contextlib
    import importlib
    from clematis.engine import snapshot as S
    view: Dict[str, Any] = {}

    def ask(key: str, fn: Callable[[], Any]) -> None:
        sink = _io.StringIO()
        try:
            with contextlib.redirect_stdout(sink), contextlib.redirect_stderr(_io.StringIO()):
                val = fn()
            view[key] = _relativize(val, w)
            if sink.getvalue():
                view[key + ".stdout"] = sink.getvalue().replace(w, "<w>")
        except Exception as e:  # noqa: BLE001 - answer of the code under test, compared with/without debris
            view[key] = f"raised {type(e).__name__}"

    ask("pick_latest", lambda: S._pick_latest_snapshot_path(w))

    def load():
        st: Dict[str, Any] = {}
        ret = S.load_latest_snapshot(SimpleNamespace(cfg=None, config={"t4": {"snapshot_dir": w}}, agent_id="a1", turn_id=8), st)
        g = st.get("graph") if isinstance(st.get("graph"), dict) else {}
        return [ret, sorted(st), len(g.get("nodes") or ()), len(g.get("edges") or ())]
    if heavy:  # the askers that parse whole bodies
        ask("latest_info", lambda: S.get_latest_snapshot_info(w))
        ask("load_latest", load)
    stems = sorted({n.split(".json")[0] for n in os.listdir(w) if n.startswith("snapshot-") and ".json" in n})
    for stem in stems + ["snapshot-e1.full", "snapshot-e2.full", "snapshot-e2.delta"]:
        ask("find:" + stem, lambda stem=stem: S._find_snapshot_file(w, stem))
    for etag in ("e1", "e2") if heavy else ():
        ask("read:" + etag, lambda etag=etag: _shape(S.read_snapshot(root=w, etag_to=etag)))
    ask("rotate_glob", lambda: sorted(importlib.import_module("clematis.scripts.rotate_logs").iter_targets(w, "*.jsonl")))
    # the rotation tool with its own default --pattern, planning only (dry run never touches a file)
    ask("rotate_dry_run", lambda: importlib.import_module("clematis.scripts.rotate_logs").main(
        ["--dir", w, "--max-bytes", "0", "--backups", "2", "--dry-run"]))
    if "rotate_dry_run.stdout" in view:
        view["rotate_dry_run.stdout"] = sorted(view["rotate_dry_run.stdout"].splitlines())
    ask("console_latest", lambda: importlib.import_module("clematis.scripts.console").find_latest_snapshot(pathlib.Path(w)))
    ask("mem_inspect", lambda: importlib.import_module("scripts.mem_inspect").run(w, w, "json", False))
    ask("mem_compact_plan", lambda: importlib.import_module("scripts.mem_compact").run(
        w, os.path.join(os.path.dirname(w), "compact_out"), dtype=None, compression="none", level=3, delta=False,
        dry_run=True))
    if heavy:
        ask("export_bundle", lambda: _shape(importlib.import_module(
            "clematis.scripts.export_logs_for_frontend").build_run_bundle(logs_dir=w, snapshots_dir=w)[0:2], 3))
    return view


def discovery_diff(env: Env, leftovers: List[str], heavy: bool = True) -> List[Tuple[str, Any, Any]]:
    """Metamorphic relation behind 'no temp file that discovery or log readers could mistake for real data': hiding
    the leftover temp files must not change any answer. Returns [(question, with, without)]."""
    with_debris = discovery_view(env.w, heavy)
    hide = env.scratch("hidden")
    for n in leftovers:
        os.rename(os.path.join(env.w, n), os.path.join(hide, n))
    try:
        without = discovery_view(env.w, heavy)
    finally:
        for n in leftovers:
            os.rename(os.path.join(hide, n), os.path.join(env.w, n))
    return [(k, with_debris.get(k), without.get(k)) for k in sorted(set(with_debris) | set(without))
            if with_debris.get(k) != without.get(k)]


def baseline(env: Env) -> F.ChildResult:
    res = _run(env)
    obs = env.observe()
    if res.outcome != "ok":
        raise Violation(f"fault-free {env.target} write raised {res.exc}", _case_of(env, None, "-", "none"), "baseline")
    judge(env, None, "-", F.Fault(), res, obs, None)
    env.reset(obs)
    return res


def inject(env: Env, base: F.ChildResult, i: int, fname: str, rec, fork_errors: bool = True) -> Tuple[F.ChildResult, List[str]]:
    """One injection. Kills always run in a forked child; failing calls do too unless fork_errors is False (then the
    proxies are installed in-process and removed again — same injector, no process death needed)."""
    fault = F.Fault.parse(fname)
    res = _run(env, i, fault, fork_errors)
    obs = env.observe()
    try:
        labels = judge(env, i, base.steps[i][0], fault, res, obs, rec)
        if res.outcome in ("killed", "exc") and env.follow is not None:
            # fault SEQUENCE: the failed/killed write is followed — in the directory as it was left — by a fault-free,
            # shorter write to the same destination; it must produce exactly its own content and no new debris
            obs = follow_up(env, i, base.steps[i][0], fname, res, obs)
            labels.append("follow-up-after=" + res.outcome)
    finally:
        env.reset(env.observe())
    return res, labels


SEQ_OPS = ("replace", "rename", "link")
SEQ_FAULTS = ("transient1:EBUSY", "transient3:EACCES", "raise:EACCES", "raise:EIO")


def inject_then_kill(env: Env, base: F.ChildResult, i: int, fname: str, first: F.ChildResult, rec, cap: int = 14) -> int:
    """Fault SEQUENCE inside one write: the call at step i fails (`fname`: transiently or for good) and the process
    dies at a later I/O boundary of the path taken BECAUSE of that failure (retry loop, fallback, cleanup) — steps that
    no fault-free run ever shows.  `first` is the run with `fname` alone (its trace names those steps).  Judged as a
    kill: destinations complete old/new, leftovers never discoverable, later write clean.  Returns #injections."""
    fault = F.Fault.parse(fname)
    later = list(range(i + 1, len(first.steps)))
    if len(later) > cap:  # e.g. 80 retries of a persistent EACCES: the first ones, the last ones
        later = later[:cap - 8] + later[-8:]
    n = 0
    for j in later:
        res = _run(env, i, fault, True, kill2=j)
        obs = env.observe()
        try:
            name = f"{fname}+kill@{j}"
            if res.outcome != "killed":  # the path after the fault is not deterministic (e.g. jittered retries): skip
                continue
            labels = judge(env, i, base.steps[i][0], F.Fault("kill_before"), res, obs, rec, realfault=name)
            if env.follow is not None:
                follow_up(env, i, base.steps[i][0], name, res, obs)
            n += 1
            if rec is not None:
                rec.case(nontrivial=True, dig=digest([env.target, i, fname, j, "seq"]),
                         labels=labels + ["sequence=fault-then-kill", f"seq.first={fname.split(':')[0]}",
                                          f"seq.kill-before={res.steps[j][0] if j < len(res.steps) else '?'}",
                                          f"target={env.target}"],
                         sample={"target": env.target, "first": f"{fname}@{i}:{base.steps[i][0]}",
                                 "kill_before": f"{j}:{res.steps[j][0]}" if j < len(res.steps) else j} if j % 5 == 0 else None)
        finally:
            env.reset(env.observe())
    return n


def follow_up(env: Env, i: int, op: str, fname: str, res: F.ChildResult, before: Dict[str, Tuple[bytes, int]]):
    case = dict(_case_of(env, i, op, fname), follow=True)
    where = f"target={env.target} step={i}:{op} fault={fname} outcome={res.outcome}, then a fault-free write of a short payload"
    call, expected = env.follow
    try:
        call()
    except Exception as e:
        obs2 = env.observe()
        raise Violation(f"{where}: the later write raised {type(e).__name__}: {e}", case, "follow-raises")
    obs2 = env.observe()
    for n, exp in expected.items():
        got = obs2.get(n)
        if got is None or got[0] != exp:
            g = None if got is None else got[0]
            what = ("missing" if g is None else "own content followed by bytes of the earlier, interrupted write"
                    if g.startswith(exp) and len(g) > len(exp) else "other content")
            raise Violation(f"{where}: {n} holds {what} (len {None if g is None else len(g)}, expected exactly the "
                            f"{len(exp)} bytes just written)", case, "follow-wrong-content")
    for n, v in env.initial.items():
        if n not in env.dest_names and obs2.get(n) != v:
            raise Violation(f"{where}: unrelated file {n!r} changed", case, "follow-bystander")
    new_left = sorted(n for n in obs2 if n not in before and n not in env.dest_names and n not in env.initial)
    if new_left:
        raise Violation(f"{where}: the later write returned and left new temp file(s) {new_left}", case, "follow-leftover")
    return obs2


def first_temp_index(steps) -> int:
    for k, (op, _d, _p) in enumerate(steps):
        if op == "mktemp":
            return k
    return 0


def step_sample(n: int, cap: int) -> List[int]:
    """All n step indices, or — for a writer that issues very many I/O calls — the first/last ones and an even spread."""
    if n <= cap:
        return list(range(n))
    head, tail = cap // 2, cap // 4
    mid = cap - head - tail
    idx = set(range(head)) | set(range(n - tail, n)) | {head + (k * (n - head - tail)) // mid for k in range(mid)}
    return sorted(idx)


def enumerate_case(case: dict, rec, on_violation: Optional[Callable[[Violation], None]], counter: List[int],
                   shard: int = 0, nshards: int = 1, fork_errors: bool = True, extra_errnos: Tuple[str, ...] = (),
                   step_cap: int = 80) -> None:
    """Baseline + every (step x fault) of one case. With on_violation=None the first Violation propagates."""
    try:
        env = prepare(case)
    except Violation as v:  # the fault-free reference write itself is broken
        if on_violation is None:
            raise
        on_violation(v)
        return
    try:
        try:
            base = baseline(env)
        except Violation as v:
            if on_violation is None:
                raise
            on_violation(v)
            return
        S = len(base.steps)
        t0 = first_temp_index(base.steps)
        oldp = case.get("old") is not None
        sc = f"{size_class(case.get('old'))}->{size_class(case['new'])}"
        if rec is not None:
            rec.note(f"steps.{env.target}" + ("" if env.scope == "atomic" else "." + env.scope),
                     [op for op, _d, _p in base.steps])
        nsz = case["new"].get("size") if isinstance(case.get("new"), dict) else None
        age = case.get("age")
        dims = [f"scope={env.scope}", f"pathstyle={case.get('pathstyle', 'str')}",
                "age=" + ("fresh" if age is None else "years" if age == "1980" else "minutes" if age < 3600 else
                          "hours" if age < 86400 else "days"),
                "new-size=" + ("lit" if nsz is None else "0" if nsz == 0 else "<4K" if nsz < 4096 else "4K..8K" if nsz <= 8193
                               else "8K..64K" if nsz < 65_536 else "64K..1M" if nsz <= (1 << 20) else ">1M"),
                f"umask={oct(case['umask']) if case.get('umask') is not None else 'inherited'}"]
        for i in step_sample(S, step_cap):
            op, _detail, has_partial = base.steps[i]
            for fname in fault_kinds_for(op, has_partial, env.scope, extra_errnos):
                k = counter[0]
                counter[0] += 1
                if k % nshards != shard:
                    continue
                try:
                    res, labels = inject(env, base, i, fname, rec, fork_errors)
                    if env.scope == "global" and op in SEQ_OPS and fname in SEQ_FAULTS:
                        inject_then_kill(env, base, i, fname, res, rec)
                except Violation as v:
                    if on_violation is None:
                        raise
                    on_violation(v)
                    if rec is not None:
                        rec.case(nontrivial=False, labels=["violating"])
                    continue
                if rec is not None:
                    nt = i > t0
                    fk = fname.split(":")[0]
                    rec.case(nontrivial=nt, dig=digest([env.target, op, i, fname, oldp, sc] +
                                                       ([env.scope] if env.scope != "atomic" else [])),
                             labels=labels + dims + [f"target={env.target}", f"op={op}", f"fault={fk}", f"class={sc}"] +
                             ([f"errno={fname.split(':')[1]}"] if ":" in fname else []),
                             sample={"target": env.target, "class": sc, "perm": oct(case.get("perm", 0o644)), "step": i,
                                     "op": op, "fault": fname, "outcome": res.outcome, "of_steps": S} if nt and (k % 97 == 5) else None)
    finally:
        env.close()


# ------------------------------------------------------------------------------------------------ sub-check: faults


def _g(size: int, seed: int, style: str = "unicode") -> dict:
    return {"seed": seed, "size": size, "style": style}


def matrix(depth: str) -> List[dict]:
    small_new = {"bytes": _g(37, 1, "binary"), "text": _g(300, 2, "crlf"), "json": _g(200, 3), "snapshot": _g(400, 4),
                 "delta": _g(300, 5), "full": _g(300, 5), "jsonl": _g(400, 6)}
    style = {"bytes": "binary", "text": "crlf", "json": "unicode", "snapshot": "unicode", "delta": "unicode",
             "full": "unicode", "jsonl": "crlf"}
    out = []
    if depth == "quick":
        targets = TARGETS[:6]
        classes = [("absent", "small", 0o644), ("small", "big", 0o600), ("big", "small", 0o444)]
    else:
        targets = TARGETS[:6]
        classes = [(o, n, p) for o in ("absent", "small", "big") for n in ("small", "big") for p in (0o644,)] + \
                  [("small", "small", 0o600), ("big", "big", 0o444), ("small", "empty", 0o664), ("empty", "small", 0o640)]
    for ti, t in enumerate(targets):
        for ci, (o, n, p) in enumerate(classes):
            def spec(cls, salt):
                if cls == "absent":
                    return None
                if cls == "small":
                    s = dict(small_new[t])
                    s["seed"] += salt
                    return s
                if cls == "empty":
                    return _g(0, 9 + salt, style[t])
                return _g(BIG, 11 + salt + ti, style[t])
            case = {"target": t, "old": spec(o, 100), "new": spec(n, 0), "perm": p,
                    "pathstyle": ("str", "path", "rel")[(ti + ci) % 3]}
            if (ti + ci) % 2 == 0:
                case["umask"] = 0o077 if ci % 2 == 0 else 0o027  # the writer's umask must not decide the result's mode
            if ci % 3:  # the directory's files are hours / years old, not from this second
                case["age"] = 3 * 3600 if ci % 3 == 1 else "1980"
            out.append(case)
    # the new content EXTENDS the canonical content on disk (records appended since the last compaction) / equals it
    for t, n in (("jsonl", 3000), ("text", 9000)) if depth == "quick" else (("jsonl", 3000), ("jsonl", BIG), ("text", 9000),
                                                                           ("bytes", 70_000), ("json", 5000)):
        for rel in ("prefix", "same"):
            out.append({"target": t, "old": {"rel": rel, "frac": 0.6}, "new": _g(n, 17, style[t]), "perm": 0o644,
                        "pathstyle": "str", "age": 3600 if rel == "same" else None})
    return out


def matrix_anywhere(depth: str) -> List[dict]:
    """Cases of the process-wide enumeration: every target incl. the .json.zst name, payload sizes at the buffer
    boundaries (4 KiB / 8 KiB / 64 KiB / 1 MiB)."""
    style = {"bytes": "binary", "text": "crlf", "jsonl": "crlf"}
    plan = {"bytes": [(65_537, 4096), (None, (1 << 20) + 1), (4095, 8192)],
            "text": [(None, 8193), (8192, 65_536), (300, 0)],
            "json": [(4097, 300), (None, 65_537), (300, 4096)],
            "snapshot": [(300, 65_000), (None, 300), (8192, 4096)],
            "delta": [(None, 300), (300, 8193), (65_537, 300)],
            "jsonl": [(8192, 5000), (None, 65_537), (300, 300)],
            "full": [(4096, 300), (None, 8192), (300, 65_537)],
            "fullz": [(None, 700), (700, 8193), (8193, 300)]}
    out = []
    for ti, t in enumerate(TARGETS if depth == "quick" else ALL_TARGETS):  # fullz == full while zstandard is absent
        for ci, (o, n) in enumerate(plan[t][:1 if depth == "quick" else 3]):
            case = {"target": t, "old": None if o is None else _g(o, 200 + ti + ci, style.get(t, "unicode")),
                    "new": _g(n, 300 + ti + ci, style.get(t, "unicode")), "perm": (0o640, 0o600, 0o444)[(ti + ci) % 3],
                    "pathstyle": ("str", "rel", "path")[(ti + ci) % 3], "scope": "global"}
            if (ti + ci) % 2:
                case["umask"] = 0o077
            if (ti + ci) % 3 != 2:
                case["age"] = (2 * 86400, "1980")[(ti + ci) % 3]
            out.append(case)
    for t, n in (("jsonl", 6000), ("bytes", 9000)) if depth == "quick" else (("jsonl", 6000), ("jsonl", 70_000), ("bytes", 9000),
                                                                            ("text", 5000), ("json", 5000), ("snapshot", 900)):
        for rel in ("prefix", "same"):
            out.append({"target": t, "old": {"rel": rel, "frac": 0.7}, "new": _g(n, 19, style.get(t, "unicode")),
                        "perm": 0o644, "pathstyle": "str", "scope": "global"})
    return out


def sub_anywhere(rec, seed, shard, nshards, depth="quick", max_sigs=12):
    counter = [0]
    sigs: Dict[str, int] = {}

    def on_v(v: Violation):
        sigs[v.sig] = sigs.get(v.sig, 0) + 1
        if sigs[v.sig] == 1 and len(sigs) <= max_sigs:
            rec.violation(v.message, v.case, v.sig)

    cases = matrix_anywhere(depth)
    extra = tuple(EXTRA_ERRNOS_THOROUGH) if depth == "thorough" else ()
    for case in cases:
        enumerate_case(case, rec, on_v, counter, shard, nshards, True, extra)
    rec.note("cases", len(cases))
    rec.note("injections_total", counter[0])


def sub_faults(rec, seed, shard, nshards, depth="quick", max_sigs=12, fork_errors=False):
    counter = [0]
    sigs: Dict[str, int] = {}

    def on_v(v: Violation):
        sigs[v.sig] = sigs.get(v.sig, 0) + 1
        if sigs[v.sig] == 1 and len(sigs) <= max_sigs:
            rec.violation(v.message, v.case, v.sig)

    cases = matrix(depth)
    extra = tuple(EXTRA_ERRNOS_THOROUGH if depth == "thorough" else EXTRA_ERRNOS_QUICK)
    for case in cases:
        enumerate_case(case, rec, on_v, counter, shard, nshards, fork_errors, extra)
    rec.note("cases", len(cases))
    rec.note("injections_total", counter[0])


def replay_fault(case):
    """Re-execute one saved (case, step, fault) — or the whole enumeration of the case when no step is given.
    The step is addressed by index; when the step layout changed since the file was saved (other operation at that
    index) every step of the saved operation kind is tried instead."""
    case = dict(case)
    step, fname, op = case.pop("step", None), case.pop("fault", None), case.pop("step_op", None)
    if fname and fname.startswith("rlimit"):
        return _rlimit_one(case, int(fname.split(":")[1]), None)
    kill2 = None
    if fname and "+kill@" in fname:
        fname, k2 = fname.split("+kill@")
        kill2 = int(k2)
        case["scope"] = "global"
    if step is None or fname in (None, "none"):
        return enumerate_case(case, None, None, [0])
    env = prepare(case)
    try:
        base = baseline(env)
        ops = [s[0] for s in base.steps]
        if 0 <= int(step) < len(ops) and (op is None or ops[int(step)] == op):
            idxs = [int(step)]
        else:
            idxs = [k for k, o in enumerate(ops) if o == op]
        for k in idxs:
            if kill2 is not None:
                first = _run(env, k, F.Fault.parse(fname), True)
                env.reset(env.observe())
                inject_then_kill(env, base, k, fname, first, None, cap=1 << 30)
            elif fname in fault_kinds_for(base.steps[k][0], base.steps[k][2], env.scope, tuple(EXTRA_ERRNOS_THOROUGH)):
                inject(env, base, k, fname, None)
    finally:
        env.close()


# ------------------------------------------------------------------------------------------------ sub-check: gen


def _strategies():
    from hypothesis import strategies as st
    js = st.recursive(st.one_of(st.none(), st.booleans(), st.integers(-10**6, 10**6),
                                st.floats(allow_nan=False, allow_infinity=False, width=32), st.text(max_size=12)),
                      lambda ch: st.one_of(st.lists(ch, max_size=4), st.dictionaries(st.text(max_size=6), ch, max_size=4)),
                      max_leaves=12)
    eolish = st.text(alphabet=st.sampled_from(list("ab \r\n\r\n\tÄ汉😀 \x00\"\\")), max_size=60)

    def spec_for(t):
        gen = st.fixed_dictionaries({"seed": st.integers(0, 1 << 16),
                                     "size": st.one_of(st.just(BIG), st.sampled_from([0, 1, 2, 4095, 4096, 8192, 8193, 65536, 65537,
                                                                                      BIG + 1, (1 << 20) + 1]),
                                                       st.integers(1, 3000), st.integers(1, 3000)),
                                     "style": st.sampled_from(["ascii", "unicode", "crlf"] + (["binary"] if t == "bytes" else []))})
        if t == "bytes":
            lit = st.binary(max_size=64).map(lambda b: {"lit": b.hex()})
        elif t == "text":
            lit = st.one_of(eolish, st.text(max_size=40)).map(lambda s: {"lit": s})
        else:
            lit = js.map(lambda o: {"lit": o})
        return st.one_of(gen, gen, lit)

    @st.composite
    def cases(draw):
        t = draw(st.sampled_from(ALL_TARGETS))
        new = draw(spec_for(t))
        old = draw(st.one_of(st.none(), spec_for(t), spec_for(t),
                             st.fixed_dictionaries({"rel": st.sampled_from(["prefix", "prefix", "same"]),
                                                    "frac": st.sampled_from([0.01, 0.3, 0.5, 0.9, 0.999])})))
        case = {"target": t, "old": old, "new": new, "perm": draw(st.sampled_from([0o644, 0o600, 0o444, 0o664, 0o640, 0o755])),
                "pathstyle": draw(st.sampled_from(["str", "path", "rel"]))}
        um = draw(st.sampled_from([None, None, 0o077, 0o027, 0o002]))
        if um is not None:
            case["umask"] = um
        if draw(st.integers(0, 3)) == 0:
            case["scope"] = "global"
        age = draw(st.sampled_from([None, 601, 5 * 3600, 30 * 86400, "1980"]))
        if age is not None:
            case["age"] = age
        return case

    return cases()


def sub_gen(rec, seed, shard, nshards, n=3, shrink=False, fork_errors=True):
    def body(case):
        enumerate_case(case, rec, None, [0], fork_errors=fork_errors)
        rec.label(f"case.target={case['target']}")
        rec.label(f"case.class={size_class(case['old'])}->{size_class(case['new'])}")

    run_hypothesis(rec, seed, _strategies(), body, max_examples=n, shrink=shrink, name="gen")


# ------------------------------------------------------------------------------------------------ sub-check: rlimit


def _rlimit_one(case: dict, limit: int, rec, env: Optional[Env] = None) -> None:
    import resource
    import signal

    def prep():
        signal.signal(signal.SIGXFSZ, signal.SIG_IGN)
        resource.setrlimit(resource.RLIMIT_FSIZE, (limit, limit))

    own = env is None
    if own:
        env = prepare(case)
    try:
        n_new = len(env.dests[0].new)
        if limit < 0:  # relative to the length of the new body: the limit falls into its last bytes
            limit = max(0, n_new + limit)
        res = F.run_forked(env.call, [], prepare=prep)
        obs = env.observe()
        if limit >= n_new + 4096 and res.outcome != "ok":  # no file of this write comes near the limit: as baseline()
            raise Violation(f"fault-free {env.target} write of {n_new} bytes raised {res.exc}",
                            _case_of(env, None, "write(2)", f"rlimit:{limit}"), "baseline")
        labels = judge(env, None, "write(2)", F.Fault(), res, obs, rec, realfault=f"rlimit:{limit}")
        if res.outcome == "exc" and env.follow is not None:
            follow_up(env, None, "write(2)", f"rlimit:{limit}", res, obs)
            labels.append("follow-up-after=exc")
        if rec is not None:
            where = "none" if limit >= n_new else ("tail" if n_new - limit <= 8192 else "inside")
            rec.case(nontrivial=limit < n_new, dig=digest([case, limit]),
                     labels=labels + [f"target={env.target}", f"limit-cuts={where}",
                                      "new-len=" + ("<=4K" if n_new <= 4096 else "<=8K" if n_new <= 8192 else
                                                    "<=64K" if n_new <= 65536 else "<=1M" if n_new <= (1 << 20) else ">1M")],
                     sample={"target": env.target, "rlimit_fsize": limit, "outcome": res.outcome, "new_len": n_new})
    finally:
        if own:
            env.close()
        else:
            env.reset(env.observe())


def _rlimit_group(case: dict, limits, rec, k0: int, shard: int, nshards: int) -> bool:
    """All limits of one case on one prepared sandbox (sharded by running index). False after a violation."""
    mine = [lim for j, lim in enumerate(limits) if (k0 + j) % nshards == shard]
    if not mine:
        return True
    try:
        env = prepare(case)
    except Violation as v:
        rec.violation(v.message, v.case, v.sig)
        return False
    try:
        for lim in mine:
            try:
                _rlimit_one(case, lim, rec, env)
            except Violation as v:
                rec.violation(v.message, v.case, v.sig)
                return False
    finally:
        env.close()
    return True


def sub_rlimit(rec, seed, shard, nshards, targets=("bytes", "text", "json", "snapshot", "delta", "jsonl")):
    k = 0
    for ti, t in enumerate(targets):
        for o in (None, _g(500, 21 + ti, "ascii")):
            case = {"target": t, "old": o, "new": _g(BIG, 31 + ti, "binary" if t == "bytes" else "ascii"), "perm": 0o644,
                    "pathstyle": "str"}
            limits = (0, 1, 4096, 100_000, 150_001)
            if not _rlimit_group(case, limits, rec, k, shard, nshards):
                return
            k += len(limits)
    # payload sizes around the userspace/pipe/slice buffer boundaries (4 KiB, 8 KiB, 64 KiB, 1 MiB); the limit falls
    # into the LAST bytes of the new body (what a buffered writer still holds when it closes the file), into its last
    # buffer-full, or into the middle
    for ti, t in enumerate(tuple(targets) + ("full",)):
        sizes = [0, 700, 4096, 8192 + 37, 30_000, 65_536 + 1] + ([(1 << 20) + 7] if t in ("bytes", "jsonl") else [])
        for si, size in enumerate(sizes):
            case = {"target": t, "old": _g(600, 41 + ti, "ascii") if (ti + si) % 2 else None,
                    "new": _g(size, 51 + ti + si, "binary" if t == "bytes" else "ascii"), "perm": 0o644, "pathstyle": "str"}
            if si % 2:
                case["age"] = 86400 * (1 + si)
            # size 0: an EMPTY new content, written without any limit in the way (the replacement must still happen)
            limits = (-1, -700, -5000, -(size // 2)) if size else (1 << 40,)
            if not _rlimit_group(case, limits, rec, k, shard, nshards):
                return
            k += len(limits)
    # the new content extends the canonical content on disk; the limit falls into the appended part
    for t, size in (("jsonl", 5000), ("jsonl", 70_000), ("text", 9000), ("bytes", 30_000)):
        case = {"target": t, "old": {"rel": "prefix", "frac": 0.5}, "new": _g(size, 77, "binary" if t == "bytes" else "ascii"),
                "perm": 0o644, "pathstyle": "str"}
        limits = (-1, -300, -(size // 4))
        if not _rlimit_group(case, limits, rec, k, shard, nshards):
            return
        k += len(limits)


# ------------------------------------------------------------------------------------------------ sub-check: kernel
#
# Destinations that are not plain files, judged through the PATH a reader would open: a directory in the place of the
# destination (os.replace fails with EISDIR/ENOTEMPTY for real, not retryable) and a symbolic link (to a file in another
# directory, or dangling).  Faults are real (the kernel's answer, RLIMIT_FSIZE) or kills at every step (process-wide
# proxies).


def _tree(root: str) -> Dict[str, Any]:
    out: Dict[str, Any] = {}
    for dp, dns, fns in os.walk(root):
        for n in sorted(dns + fns):
            p = os.path.join(dp, n)
            rel = os.path.relpath(p, root)
            if os.path.islink(p):
                out[rel] = ("link", os.readlink(p))
            elif os.path.isdir(p):
                out[rel] = ("dir",)
            else:
                out[rel] = ("file", _read(p))
    return out


def kernel_case(case: dict, rec) -> None:
    """case: {"target", "destkind": "dir"|"symlink"|"dangling", "old": spec, "new": spec, "fault": None|"rlimit:N"|
    "kills"}"""
    import resource
    import signal
    t, kind, fault = case["target"], case["destkind"], case.get("fault")
    env = prepare({"target": t, "old": case.get("old") if kind == "symlink" else None, "new": case["new"], "perm": 0o644,
                   "pathstyle": "str", "scope": "global"})
    try:
        d = env.dests[0]
        path = os.path.join(env.w, d.name)
        elsewhere = env.scratch("elsewhere")
        real = os.path.join(elsewhere, "real-" + d.name)
        if kind == "dir":
            os.mkdir(path)
            with open(os.path.join(path, "keep.txt"), "wb") as f:
                f.write(b"user data")
        else:
            if kind == "symlink":
                os.rename(path, real)
            os.symlink(os.path.join("..", "elsewhere", "real-" + d.name), path)
        old = d.old if kind == "symlink" else None
        before_w, before_e = _tree(env.w), _tree(elsewhere)
        c = dict(case)

        def check(res: F.ChildResult, what: str) -> List[str]:
            where = f"kernel/{t}: destination is a {kind}, {what}: outcome={res.outcome}" + \
                    (f" exc={res.exc['type']}(errno={res.exc['errno']})" if res.exc else "")
            now_w, now_e = _tree(env.w), _tree(elsewhere)
            try:
                via = _read(path) if not os.path.isdir(path) else None
            except FileNotFoundError:
                via = None
            others = [n for n in env.dest_names if n != d.name]
            if kind == "dir":
                if os.path.isdir(path):
                    if now_w.get(os.path.join(d.name, "keep.txt")) != ("file", b"user data"):
                        raise Violation(f"{where}: the content of the directory standing in the destination's place was "
                                        f"destroyed", c, "kernel-dir-content")
                    if res.outcome == "ok":
                        raise Violation(f"{where}: the call returned normally although nothing could be written",
                                        c, "kernel-dir-ok")
                elif via != d.new:
                    raise Violation(f"{where}: the directory was removed and the path does not hold the complete new "
                                    f"content", c, "kernel-dir-content")
            else:
                if via not in (old, d.new) or (res.outcome == "ok" and via != d.new):
                    raise Violation(f"{where}: reading the destination path yields neither the complete old nor the "
                                    f"complete new content (len {None if via is None else len(via)}, old "
                                    f"{None if old is None else len(old)}, new {len(d.new)})", c, "kernel-link-partial")
                tgt = now_e.get("real-" + d.name)
                if tgt is not None and tgt not in (("file", old), ("file", d.new)):
                    raise Violation(f"{where}: the link's target file is neither the complete old nor the complete new "
                                    f"content", c, "kernel-link-target-partial")
                if tgt is None and kind == "symlink":
                    raise Violation(f"{where}: the link's target file was removed", c, "kernel-link-target-partial")
            if res.outcome != "killed":
                extra = sorted(n for n in now_w if n not in before_w and n not in others) + \
                        sorted("elsewhere/" + n for n in now_e if n not in before_e and n != "real-" + d.name)
                if extra:
                    raise Violation(f"{where}: temp file(s) {extra} left behind", c, "kernel-leftover")
            for n, v in before_w.items():
                if n.split(os.sep)[0] not in env.dest_names and now_w.get(n) != v:
                    raise Violation(f"{where}: unrelated file {n!r} changed", c, "kernel-bystander")
            return [f"outcome={res.outcome}", f"destkind={kind}", f"target={t}"]

        def restore():
            for root, before in ((env.w, before_w), (elsewhere, before_e)):
                now = _tree(root)
                for n in sorted(now, reverse=True):
                    if n not in before or now[n] != before[n]:
                        p = os.path.join(root, n)
                        shutil.rmtree(p) if (os.path.isdir(p) and not os.path.islink(p)) else os.unlink(p)
                for n in sorted(before):
                    p = os.path.join(root, n)
                    if not os.path.lexists(p):
                        v = before[n]
                        if v[0] == "dir":
                            os.mkdir(p)
                        elif v[0] == "link":
                            os.symlink(v[1], p)
                        else:
                            with open(p, "wb") as f:
                                f.write(v[1])

        if fault == "kills":
            base, _ = run_child(env.call, install_global, root=env.root)
            labels = check(base, "no fault")
            restore()
            n = 0
            for i in step_sample(len(base.steps), 60):
                for fk in ("kill_before", "kill_mid") if base.steps[i][2] else ("kill_before",):
                    res, _ = run_child(env.call, install_global, at=i, fault=F.Fault(fk), root=env.root)
                    check(res, f"{fk} step {i}:{base.steps[i][0]}")
                    restore()
                    n += 1
            if rec is not None:
                rec.case(nontrivial=True, dig=digest(case), labels=labels + ["fault=kills"], n=n,
                         sample={"target": t, "destkind": kind, "kills": n})
            return
        prep = None
        if fault and fault.startswith("rlimit:"):
            limit = int(fault.split(":")[1])

            def prep():
                signal.signal(signal.SIGXFSZ, signal.SIG_IGN)
                resource.setrlimit(resource.RLIMIT_FSIZE, (limit, limit))
        res = F.run_forked(env.call, [], prepare=prep)
        labels = check(res, fault or "no fault")
        if rec is not None:
            rec.case(nontrivial=True, dig=digest(case), labels=labels + [f"fault={(fault or 'none').split(':')[0]}"],
                     sample={"target": t, "destkind": kind, "fault": fault, "outcome": res.outcome,
                             "exc": res.exc and res.exc["type"]})
    finally:
        env.close()


def nonio_case(case: dict, rec) -> None:
    """A write that fails for a reason other than an I/O call — the payload cannot be serialised/encoded to its end
    (unserialisable object, lone surrogate, a record iterator that raises) — possibly after a long good prefix.
    case: {"target": "json"|"text"|"jsonl", "why": "object"|"surrogate"|"iterator", "old": spec|None, "prefix": int}.
    Oracle: the call raised => destination is the complete old content (or absent) and no temp file is left; it
    returned => no temp file is left and the destination is not the old content cut short."""
    import importlib
    A = importlib.import_module(A_MOD)
    t, why, n = case["target"], case["why"], int(case.get("prefix", 200))
    env = prepare({"target": t, "old": case.get("old"), "new": _g(50, 1, "ascii"), "perm": 0o644, "pathstyle": "str"})
    try:
        d = env.dests[0]
        path = os.path.join(env.w, d.name)
        good = [{"turn": i, "text": "x" * 40, "agent": "a1"} for i in range(n)]
        if t == "json":
            obj = {"items": good, "zz_last": object() if why == "object" else "tail \ud800"}
            call = lambda: A.atomic_write_json(path, obj)  # noqa: E731
        elif t == "text":
            call = lambda: A.atomic_write_text(path, "line of text\n" * (n * 4) + "tail \udfff")  # noqa: E731
        else:
            from clematis.io import log as L

            def records():
                yield from good
                if why == "iterator":
                    raise ValueError("record source failed")
                yield {"turn": n, "text": "tail \ud800" if why == "surrogate" else object()}

            def call():
                os.environ["CLEMATIS_LOG_DIR"] = env.w
                L.rewrite_jsonl("t1.jsonl", records())
        res = F.run_forked(call, [])
        obs = env.observe()
        where = f"nonio/{t}: payload fails to serialise ({why}) after {n} good records: outcome={res.outcome}" + \
                (f" exc={res.exc['type']}" if res.exc else "")
        c = dict(case)
        for nme, v in env.initial.items():
            if nme not in env.dest_names and obs.get(nme) != v:
                raise Violation(f"{where}: unrelated file {nme!r} changed", c, "nonio-bystander")
        left = sorted(x for x in obs if x not in env.initial and x not in env.dest_names)
        if left:
            raise Violation(f"{where}: temp file(s) {left} left behind by the failed write", c, "nonio-leftover")
        cur = obs.get(d.name)
        content = None if cur is None else cur[0]
        if res.outcome == "exc" and content != d.old:
            raise Violation(f"{where}: the call raised but {d.name} no longer holds the complete previous content "
                            f"({_describe(content, d)}, len {None if content is None else len(content)})", c, "nonio-partial")
        if res.outcome == "ok" and d.old and content is not None and len(content) < len(d.old) and d.old.startswith(content):
            raise Violation(f"{where}: {d.name} holds the old content cut short", c, "nonio-partial")
        if rec is not None:
            rec.case(nontrivial=True, dig=digest(case), labels=[f"nonio.target={t}", f"nonio.why={why}",
                                                                f"outcome={res.outcome}"],
                     sample={"target": t, "why": why, "prefix": n, "outcome": res.outcome, "exc": res.exc and res.exc["type"]})
    finally:
        env.close()


def sub_kernel(rec, seed, shard, nshards, targets=("bytes", "json", "snapshot", "full", "jsonl")):
    k = 0
    for t, why in (("json", "object"), ("json", "surrogate"), ("text", "surrogate"), ("jsonl", "object"),
                   ("jsonl", "surrogate"), ("jsonl", "iterator")):
        for old, prefix in ((_g(3000, 81, "ascii"), 400), (None, 3)):
            k += 1
            if k % nshards != shard:
                continue
            try:
                nonio_case({"target": t, "why": why, "old": old, "prefix": prefix}, rec)
            except Violation as v:
                rec.violation(v.message, v.case, v.sig)
                return
    for ti, t in enumerate(targets):
        style = "binary" if t == "bytes" else "unicode"
        for kind, fault in (("dir", None), ("symlink", None), ("symlink", "rlimit:100"), ("dangling", None),
                            ("symlink", "kills"), ("dangling", "rlimit:1")):
            k += 1
            if k % nshards != shard:
                continue
            case = {"target": t, "destkind": kind, "old": _g(2000, 61 + ti, style), "new": _g(900, 71 + ti, style),
                    "fault": fault}
            try:
                kernel_case(case, rec)
            except Violation as v:
                rec.violation(v.message, v.case, v.sig)
                return


def replay_kernel(case):
    if "why" in case:
        return nonio_case(case, None)
    kernel_case(case, None)


# ------------------------------------------------------------------------------------------------ sub-check: readers


def _reader_loop(path: str, a: bytes, b: bytes, stop: Callable[[], bool], out: dict,
                 extra: Optional[List[Tuple[str, List[bytes]]]] = None) -> None:
    """`extra`: further destinations of the same write (sidecars) with their allowed complete contents."""
    reads = na = nb = switches = 0
    last = None
    bad = None
    while not stop():
        for xp, allowed in extra or ():
            try:
                with open(xp, "rb") as f:
                    xd = f.read()
            except FileNotFoundError:
                bad = {"kind": "absent", "file": os.path.basename(xp), "read_no": reads}
                break
            if xd not in allowed:
                bad = {"kind": "prefix" if any(x.startswith(xd) for x in allowed) else "mixed",
                       "file": os.path.basename(xp), "len": len(xd), "read_no": reads}
                break
        if bad:
            break
        try:
            with open(path, "rb") as f:
                data = f.read()
        except FileNotFoundError:
            bad = {"kind": "absent", "read_no": reads}
            break
        reads += 1
        if data == a:
            cur = "A"
            na += 1
        elif data == b:
            cur = "B"
            nb += 1
        else:
            pa = "prefix-of-A" if a.startswith(data) else ("prefix-of-B" if b.startswith(data) else "mixed")
            bad = {"kind": pa, "len": len(data), "read_no": reads}
            break
        if last is not None and cur != last:
            switches += 1
        last = cur
    out.update({"reads": reads, "A": na, "B": nb, "switches": switches, "bad": bad})


def readers_case(case: dict, rec) -> None:
    """case: {"target", "a": spec, "b": spec, "rounds": int}"""
    t = case["target"]
    ea = prepare({"target": t, "old": None, "new": case["a"], "perm": 0o644, "pathstyle": "str"}, base_dir=None)
    rpid = None
    try:
        eb = prepare({"target": t, "old": None, "new": case["b"], "perm": 0o644, "pathstyle": "str"}, base_dir=None)
        try:  # B only supplies its reference content and a writer re-pointed at A's work directory
            contents = [ea.dests[0].new, eb.dests[0].new]
            extra = [(os.path.join(ea.w, da.name), [da.new, db.new]) for da, db in zip(ea.dests[1:], eb.dests[1:])]
            call_b = _retarget(eb, ea)
        finally:
            eb.close()
        call_a = ea.call
        if t == "jsonl":
            os.environ["CLEMATIS_LOG_DIR"] = ea.w
        dest = os.path.join(ea.w, ea.dests[0].name)
        call_a()
        if _read(dest) != contents[0]:
            raise Violation(f"readers/{t}: fault-free write did not produce the expected content", case, "baseline")
        ctl_r, ctl_w = os.pipe()
        res_r, res_w = os.pipe()
        rpid = os.fork()
        if rpid == 0:
            code = 70
            try:
                os.close(ctl_w)
                os.close(res_r)
                out: dict = {}
                _reader_loop(dest, contents[0], contents[1], lambda: bool(select.select([ctl_r], [], [], 0)[0]), out,
                             extra)
                os.write(res_w, json.dumps(out).encode())
                code = 0
            finally:
                os._exit(code)
        os.close(ctl_r)
        os.close(res_w)
        stop_flag = {"v": False}
        tout: dict = {}
        th = threading.Thread(target=_reader_loop,
                              args=(dest, contents[0], contents[1], lambda: stop_flag["v"], tout, extra))
        th.start()
        werr = None
        try:
            for i in range(int(case["rounds"])):
                (call_b if i % 2 == 0 else call_a)()
        except Exception as e:  # the writer must not fail on an undisturbed file system
            werr = e
        finally:
            stop_flag["v"] = True
            th.join()
            os.close(ctl_w)
            chunks = []
            while True:
                bts = os.read(res_r, 65536)
                if not bts:
                    break
                chunks.append(bts)
            os.close(res_r)
            _, status = os.waitpid(rpid, 0)
            rpid = None
        if werr is not None:
            raise Violation(f"readers/{t}: writer raised {type(werr).__name__}: {werr}", case, "readers-writer-raised")
        if os.waitstatus_to_exitcode(status) != 0:
            raise RuntimeError(f"reader process failed: status {status}")
        pout = json.loads(b"".join(chunks))
        for who, o in (("thread", tout), ("process", pout)):
            if o.get("bad"):
                kind = o["bad"]["kind"]
                raise Violation(f"readers/{t}: concurrent reader {who} observed a {kind} destination "
                                f"({o['bad']}; |A|={len(contents[0])}, |B|={len(contents[1])}) after {o['reads']} reads",
                                case, "reader-absent" if kind == "absent" else "reader-partial")
        final = _read(dest)
        n_rounds = int(case["rounds"])
        want = contents[0] if n_rounds == 0 or (n_rounds - 1) % 2 == 1 else contents[1]
        if final != want:
            raise Violation(f"readers/{t}: final content is not the last one written", case, "readers-final")
        extra = sorted(set(os.listdir(ea.w)) - set(ea.initial) - ea.dest_names)
        if extra:
            raise Violation(f"readers/{t}: temp files left after undisturbed writes: {extra}", case, "leftover:ok")
        if rec is not None:
            both = (tout["A"] > 0 and tout["B"] > 0) or (pout["A"] > 0 and pout["B"] > 0)
            rec.case(nontrivial=both, dig=digest(case), labels=[f"target={t}", "both-seen" if both else "one-seen"],
                     sample={"target": t, "rounds": case["rounds"], "lenA": len(contents[0]), "lenB": len(contents[1]),
                             "thread": {k: tout[k] for k in ("reads", "A", "B", "switches")},
                             "process": {k: pout[k] for k in ("reads", "A", "B", "switches")}})
            rec.label("reads.thread", tout["reads"])
            rec.label("reads.process", pout["reads"])
            rec.label("switches_seen", tout["switches"] + pout["switches"])
    finally:
        if rpid is not None:
            try:
                os.kill(rpid, 9)
            except OSError:
                pass
            os.waitpid(rpid, 0)
        ea.close()


def _retarget(eb: Env, ea: Env) -> Callable[[], Any]:
    """B's writer pointed at A's work directory (same destination name by construction)."""
    case = dict(eb.case)
    import importlib
    A = importlib.import_module(A_MOD)
    t = case["target"]
    if t in ("bytes", "text", "json"):
        arg, _ = materialize_simple(t, case["new"])
        fn = {"bytes": A.atomic_write_bytes, "text": A.atomic_write_text, "json": A.atomic_write_json}[t]
        path = os.path.join(ea.wdir, ea.dests[0].name)
        return lambda: fn(path, arg)
    if t == "snapshot":
        from clematis.engine import snapshot as S
        st, etag, dl = _state(case["new"])
        ctx = SimpleNamespace(cfg=None, config={"t4": {"snapshot_dir": ea.wdir}}, agent_id="a1", turn_id=7)
        return lambda: S.write_snapshot(ctx, st, etag, applied=len(dl), deltas=dl)
    if t in ("delta", "full", "fullz"):
        from clematis.engine import snapshot as S
        p = _payload(case["new"])
        call = lambda: S.write_snapshot_auto(ea.wdir, etag_from="e1", etag_to="e2", payload=p, delta_mode=(t == "delta"),  # noqa: E731
                                             compression="zstd" if t == "fullz" else "none")
        return _quiet_stderr(call) if t == "fullz" else call
    if t == "jsonl":
        from clematis.io import log as L
        recs = _records(case["new"])

        def call():
            os.environ["CLEMATIS_LOG_DIR"] = ea.wdir
            L.rewrite_jsonl("t1.jsonl", recs)
        return call
    raise ValueError(t)


# ------------------------------------------------------------------------------------------------ sub-check: writers


def writers_case(case: dict, rec) -> None:
    """Two writers to the SAME destination, interleaved deterministically at every I/O call boundary.
    case: {"target", "old": spec|None, "a": spec, "b": spec, "pause": [indices]|None}.  Writer A (process-wide proxies,
    forked) is stopped before its step i; writer B (this process, undisturbed) then performs a complete write; A goes
    on.  No fault is injected.  Oracle: when B has returned every destination holds exactly B's content; at the end
    every destination holds completely A's, B's or the old content (A's or B's when both calls returned); nothing else
    in the directory changed and no temp file is left."""
    t = case["target"]
    ea = prepare({"target": t, "old": case.get("old"), "new": case["a"], "perm": 0o644, "pathstyle": "str",
                  "scope": "global", "age": case.get("age")})
    try:
        eb = prepare({"target": t, "old": None, "new": case["b"], "perm": 0o644, "pathstyle": "str"})
        try:
            b_new = {d.name: d.new for d in eb.dests}
            call_b = _retarget(eb, ea)
        finally:
            eb.close()
        base = baseline(ea)
        steps = [op for op, _d, _p in base.steps]
        idxs = case.get("pause")
        if idxs is None:
            idxs = step_sample(len(steps), 60)
        if rec is not None:
            rec.note(f"steps.{t}", steps)
        for i in idxs:
            if not 0 <= i < len(steps):
                continue
            c = dict(case, pause=[i])
            where = f"writers/{t}: writer A stopped before step {i}:{steps[i]}, writer B wrote completely, A resumed"
            at_pause: Dict[str, Any] = {}

            def on_pause():
                try:
                    call_b()
                    at_pause["b"] = "ok"
                except Exception as e:  # noqa: BLE001 - judged below: B raising is no violation by itself
                    at_pause["b"] = f"raised {type(e).__name__}: {e}"
                at_pause["obs"] = ea.observe()

            res, paused = run_child(ea.call, install_global, root=ea.root, pause_at=i, on_pause=on_pause)
            obs = ea.observe()
            try:
                if not paused:
                    raise RuntimeError(f"{where}: the pause point was not reached ({res.trace()})")
                allowed = {d.name: {"A": d.new, "B": b_new[d.name], "old": d.old} for d in ea.dests}
                for phase, o in (("while A was stopped, after B returned", at_pause["obs"]), ("at the end", obs)):
                    for n, v in ea.initial.items():
                        if n not in ea.dest_names and o.get(n) != v:
                            raise Violation(f"{where}: {phase} the unrelated file {n!r} had changed", c, "writers-bystander")
                    for d in ea.dests:
                        cur = o.get(d.name)
                        content = None if cur is None else cur[0]
                        who = [k for k, v in allowed[d.name].items() if v == content]
                        if not who:
                            lens = {k: (None if v is None else len(v)) for k, v in allowed[d.name].items()}
                            raise Violation(f"{where}: {phase} {d.name} holds neither writer's complete content nor the "
                                            f"old one (len {None if content is None else len(content)}; {lens}; A "
                                            f"{res.outcome}, B {at_pause['b']})", c, "writers-mixed")
                        if phase.startswith("while") and at_pause["b"] == "ok" and "B" not in who:
                            raise Violation(f"{where}: B returned normally but {d.name} does not hold B's content "
                                            f"(holds {who})", c, "writers-b-lost")
                        if phase == "at the end" and at_pause["b"] == "ok" and res.outcome == "ok" and who == ["old"] \
                                and d.old not in (d.new, b_new[d.name]):
                            raise Violation(f"{where}: both writers returned normally but {d.name} still holds the old "
                                            f"content", c, "writers-both-lost")
                left = sorted(n for n in obs if n not in ea.initial and n not in ea.dest_names)
                if left:
                    raise Violation(f"{where}: temp file(s) {left} left behind although no writer was killed (A "
                                    f"{res.outcome}, B {at_pause['b']})", c, "writers-leftover")
                if rec is not None:
                    final = "+".join(sorted({k for d in ea.dests for k, v in allowed[d.name].items()
                                             if obs.get(d.name) is not None and v == obs[d.name][0] and k != "old"}))
                    rec.case(nontrivial=True, dig=digest([t, i, size_class(case["a"]), size_class(case["b"]),
                                                          case["a"]["size"] < case["b"]["size"]]),
                             labels=[f"target={t}", f"pause-op={steps[i]}", f"A={res.outcome}",
                                     f"B={at_pause['b'].split(':')[0]}", f"final={final}",
                                     "A-shorter" if case["a"]["size"] < case["b"]["size"] else "A-longer"],
                             sample={"target": t, "pause_before": f"{i}:{steps[i]}", "A": res.outcome, "B": at_pause["b"],
                                     "final": final} if i % 7 == 3 else None)
            finally:
                ea.reset(ea.observe())
    finally:
        ea.close()


def sub_writers(rec, seed, shard, nshards, targets=("bytes", "snapshot", "jsonl", "delta")):
    rng = random.Random(seed)
    k = 0
    for t in targets:
        style = "binary" if t == "bytes" else "crlf"
        for sizes in ((900, 70_000), (70_000, 900)):
            sa, sb, so = rng.randrange(1 << 16), rng.randrange(1 << 16), rng.randrange(1 << 16)
            k += 1
            if k % nshards != shard:
                continue
            case = {"target": t, "old": _g(333, so, style), "a": _g(sizes[0], sa, style), "b": _g(sizes[1], sb, style),
                    "pause": None, "age": 7200 if sizes[0] < sizes[1] else None}
            try:
                writers_case(case, rec)
            except Violation as v:
                rec.violation(v.message, v.case, v.sig)
                return


def replay_writers(case):
    writers_case(case, None)


def sub_readers(rec, seed, shard, nshards, rounds=200, per_target=1):
    rng = random.Random(seed)
    k = 0
    for t in ("bytes", "text", "json", "snapshot", "delta", "jsonl"):
        for j in range(per_target):
            k += 1
            sa, sb = rng.randrange(1 << 16), rng.randrange(1 << 16)
            sizes = [(BIG, 3000), (BIG, BIG + 4096), (70_000, BIG)][(k + j) % 3]
            if k % nshards != shard:
                continue
            style = "binary" if t == "bytes" else "crlf"
            case = {"target": t, "a": _g(sizes[0], sa, style), "b": _g(sizes[1], sb, style), "rounds": rounds}
            try:
                readers_case(case, rec)
            except Violation as v:
                rec.violation(v.message, v.case, v.sig)
                return


def replay_readers(case):
    # schedules are sampled: repeat a few times so a saved failure has a fair chance to show again
    for _ in range(5):
        readers_case(case, None)


# ------------------------------------------------------------------------------------------------ known-finding probes


def probe_short_write() -> bool:
    """True while a short raw write still yields a truncated destination with a normal return (proxy + real kernel)."""
    for fn in (lambda: replay_fault({"target": "bytes", "old": _g(50, 1, "ascii"), "new": _g(4000, 2, "ascii"), "perm": 0o644,
                                     "pathstyle": "str", "step": 4, "fault": "short"}),
               lambda: _rlimit_one({"target": "bytes", "old": None, "new": _g(BIG, 2, "ascii"), "perm": 0o644,
                                    "pathstyle": "str"}, 100_000, None)):
        try:
            fn()
        except Violation as v:
            if v.sig == "short-write":
                return True
            # anything else is not this finding: the search itself reports it
    return False


def probe_tmp_close() -> bool:
    case = {"target": "bytes", "old": _g(50, 1, "ascii"), "new": _g(60, 2, "ascii"), "perm": 0o644, "pathstyle": "str"}
    env = prepare(case)
    try:
        base = baseline(env)
        idx = [k for k, s in enumerate(base.steps) if s[0] == "tmpf.close"]
        if not idx:
            return False
        try:
            inject(env, base, idx[0], "raise:EIO", None)
        except Violation as v:
            return v.sig == "tmp-close-leak"  # anything else is not this finding: the search itself reports it
        return False
    except Violation:
        return False
    finally:
        env.close()


KNOWN_PROBES = {KNOWN_SHORT: probe_short_write, KNOWN_TMPCLOSE: probe_tmp_close}

SUBCHECKS = [
    Sub("faults", sub_faults, quick={"depth": "quick"}, thorough={"depth": "thorough"}, shards_quick=6, shards_thorough=16,
        exhaustive=True, replay=replay_fault),
    Sub("gen", sub_gen, quick={"n": 3, "shrink": False}, thorough={"n": 18, "shrink": True}, shards_quick=2,
        shards_thorough=12, exhaustive=True, replay=replay_fault),
    Sub("anywhere", sub_anywhere, quick={"depth": "quick"}, thorough={"depth": "thorough"}, shards_quick=2,
        shards_thorough=8, exhaustive=True, replay=replay_fault),
    Sub("writers", sub_writers, quick={}, thorough={"targets": tuple(ALL_TARGETS)}, shards_quick=1, shards_thorough=4,
        exhaustive=True, replay=replay_writers),
    Sub("kernel", sub_kernel, quick={}, thorough={"targets": tuple(ALL_TARGETS)}, shards_quick=1, shards_thorough=2,
        exhaustive=False, replay=replay_kernel),
    Sub("rlimit", sub_rlimit, quick={}, thorough={}, shards_quick=1, shards_thorough=4, exhaustive=False,
        replay=replay_fault),
    Sub("readers", sub_readers, quick={"rounds": 200, "per_target": 1}, thorough={"rounds": 3000, "per_target": 3},
        shards_quick=2, shards_thorough=6, exhaustive=False, replay=replay_readers),
]
