#!/usr/bin/env python3
"""Regenerates MANIFEST.json from the table below (kept in one place so it stays valid)."""
import json
import os

HERE = os.path.dirname(os.path.dirname(os.path.abspath(__file__)))

# id -> (level, technique, level text, level note, design ref)
CHECKS = {
    "C03": ("exploration",
            "Hypothesis property test against an exact-rational reference pipeline + metamorphic permutation/purity relations",
            "Generated search (thousands of delta multisets with forced duplicates, boundary caps, cooldown histories) against "
            "an independent exact-rational reference of the documented pipeline plus envelope predicates and permutation "
            "invariance. Bounded by case count; does not prove absence outside generated sizes (<=15 deltas, 5 targets).",
            "Trusted: the reference pipeline in checks/c03.py (written from the docstring/statement); finite deltas |x|<=1e300.",
            "DESIGN.md §3 C03"),
    "C12": ("exploration",
            "Hypothesis property test: exact differential against an independent reference propagator + budget/reachability predicates + metamorphic decomposition over graphs",
            "Generated worlds (1-4 graphs with cycles, self-loops, parallel edges, negative/zero weights, unknown relations, tags; "
            "texts biased to seed labels; T1 config surface incl. caps 0/1/tight/loose, slice caps, perf caps) checked against a "
            "reference propagator written from the documented rule (ids and all six counters exactly), per-graph budget and "
            "reachability predicates, decomposition over graphs, purity and store immutability. Bounded by case count and graph size (<=8 nodes).",
            "Trusted: harness/models/t1.py (documented rule); exact differential only when perf caps are off.",
            "DESIGN.md §3 C12"),
    "C04": ("exploration",
            "Hypothesis property test of apply_changes against a recording store double + reference model, and generated turn histories through the real orchestrator with per-turn invariants",
            "(a) generated approved lists x store behaviour scripts (result shapes, 6 exception types, per-delta raise patterns, "
            "missing batch API / store) x versions x turn ids x cadence x cache-bust settings with a preloaded CacheManager, checked "
            "against a reference model of the documented contract (call log, exactly-once, version+1, cadence, invalidation counts, "
            "never raises); (b) 3-8 turn histories through Orchestrator.run_turn with kill switch toggles, store faults and injected "
            "deltas: store receives exactly what the meta-filter approved, version/log/snapshot discipline, kill-switch inertness.",
            "Trusted: all-or-nothing store double; the cadence rule int(turn) % n == 0 from apply.py's docstring.",
            "DESIGN.md §3 C04"),
    "C05": ("exploration",
            "Hypothesis rule-based state machine, differential: cached engine vs cache-free twin over identical worlds, compared after every turn",
            "Stateful differential over histories of turns (2 agents, 4 texts, 2-5 recurring config variants incl. perf gate open/closed "
            "with caps kept, now advances across the recency boundary), graph upserts (new ids and same-count edits), memory additions, "
            "kill-switch toggles and switches between two same-shaped engine states living in one process; the (t1, t2) each turn "
            "really used (observed at health.check_and_log, so turn-level cache hits are seen) and the utterance must equal the "
            "cache-free twin's; agent-scope owner isolation asserted directly. Cache configs: stage LRU, perf byte caches, turn-level manager.",
            "Trusted: cache-free twin as oracle (same code, caches off); TTL expiry not exercised.",
            "DESIGN.md §3 C05"),
    "C11": ("exploration",
            "Hypothesis property test: envelope predicates + exact differential against a float64 reference retrieval on well-separated cases + metamorphic rerank-off relation",
            "Generated memories (owners, timestamps around the recency window, clusters, importance, bag-of-words/explicit/zero/missing "
            "vectors), queries, validated t2 configs (k, threshold, tiers, ranking weights, owner scope, hybrid/quality/MMR) and GEL "
            "edges; checks k/distinct/owner scope/threshold/tier pools/score agreement/documented order on every case, exact ids+order "
            "against an independent float64 reference when no score lies in the 1e-6 float32 band, rerank layers as pure permutations "
            "(same case with layers off) and residual nudges (existing node, label in a used hit, caps).",
            "Trusted: harness/models/t2.py; float32-vs-float64 band 1e-6; in-memory backend only (lancedb is not installed).",
            "DESIGN.md §3 C11"),
}

NOT_APPLICABLE = {
}

ALL = [f"C{i:02d}" for i in range(1, 21)]


def main():
    checks = []
    for pid in ALL:
        if pid not in CHECKS:
            continue
        level, tech, text, note, ref = CHECKS[pid]
        checks.append({
            "property_id": pid,
            "quick_cmd": f"./vcheck run {pid} --tier quick",
            "thorough_cmd": f"./vcheck run {pid} --tier thorough",
            "evidence_file": f"/verif/evidence/{pid}.json",
            "replay_cmd_template": f"./vcheck replay {pid} {{path}}",
            "engine": "vcheck",
            "level_claimed": {"category": level, "text": text, "design_ref": ref},
            "level_note": note,
            "technique": tech,
        })
    na = []
    for pid in ALL:
        if pid in CHECKS:
            continue
        reason = NOT_APPLICABLE.get(pid, "check not built yet in this session (planned, see DESIGN.md §3); the technique applies")
        na.append({"property_id": pid, "reason": reason})
    man = {
        "version": 1,
        "setup_cmd": "./setup.sh",
        "hooks": {
            "guard": "CLEMATIS3_VERIF",
            "enable": "no source hooks: checks import /repo's working tree directly (PYTHONPATH=/repo, fresh interpreter per shard) "
                      "and patch module attributes from outside",
            "baseline_off_cmd": "cd /repo && /venv/bin/python -m pytest -ra -q -p no:cacheprovider --timeout=900 --continue-on-collection-errors",
            "source_commits": [],
            "add_only": True,
        },
        "engines": [{"name": "vcheck", "path": "/verif/vcheck", "serves_properties": sorted(CHECKS),
                     "kind_free_text": "Hypothesis strategies / rule-based state machines, exhaustive small-space enumeration, "
                                       "fault-point enumeration and atheris byte fuzzing, sharded over fresh interpreters; "
                                       "explicit oracles (reference models, round-trips, differential/metamorphic relations)"}],
        "checks": checks,
        "not_applicable": na,
        "notes": "Every check: exit 0 held / 1 with 'VIOLATION property=<id> replay=<path>' / 2 harness error. "
                 "Known findings: /verif/known_findings.json. Replays of failing runs land in /verif/out/replays/<id>/; "
                 "committed regression replays in /verif/replays/<id>/ are re-executed first on every run.",
    }
    with open(os.path.join(HERE, "MANIFEST.json"), "w") as f:
        json.dump(man, f, indent=1)
        f.write("\n")
    try:
        import jsonschema
        jsonschema.validate(man, json.load(open("/root/.vp/MANIFEST.schema.json")))
        print("MANIFEST.json valid;", len(checks), "checks,", len(na), "not_applicable")
    except ImportError:
        print("written (jsonschema not importable, not validated)")


if __name__ == "__main__":
    main()
