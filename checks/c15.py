"""C15 — bounded caches never exceed capacity and evict deterministically.

Sub-checks
  exhaustive : breadth-first closure over reachable (reference model, implementation) states for every container
               and every small configuration; every operation of a small alphabet is applied in every reachable
               state and compared with the reference model (return value, eviction report, sizes, LRU->MRU order,
               membership, stats) plus the structural invariants (bounds, byte accounting, disabled when 0).
  machines   : Hypothesis RuleBasedStateMachine per container, long random sequences, larger alphabets, injected clock.
  threads    : real threads on ThreadSafeCache(LRUCache) / ThreadSafeBytesCache(LRUBytes) with a tiny switch interval
               and a settrace hook that yields the GIL at generated lines inside the container code. Oracles are
               schedule independent: no exception, structural consistency, bounds, no lost update, counter totals,
               and (small histories) a linearizability search against the reference model.
  merge      : merge_caches_deterministic vs the reference merge, independence of the worker *list* order,
               assert_equal raises exactly on conflicts, workers untouched.

Reference models: harness/models/lru.py (ordered lists written from the docstrings).
"""
from __future__ import annotations

import itertools
import random
import sys
import threading
import time

from harness.runner import Sub, Violation, run_hypothesis, run_machine, digest
from harness.models.lru import (Conflict, RefCacheManager, RefDetLRU, RefFIFOSet, RefLRUBytes, RefLRUCache, RefRing,
                                RefTTL, Undefined, ref_merge, stable)

LEVEL = "exploration"
RULE = ("exhaustive: every (reachable state, operation) pair of each container/configuration over keys {a,b,c[,d]}, "
        "costs {0,1,2,5,-1}, capacities {0..3}, byte caps {0,3,5}, TTL {0,2} with clock advances {0.75,3}; distinct by "
        "construction (memoised on model+implementation state); non-trivial = the operation evicts / expires / is "
        "rejected as oversize, or it starts from a state where a bound is tight (container full or holding an expired entry). machines: Hypothesis rule-based sequences (<=200 steps, 8 keys, "
        "larger caps/costs, unhashable keys for the TTL caches); non-trivial = >=1 eviction or expiry; distinct = "
        "digest(config, op list). threads: generated per-thread programmes; non-trivial = >=2 threads touch a common "
        "key; distinct = digest(programme). merge: generated worker caches; non-trivial = >=2 workers share a key.")
ASSUMPTIONS = [
    "reference models in harness/models/lru.py are the documented semantics (docstrings, docs/m9/cache_safety.md)",
    "LRUBytes: a single zero cap means that dimension is unbounded; only both caps zero disables (docstring + the "
    "stages' `max_entries > 0 or max_bytes > 0` construction guard)",
    "negative byte costs are undocumented: only the structural invariants are required for such a put, the model "
    "then resynchronises on the observed contents; negative capacities are outside the validated config domain",
    "TTL is lazy (applied on reads, as documented); the undocumented boundary age == ttl is never generated "
    "(clock advances are multiples of 0.75, ttls are not multiples of 3)",
    "CacheManager.max_entries bounds each namespace separately (_NamespaceCache: 'Per-namespace LRU cache')",
    "DedupeRing.discard: exact membership only for the first discard of a key; afterwards only contains => "
    "physically in the window, refcount <= physical count, len <= k (documentation does not define more)",
    "thread sub-check samples OS schedules (perturbed by a settrace GIL-yield hook); its oracles hold for every "
    "linearizable execution, so they cannot flake, but absence of a race is only evidence, not proof",
    "the memoisation key reads private fields (_q,_map,_bytes,_d,_set,_ref) only to identify implementation states",
]


class Mismatch(Exception):
    def __init__(self, msg: str, sig: str):
        super().__init__(msg)
        self.msg = msg
        self.sig = sig


def _eq(what: str, got, want, sig: str):
    if got != want:
        raise Mismatch(f"{what}: implementation {got!r}, reference model {want!r}", sig)


class Clock:
    """The injected clock. It starts at logical time 0.0 (a turn's `now` may be the epoch) and is handed to the
    containers through the engine's own injection helper, clematis.engine.cache.logical_time_fn(holder); the reference
    models read the holder directly (`ref_time`), so the helper is under test as well."""

    def __init__(self, t0: float = 0.0):
        from clematis.engine.cache import logical_time_fn

        self.holder = {"now_s": t0}
        self.time = logical_time_fn(self.holder)

    @property
    def t(self) -> float:
        return self.holder["now_s"]

    @t.setter
    def t(self, v: float) -> None:
        self.holder["now_s"] = v

    def ref_time(self) -> float:
        return float(self.holder["now_s"])


# =================================================================================================
# pairs: implementation + reference model driven in lock step
# =================================================================================================


class PairBase:
    family = ""

    def __init__(self, cfg):
        self.cfg = cfg
        self.flags = set()  # 'evict', 'expire', 'reject', 'undefined', ...
        self.universe = list(cfg.get("keys", []))

    def _see(self, k):
        if k not in self.universe:
            self.universe.append(k)

    def step(self, op, check=True):
        raise NotImplementedError

    def state_key(self):
        raise NotImplementedError

    def pressure(self) -> bool:
        """A bound is tight in the current (model) state: full container, or an expired entry waiting to be pruned."""
        raise NotImplementedError


# ------------------------------------------------------------------------------- LRUBytes


class PBytes(PairBase):
    family = "lrubytes"

    def __init__(self, cfg):
        super().__init__(cfg)
        from clematis.engine.util.lru_bytes import LRUBytes

        self.ev = []
        self.impl = LRUBytes(cfg["me"], cfg["mb"], on_evict=lambda k, v, c: self.ev.append((k, v, c)))
        self.ref = RefLRUBytes(cfg["me"], cfg["mb"])

    def invariants(self):
        c, me, mb = self.impl, self.cfg["me"], self.cfg["mb"]
        n, b = len(c), c.size_bytes()
        if me > 0 and n > me:
            raise Mismatch(f"{n} entries exceed max_entries={me}", "bound-entries")
        if mb > 0 and b > mb:
            raise Mismatch(f"{b} bytes exceed max_bytes={mb}", "bound-bytes")
        if b < 0:
            raise Mismatch(f"size_bytes() is negative: {b}", "bytes-negative")
        costs = sum(cost for _, cost in c._map.values())
        if b != costs:
            raise Mismatch(f"size_bytes()={b} but stored costs sum to {costs}", "bytes-accounting")
        if len(c._q) != len(c._map) or set(c._q) != set(c._map):
            raise Mismatch(f"recency queue {list(c._q)!r} and map keys {sorted(c._map, key=repr)!r} disagree", "structure")
        if me == 0 and mb == 0 and (n != 0 or b != 0):
            raise Mismatch(f"disabled cache (both caps 0) stores {n} entries / {b} bytes", "disabled")

    def observe(self):
        c, r = self.impl, self.ref
        _eq("len()", len(c), len(r), "len")
        _eq("size_entries()", c.size_entries(), len(r), "len")
        _eq("size_bytes()", c.size_bytes(), r.total(), "bytes")
        _eq("keys() LRU->MRU", list(c.keys()), r.keys(), "order")
        _eq("items() LRU->MRU", list(c.items()), r.items(), "order")
        for k in self.universe + ["?"]:
            _eq(f"contains({k!r})", c.contains(k), r.contains(k), "contains")
            _eq(f"{k!r} in cache", k in c, r.contains(k), "contains")

    def step(self, op, check=True):
        c, r = self.impl, self.ref
        name = op[0]
        labels = []
        del self.ev[:]
        del r.evictions[:]
        if name == "put":
            _, k, v, cost = op
            self._see(k)
            got = c.put(k, v, cost)
            try:
                want = r.put(k, v, cost)
            except Undefined:
                # documentation does not define a negative cost: invariants only, then adopt the observed contents
                self.flags.add("undefined")
                labels.append("undefined-cost")
                if check:
                    self.invariants()
                r.order = [[kk, c._map[kk][0], c._map[kk][1]] for kk in c.keys()]
                return labels
            if want[0]:
                self.flags.add("evict")
                labels.append("evict" if want[0] == 1 else "evict-multi")
            if r.max_bytes > 0 and cost > r.max_bytes:
                labels.append("reject-oversize")
            if check:
                _eq(f"put({k!r}, cost={cost}) return", got, want, "put-return")
                _eq("eviction report (on_evict calls, in order)", list(self.ev), list(r.evictions), "evict-report")
        elif name == "get":
            k = op[1]
            self._see(k)
            got, want = c.get(k), r.get(k)
            if check:
                _eq(f"get({k!r})", got, want, "get")
        elif name == "clear":
            c.clear()
            r.clear()
        else:
            raise ValueError(op)
        if check:
            self.invariants()
            self.observe()
        return labels

    def state_key(self):
        c = self.impl
        return (tuple(c._q), tuple((k, c._map[k]) for k in c._q if k in c._map), c._bytes, self.ref.snapshot())

    def pressure(self):
        r = self.ref
        return (r.max_entries > 0 and len(r) >= r.max_entries) or (r.max_bytes > 0 and r.total() >= r.max_bytes)


# ------------------------------------------------------------------------------- _NamespaceCache


def _age_class(now, ts, ttl):
    if ttl <= 0:
        return 0
    a = now - ts
    return "x" if a > ttl else a


class PNs(PairBase):
    family = "nscache"

    def __init__(self, cfg):
        super().__init__(cfg)
        from clematis.engine.cache import _NamespaceCache

        self.clock = Clock()
        self.impl = _NamespaceCache(cfg["max"], cfg["ttl"], self.clock.time)
        self.ref = RefTTL(cfg["max"], cfg["ttl"], self.clock.ref_time)

    def invariants(self):
        if self.impl.size() > max(0, self.cfg["max"]):
            raise Mismatch(f"{self.impl.size()} entries exceed max_entries={self.cfg['max']}", "bound-entries")

    def observe(self):
        _eq("size()", self.impl.size(), self.ref.size(), "len")
        _eq("items() oldest->newest", list(self.impl.items()), self.ref.items(), "order")

    def step(self, op, check=True):
        c, r = self.impl, self.ref
        name = op[0]
        labels = []
        if name == "set":
            _, k, v = op
            got, want = c.set(k, v), r.set(k, v)
            if want:
                self.flags.add("evict")
                labels.append("evict")
            if check:
                _eq(f"set({k!r}) evicted count", got, want, "set-return")
        elif name == "get":
            k = op[1]
            nexp = r.n_expired()
            got, want = c.get(k), r.get(k)
            if r.n_expired() < nexp:
                self.flags.add("expire")
                labels.append("expire")
            if check:
                _eq(f"get({k!r})", tuple(got), want, "get")
        elif name == "adv":
            self.clock.t += op[1]
        elif name == "invalidate":
            got, want = c.invalidate(), r.invalidate()
            if check:
                _eq("invalidate()", got, want, "invalidate")
        else:
            raise ValueError(op)
        if check:
            self.invariants()
            self.observe()
        return labels

    def state_key(self):
        now, ttl = self.clock.t, self.cfg["ttl"]
        return (tuple((k, e.value, _age_class(now, e.ts, ttl)) for k, e in self.impl._d.items()), self.ref.snapshot())

    def pressure(self):
        return (self.ref.max > 0 and self.ref.size() >= self.ref.max) or self.ref.n_expired() > 0


# ------------------------------------------------------------------------------- LRUCache


_CTORS = ["ttl_s", "ttl_sec", "ttl", "capacity"]


def _mk_lrucache(cfg, time_fn):
    from clematis.engine.cache import LRUCache

    mx, ttl, ctor = cfg["max"], cfg["ttl"], cfg.get("ctor", "ttl_s")
    if ctor == "ttl_s":
        return LRUCache(max_entries=mx, ttl_s=ttl, time_fn=time_fn)
    if ctor == "ttl_sec":
        return LRUCache(max_entries=mx, ttl_sec=ttl, time_fn=time_fn)
    if ctor == "ttl":
        return LRUCache(max_entries=mx, ttl=ttl, time_fn=time_fn)
    if ctor == "capacity":  # explicit `capacity` is preferred over the default max_entries
        return LRUCache(capacity=mx, ttl_s=ttl, time_fn=time_fn)
    raise ValueError(ctor)


class PLru(PairBase):
    family = "lrucache"

    def __init__(self, cfg):
        super().__init__(cfg)
        self.clock = Clock()
        self.impl = _mk_lrucache(cfg, self.clock.time)
        self.ref = RefLRUCache(cfg["max"], cfg["ttl"], self.clock.ref_time)

    def invariants(self):
        if len(self.impl) > max(0, self.cfg["max"]):
            raise Mismatch(f"{len(self.impl)} entries exceed max_entries={self.cfg['max']}", "bound-entries")

    def observe(self):
        c, r = self.impl, self.ref
        _eq("len()", len(c), r.size(), "len")
        _eq("size()", c.size(), r.size(), "len")
        _eq("stats", dict(c.stats), r.stats(), "stats")
        _eq("entry order oldest->newest (non-pruning snapshot)", list(c._ns.items()), r.ns.items(), "order")

    def step(self, op, check=True):
        c, r = self.impl, self.ref
        name = op[0]
        labels = []
        nexp = r.ns.n_expired()
        if len(op) > 1 and isinstance(op[1], (list, dict)):
            labels.append("unhashable-key")
        if name in ("set", "put"):
            _, k, v = op
            ev0 = r.evicted
            got = getattr(c, name)(k, v)
            r.set(k, v)
            if r.evicted > ev0:
                self.flags.add("evict")
                labels.append("evict")
            if check:
                _eq(f"{name}({k!r}) return", got, None, "set-return")
        elif name == "get":
            k = op[1]
            got, want = c.get(k), r.get(k)
            if check:
                _eq(f"get({k!r})", got, want, "get")
        elif name == "get2":
            k = op[1]
            got, want = c.get2(k), r.get2(k)
            if check:
                _eq(f"get2({k!r})", tuple(got), want, "get")
        elif name == "contains":
            k = op[1]
            got, want = (k in c), r.contains(k)
            if check:
                _eq(f"{k!r} in cache", got, want, "contains")
        elif name == "items":
            got, want = list(c.items()), r.items()
            if check:
                _eq("items() (TTL pruned, oldest->newest)", got, want, "order")
        elif name == "adv":
            self.clock.t += op[1]
        elif name in ("invalidate", "clear"):
            got, want = getattr(c, name)(), r.invalidate()
            if check:
                _eq(f"{name}()", got, want, "invalidate")
        else:
            raise ValueError(op)
        if name in ("get", "get2", "contains", "items") and r.ns.n_expired() < nexp:
            self.flags.add("expire")
            labels.append("expire")
        if check:
            self.invariants()
            self.observe()
        return labels

    def state_key(self):
        now, ttl = self.clock.t, self.cfg["ttl"]
        return (tuple((repr(k), e.value, _age_class(now, e.ts, ttl)) for k, e in self.impl._ns._d.items()),
                self.ref.ns.snapshot())

    def pressure(self):
        r = self.ref.ns
        return (r.max > 0 and r.size() >= r.max) or r.n_expired() > 0


# ------------------------------------------------------------------------------- CacheManager


class PMgr(PairBase):
    family = "manager"

    def __init__(self, cfg):
        super().__init__(cfg)
        from clematis.engine.cache import CacheManager

        self.clock = Clock()
        self.impl = CacheManager(max_entries=cfg["max"], ttl_sec=cfg["ttl"], time_fn=self.clock.time)
        self.ref = RefCacheManager(cfg["max"], cfg["ttl"], self.clock.ref_time)

    def invariants(self):
        for name, ns in self.impl._ns.items():
            if ns.size() > max(0, self.cfg["max"]):
                raise Mismatch(f"namespace {name!r}: {ns.size()} entries exceed max_entries={self.cfg['max']}", "bound-entries")

    def observe(self):
        _eq("stats", dict(self.impl.stats), self.ref.stats(), "stats")
        for name, robj in self.ref.ns:
            iobj = self.impl._ns.get(name)
            _eq(f"namespace {name!r} order oldest->newest", [] if iobj is None else list(iobj.items()), robj.items(), "order")
        extra = [n for n, o in self.impl._ns.items() if o.size() and all(n != m for m, _ in self.ref.ns)]
        if extra:
            raise Mismatch(f"entries in namespaces never written: {extra!r}", "order")

    def step(self, op, check=True):
        c, r = self.impl, self.ref
        name = op[0]
        labels = []
        nexp = sum(o.n_expired() for _, o in r.ns)
        if len(op) > 2 and isinstance(op[2], (list, dict)):
            labels.append("unhashable-key")
        if name == "set":
            _, ns, k, v = op
            ev0 = r.evicted
            got = c.set(ns, k, v)
            r.set(ns, k, v)
            if r.evicted > ev0:
                self.flags.add("evict")
                labels.append("evict")
            if check:
                _eq("set() return", got, None, "set-return")
        elif name == "get":
            _, ns, k = op
            got, want = c.get(ns, k), r.get(ns, k)
            if sum(o.n_expired() for _, o in r.ns) < nexp:
                self.flags.add("expire")
                labels.append("expire")
            if check:
                _eq(f"get({ns!r}, {k!r})", tuple(got), want, "get")
        elif name == "adv":
            self.clock.t += op[1]
        elif name == "inv_ns":
            got, want = c.invalidate_namespace(op[1]), r.invalidate_namespace(op[1])
            if check:
                _eq(f"invalidate_namespace({op[1]!r})", got, want, "invalidate")
        elif name == "inv_all":
            got, want = c.invalidate_all(), r.invalidate_all()
            if check:
                _eq("invalidate_all()", got, want, "invalidate")
        else:
            raise ValueError(op)
        if check:
            self.invariants()
            self.observe()
        return labels

    def state_key(self):
        now, ttl = self.clock.t, self.cfg["ttl"]
        impl = tuple(sorted(((n, tuple((repr(k), e.value, _age_class(now, e.ts, ttl)) for k, e in o._d.items()))
                             for n, o in self.impl._ns.items() if o.size()), key=repr))
        return (impl, self.ref.snapshot())

    def pressure(self):
        return any((o.max > 0 and o.size() >= o.max) or o.n_expired() > 0 for _, o in self.ref.ns)


# ------------------------------------------------------------------------------- lru_det.DeterministicLRU


class PDet(PairBase):
    family = "detlru"

    def __init__(self, cfg):
        super().__init__(cfg)
        from clematis.engine.util.lru_det import DeterministicLRU

        self.ev = []
        self.impl = DeterministicLRU(cfg["cap"], update_on_get=cfg["ug"], update_on_put=cfg["up"],
                                     on_evict=lambda k, v: self.ev.append((k, v)))
        self.ref = RefDetLRU(cfg["cap"], cfg["ug"], cfg["up"])

    def invariants(self):
        c, cap = self.impl, self.cfg["cap"]
        if len(c._map) > max(0, cap):
            raise Mismatch(f"{len(c._map)} entries exceed cap={cap}", "bound-entries")
        if len(c._q) != len(c._map) or set(c._q) != set(c._map):
            raise Mismatch(f"recency queue {list(c._q)!r} and map keys {sorted(c._map, key=repr)!r} disagree", "structure")

    def observe(self):
        c, r = self.impl, self.ref
        _eq("len()", len(c), len(r), "len")
        _eq("items() LRU->MRU", list(c.items()), r.items(), "order")
        for k in self.universe + ["?"]:
            _eq(f"{k!r} in cache", k in c, r.contains(k), "contains")
            _eq(f"contains({k!r})", c.contains(k), r.contains(k), "contains")

    def step(self, op, check=True):
        c, r = self.impl, self.ref
        name = op[0]
        labels = []
        del self.ev[:]
        if name == "put":
            _, k, v = op
            self._see(k)
            got, want = c.put(k, v), r.put(k, v)
            if want is not None:
                self.flags.add("evict")
                labels.append("evict")
            if check:
                _eq(f"put({k!r}) evicted", got, want, "put-return")
                _eq("eviction report (on_evict calls)", list(self.ev), [] if want is None else [want], "evict-report")
        elif name == "get":
            k = op[1]
            self._see(k)
            got, want = c.get(k), r.get(k)
            if check:
                _eq(f"get({k!r})", got, want, "get")
        elif name == "getd":
            _, k, d = op
            self._see(k)
            got, want = c.get(k, d), r.get(k, d)
            if check:
                _eq(f"get({k!r}, default={d!r})", got, want, "get")
        elif name == "pop":
            got, want = c.pop_lru(), r.pop_lru()
            if want is not None:
                labels.append("pop")
            if check:
                _eq("pop_lru()", got, want, "pop")
                if list(self.ev) not in ([], [want]):
                    raise Mismatch(f"pop_lru() reported evictions {self.ev!r} but removed {want!r}", "evict-report")
        elif name == "clear":
            c.clear()
            r.clear()
        else:
            raise ValueError(op)
        if check:
            self.invariants()
            self.observe()
        return labels

    def state_key(self):
        c = self.impl
        return (tuple(c._q), tuple((k, c._map[k]) for k in c._q if k in c._map), self.ref.snapshot())

    def pressure(self):
        return self.ref.cap > 0 and len(self.ref.order) >= self.ref.cap


# ------------------------------------------------------------------------------- FIFO sets


class PSet(PairBase):
    family = "fifoset"  # lru_det.DeterministicLRUSet; subclass below for ring.DeterministicLRU

    def _cls(self):
        from clematis.engine.util.lru_det import DeterministicLRUSet

        return DeterministicLRUSet

    def __init__(self, cfg):
        super().__init__(cfg)
        self.impl = self._cls()(cfg["cap"])
        self.ref = RefFIFOSet(cfg["cap"])

    def invariants(self):
        c, cap = self.impl, self.cfg["cap"]
        if len(c) > max(0, cap):
            raise Mismatch(f"{len(c)} members exceed cap={cap}", "bound-entries")
        if len(c._q) != len(c._set) or set(c._q) != set(c._set):
            raise Mismatch(f"queue {list(c._q)!r} and member set {sorted(c._set, key=repr)!r} disagree", "structure")

    def observe(self):
        c, r = self.impl, self.ref
        _eq("size()", c.size(), r.size(), "len")
        _eq("len()", len(c), r.size(), "len")
        for k in self.universe + ["?"]:
            _eq(f"contains({k!r})", c.contains(k), r.contains(k), "contains")
            _eq(f"{k!r} in set", k in c, r.contains(k), "contains")

    def step(self, op, check=True):
        c, r = self.impl, self.ref
        name = op[0]
        labels = []
        if name == "add":
            k = op[1]
            self._see(k)
            got, want = c.add(k), r.add(k)
            if want:
                self.flags.add("evict")
                labels.append("evict")
            if check:
                _eq(f"add({k!r}) evicted?", got, want, "add-return")
        elif name == "clear":
            c.clear()
            r.clear()
        else:
            raise ValueError(op)
        if check:
            self.invariants()
            self.observe()
        return labels

    def state_key(self):
        return (tuple(self.impl._q), tuple(sorted(self.impl._set, key=repr)), self.ref.snapshot())

    def pressure(self):
        return self.ref.cap > 0 and self.ref.size() >= self.ref.cap


class PRingSet(PSet):
    family = "ringlru"

    def _cls(self):
        from clematis.engine.util.ring import DeterministicLRU

        return DeterministicLRU


# ------------------------------------------------------------------------------- DedupeRing


class PRing(PairBase):
    family = "ring"

    def __init__(self, cfg):
        super().__init__(cfg)
        from clematis.engine.util.ring import DedupeRing

        self.impl = DedupeRing(cfg["k"])
        self.ref = RefRing(cfg["k"])

    def invariants(self):
        c, k = self.impl, self.cfg["k"]
        if len(c) > max(0, k):
            raise Mismatch(f"ring holds {len(c)} > k={k}", "bound-entries")
        win = c.tolist()
        for x, n in c._ref.items():
            if n <= 0:
                raise Mismatch(f"non-positive reference count {n} kept for {x!r}", "refcount")
            if n > win.count(x):
                raise Mismatch(f"reference count {n} for {x!r} exceeds its {win.count(x)} physical entries", "refcount")

    def observe(self):
        c, r = self.impl, self.ref
        _eq("len()", len(c), len(r), "len")
        _eq("tolist() oldest->newest", c.tolist(), list(r.window), "order")
        for x in self.universe + ["?"]:
            want = r.contains(x)
            got = c.contains(x)
            _eq(f"{x!r} in ring", x in c, got, "contains")
            if want is None:  # tainted by a discard: only "member => physically present"
                if got and x not in r.window:
                    raise Mismatch(f"contains({x!r}) is True but {x!r} is not in the window {r.window!r}", "contains")
            else:
                _eq(f"contains({x!r})", got, want, "contains")

    def step(self, op, check=True):
        c, r = self.impl, self.ref
        name = op[0]
        labels = []
        if name == "add":
            x = op[1]
            self._see(x)
            full = len(r) >= r.k > 0
            got = c.add(x)
            r.add(x)
            if full:
                self.flags.add("evict")
                labels.append("evict")
            if check:
                _eq("add() return", got, None, "add-return")
        elif name == "extend":
            for x in op[1]:
                self._see(x)
                if len(r) >= r.k > 0:
                    self.flags.add("evict")
                    labels.append("evict")
                r.add(x)
            c.extend(list(op[1]))
        elif name == "discard":
            x = op[1]
            self._see(x)
            c.discard(x)
            want = r.discard(x)
            labels.append("discard-defined" if want is not None else "discard-weak")
            if check and want is not None:
                _eq(f"contains({x!r}) right after discard", c.contains(x), want, "discard")
        elif name == "clear":
            c.clear()
            r.clear()
        else:
            raise ValueError(op)
        if check:
            self.invariants()
            self.observe()
        return labels

    def state_key(self):
        return (tuple(self.impl._q), tuple(sorted(self.impl._ref.items(), key=repr)), self.ref.snapshot())

    def pressure(self):
        return self.ref.k > 0 and len(self.ref) >= self.ref.k


PAIRS = {p.family: p for p in (PBytes, PNs, PLru, PMgr, PDet, PSet, PRingSet, PRing)}


def _norm_op(op):
    """ops come back from JSON with lists instead of tuples; values are only compared for equality, so lists stay."""
    return list(op)


def run_sequence(case, check=True):
    pair = PAIRS[case["family"]](case["cfg"])
    for i, op in enumerate(case["ops"]):
        try:
            pair.step(_norm_op(op), check=check)
        except Mismatch as e:
            raise Violation(f"[{case['family']} {case['cfg']}] after op #{i} {op!r}: {e.msg}", case,
                            f"{case['family']}:{e.sig}")
    return pair


def replay_sequence(case):
    run_sequence(case, check=True)


# =================================================================================================
# exhaustive breadth-first closure
# =================================================================================================

ADV = [0.75, 3.0]
COSTS = [0, 1, 2, 5, -1]


def small_space(nkeys, deep=False):
    """-> list of (family, cfg, ops). deep: one more capacity, one more byte cap and cost."""
    keys = ["a", "b", "c", "d"][:nkeys]
    out = []
    caps = (0, 1, 2, 3, 4) if deep else (0, 1, 2, 3)
    costs = COSTS + [3] if deep else COSTS
    for me in caps:
        for mb in ((0, 3, 5, 8) if deep else (0, 3, 5)):
            ops = [["put", k, f"{k}{c}", c] for k in keys for c in costs] + [["get", k] for k in keys] + [["clear"]]
            out.append(("lrubytes", {"me": me, "mb": mb, "keys": keys}, ops))
    for mx in caps:
        for ttl in (0, 2):
            adv = [["adv", d] for d in ADV]  # also with ttl == 0: the clock must then have no effect
            ops = [["set", k, v] for k in keys for v in (0, 1)] + [["get", k] for k in keys] + adv + [["invalidate"]]
            out.append(("nscache", {"max": mx, "ttl": ttl, "keys": keys}, ops))
            ops = ([["set", k, v] for k in keys for v in (0, 1)] + [["put", keys[0], 2]] + [["get", k] for k in keys]
                   + [["get2", k] for k in keys[:2]] + [["contains", k] for k in keys] + [["items"]] + adv
                   + [["invalidate"], ["clear"]])
            out.append(("lrucache", {"max": mx, "ttl": ttl, "ctor": _CTORS[(mx + ttl) % len(_CTORS)], "keys": keys}, ops))
            mkeys = keys[:max(2, nkeys - 1)]  # namespace n1: several keys, two values; n2: one key, one value
            ops = ([["set", "n1", k, v] for k in mkeys for v in (0, 1)] + [["set", "n2", keys[0], 0]]
                   + [["get", "n1", k] for k in mkeys] + [["get", "n2", keys[0]]] + adv
                   + [["inv_ns", "n1"], ["inv_ns", "n2"], ["inv_ns", "zz"], ["inv_all"]])
            out.append(("manager", {"max": mx, "ttl": ttl, "keys": mkeys}, ops))
    for cap in caps:
        for ug in (True, False):
            for up in (True, False):
                ops = ([["put", k, v] for k in keys for v in (0, 1)] + [["get", k] for k in keys]
                       + [["getd", keys[0], 9]] + [["pop"], ["clear"]])
                out.append(("detlru", {"cap": cap, "ug": ug, "up": up, "keys": keys}, ops))
    for cap in caps:
        for fam in ("fifoset", "ringlru"):
            out.append((fam, {"cap": cap, "keys": keys}, [["add", k] for k in keys] + [["clear"]]))
        ops = ([["add", k] for k in keys] + [["discard", k] for k in keys] + [["extend", [keys[0], keys[1]]],
               ["extend", [keys[1], keys[1], keys[0]]], ["clear"]])
        out.append(("ring", {"k": cap, "keys": keys}, ops))
    return out


def bfs(rec, family, cfg, ops, depth, max_states):
    """Closure over reachable states (first path to a state is kept: BFS => shortest). Every op is checked in every
    expanded state. Returns (states, transitions, closed)."""
    cls = PAIRS[family]
    seen = {cls(cfg).state_key()}
    frontier = [[]]
    transitions = 0
    for _d in range(depth):
        nxt = []
        for path in frontier:
            for op in ops:
                pair = cls(cfg)
                for o in path:
                    pair.step(o, check=False)
                tight = pair.pressure()
                try:
                    labels = pair.step(op, check=True)
                except Mismatch as e:
                    case = {"family": family, "cfg": cfg, "ops": path + [op]}
                    rec.violation(f"[{family} {cfg}] after op #{len(path)} {op!r}: {e.msg}", case, f"{family}:{e.sig}")
                    return len(seen), transitions, False
                transitions += 1
                nt = tight or bool(set(labels) & {"evict", "evict-multi", "expire", "reject-oversize"})
                rec.case(nontrivial=nt, dig=None, labels=[family] + [f"{family}.{lb}" for lb in set(labels)]
                         + ([f"{family}.tight-state"] if tight else [])
                         + ([f"{family}.disabled"] if _is_disabled(family, cfg) else []),
                         sample={"family": family, "cfg": cfg, "ops": path + [op]} if nt and len(path) >= 3 and
                         transitions % 997 == 0 else None)
                key = pair.state_key()
                if key not in seen:
                    seen.add(key)
                    nxt.append(path + [op])
                    if len(seen) >= max_states:
                        rec.budget_hit = True
                        return len(seen), transitions, False
        frontier = nxt
        if not frontier:
            return len(seen), transitions, True
    return len(seen), transitions, False


def _is_disabled(family, cfg):
    if family == "lrubytes":
        return cfg["me"] == 0 and cfg["mb"] == 0
    if family == "ring":
        return cfg["k"] == 0
    return cfg.get("max", cfg.get("cap")) == 0


def sub_exhaustive(rec, seed, shard, nshards, nkeys=3, depth=6, max_states=200000, deep=False):
    space = small_space(nkeys, deep)
    closed_all = True
    tot_states = 0
    for idx, (family, cfg, ops) in enumerate(space):
        if idx % nshards != shard:
            continue
        states, trans, closed = bfs(rec, family, cfg, ops, depth, max_states)
        tot_states += states
        closed_all = closed_all and closed
        rec.label(f"closed.{family}" if closed else f"depth-bounded.{family}")
    rec.note(f"shard{shard}", {"states": tot_states, "all_closed_before_depth": closed_all, "depth": depth, "nkeys": nkeys})


# =================================================================================================
# Hypothesis state machines
# =================================================================================================


def _strategies(family):
    from hypothesis import strategies as st

    keys = st.integers(0, 7)
    vals = st.integers(0, 3)
    adv = st.integers(0, 8).map(lambda i: ["adv", i * 0.75])
    ttl = st.sampled_from([2, 0, 5, 0, 10])
    cap = st.sampled_from([2, 1, 3, 4, 0, 6, 9])
    if family == "lrubytes":
        cfg = st.fixed_dictionaries({"me": st.sampled_from([2, 0, 1, 3, 5, 8]), "mb": st.sampled_from([10, 0, 0, 5, 20])})
        cost = st.one_of(st.integers(0, 12), st.integers(0, 4), st.sampled_from([-1, -3, 0, 21]))
        return cfg, st.one_of(st.tuples(st.just("put"), keys, st.integers(0, 99), cost).map(list),
                              st.tuples(st.just("put"), keys, st.integers(0, 99), cost).map(list),
                              st.tuples(st.just("get"), keys).map(list),
                              st.tuples(st.just("get"), keys).map(list),
                              st.sampled_from([["clear"]] + [["get", 0]] * 7))
    ukeys = st.one_of(keys, keys, st.sampled_from(["s", "t", [1, 2], [2, 1], {"a": 1, "b": 2}, {"b": 2, "a": 1}, [[1], {"x": None}]]))
    if family == "nscache":
        cfg = st.fixed_dictionaries({"max": cap, "ttl": ttl})
        return cfg, st.one_of(st.tuples(st.just("set"), keys, vals).map(list), st.tuples(st.just("set"), keys, vals).map(list),
                              st.tuples(st.just("get"), keys).map(list), st.tuples(st.just("get"), keys).map(list), adv,
                              st.sampled_from([["invalidate"]] + [["adv", 0.75]] * 9))
    if family == "lrucache":
        cfg = st.fixed_dictionaries({"max": cap, "ttl": ttl, "ctor": st.sampled_from(_CTORS)})
        return cfg, st.one_of(st.tuples(st.sampled_from(["set", "put"]), ukeys, vals).map(list),
                              st.tuples(st.sampled_from(["set", "put"]), ukeys, vals).map(list),
                              st.tuples(st.sampled_from(["get", "get2", "get", "contains"]), ukeys).map(list),
                              st.tuples(st.sampled_from(["get", "get2", "get", "contains"]), ukeys).map(list), adv,
                              st.sampled_from([["items"]] * 6 + [["invalidate"], ["clear"]]))
    if family == "manager":
        cfg = st.fixed_dictionaries({"max": cap, "ttl": ttl})
        ns = st.sampled_from(["t2:semantic", "t2:semantic", "t1"])
        mkeys = st.one_of(st.integers(0, 3), st.integers(0, 3), ukeys)
        return cfg, st.one_of(st.tuples(st.just("set"), ns, mkeys, vals).map(list), st.tuples(st.just("set"), ns, mkeys, vals).map(list),
                              st.tuples(st.just("get"), ns, mkeys).map(list), st.tuples(st.just("get"), ns, mkeys).map(list), adv,
                              # (a nested one_of would be flattened into equal-weight branches: keep invalidations rare)
                              st.sampled_from([["inv_all"], ["inv_ns", "t1"], ["inv_ns", "t2:semantic"], ["inv_ns", "never"]]
                                              + [["adv", 1.5]] * 12))
    if family == "detlru":
        cfg = st.fixed_dictionaries({"cap": cap, "ug": st.booleans(), "up": st.booleans()})
        return cfg, st.one_of(st.tuples(st.just("put"), keys, vals).map(list), st.tuples(st.just("put"), keys, vals).map(list),
                              st.tuples(st.just("get"), keys).map(list), st.tuples(st.just("get"), keys).map(list),
                              st.tuples(st.just("getd"), keys, st.sampled_from([None, 7])).map(list),
                              st.sampled_from([["pop"]] * 5 + [["clear"]]))
    if family in ("fifoset", "ringlru"):
        cfg = st.fixed_dictionaries({"cap": cap})
        skeys = st.one_of(keys, st.integers(0, 20))
        return cfg, st.one_of(st.tuples(st.just("add"), skeys).map(list), st.tuples(st.just("add"), skeys).map(list),
                              st.tuples(st.just("add"), skeys).map(list), st.sampled_from([["clear"]] + [["add", 1]] * 9))
    if family == "ring":
        cfg = st.fixed_dictionaries({"k": cap})
        return cfg, st.one_of(st.tuples(st.just("add"), keys).map(list), st.tuples(st.just("add"), keys).map(list),
                              st.tuples(st.just("add"), keys).map(list),
                              st.tuples(st.just("extend"), st.lists(keys, max_size=5)).map(list),
                              st.tuples(st.just("discard"), keys).map(list),
                              st.sampled_from([["clear"]] + [["add", 1]] * 9))
    raise ValueError(family)


def make_machine(family, rec):
    from hypothesis.stateful import RuleBasedStateMachine, initialize, rule

    cfg_st, op_st = _strategies(family)

    class Machine(RuleBasedStateMachine):
        _vx_last = {}

        def __init__(self):
            super().__init__()
            self.pair = None
            self.cfg = None
            self.history = []
            self.labels = set()
            self.failed = False

        @initialize(cfg=cfg_st)
        def init(self, cfg):
            self.cfg = cfg
            self.pair = PAIRS[family](cfg)

        @rule(op=op_st)
        def do(self, op):
            self.history.append(op)
            try:
                self.labels.update(self.pair.step(op, check=True))
            except Mismatch as e:
                self.failed = True
                case = {"family": family, "cfg": self.cfg, "ops": list(self.history)}
                v = Violation(f"[{family} {self.cfg}] after op #{len(self.history) - 1} {op!r}: {e.msg}", case, f"{family}:{e.sig}")
                type(self)._vx_last["v"] = v
                raise v

        def teardown(self):
            if self.pair is None or self.failed:
                return
            nt = bool(self.pair.flags & {"evict", "expire"})
            n = len(self.history)
            size = "len<10" if n < 10 else ("len<50" if n < 50 else "len>=50")
            rec.case(nontrivial=nt, dig=digest([family, self.cfg, self.history]) if nt else None,
                     labels=[family, f"{family}.{size}"] + [f"{family}.{lb}" for lb in sorted(self.labels)]
                     + ([f"{family}.disabled"] if _is_disabled(family, self.cfg) else []),
                     sample={"family": family, "cfg": self.cfg, "ops": self.history[:12]} if nt and n >= 8 else None)

    Machine.__name__ = Machine.__qualname__ = f"Machine_{family}"
    return Machine


def sub_machines(rec, seed, shard, nshards, n=10, steps=200, shrink=True):
    for i, family in enumerate(sorted(PAIRS)):
        run_machine(rec, seed + i, make_machine(family, rec), max_examples=n, steps=steps, shrink=shrink,
                    name=f"machine[{family}]")


# =================================================================================================
# threads through the lock wrappers
# =================================================================================================

_TL = threading.local()
_TRACED_SUFFIXES = ("clematis/engine/cache.py", "clematis/engine/util/lru_bytes.py")


def _make_tracer(p):
    def local(frame, event, arg):
        if event == "line":
            rng = getattr(_TL, "rng", None)
            if rng is not None and rng.random() < p:
                time.sleep(0 if rng.random() < 0.7 else 1e-5)
        return local

    def tracer(frame, event, arg):
        if event == "call" and frame.f_code.co_filename.endswith(_TRACED_SUFFIXES):
            return local
        return None

    return tracer


def gen_round(rng, small):
    kind = rng.choice(["lru", "bytes"])
    nthreads = rng.choice([2, 2, 3]) if small else rng.choice([2, 3, 4])
    U = rng.randint(1, 3) if small else rng.randint(2, 6)
    tight = rng.random() < (0.7 if small else 0.4)
    cfg = {"kind": kind}
    maxcost = 4
    if kind == "lru":
        cfg["max"] = (rng.randint(0, max(0, U - 1)) if tight else U + rng.randint(0, 2))
        cfg["ttl"] = rng.choice([0, 0, 5])
    else:
        if tight:
            cfg["me"], cfg["mb"] = rng.choice([(rng.randint(1, max(1, U - 1)), 0), (0, rng.randint(2, 6)),
                                               (rng.randint(1, U), rng.randint(2, 6))])
        else:
            cfg["me"], cfg["mb"] = rng.choice([(U + rng.randint(0, 2), 0), (0, maxcost * U + 3), (U, maxcost * U)])
    progs = []
    for t in range(nthreads):
        nops = rng.randint(1, 3) if small else rng.choice([3, 10, 30, 100, 200])
        prog = []
        seq = 0
        for _ in range(nops):
            r = rng.random()
            k = rng.randrange(U)
            if r < 0.5:
                op = ["put", k, f"{t}.{seq}"] + ([rng.randint(0, maxcost)] if kind == "bytes" else [])
                seq += 1
            elif r < 0.8:
                op = ["get", k]
            elif r < 0.9:
                op = ["contains", k]
            else:
                op = ["items"]
            prog.append(op)
        progs.append(prog)
    return {"cfg": cfg, "U": U, "tight": tight, "small": small, "progs": progs,
            "p": rng.choice([0.0, 0.02, 0.1, 0.3]), "tseed": rng.randrange(1 << 30)}


def _build_wrapped(cfg):
    from clematis.engine.cache import LRUCache, ThreadSafeBytesCache, ThreadSafeCache
    from clematis.engine.util.lru_bytes import LRUBytes

    clock = Clock()
    if cfg["kind"] == "lru":
        inner = LRUCache(max_entries=cfg["max"], ttl_s=cfg["ttl"], time_fn=clock.time)
        return ThreadSafeCache(inner), inner, clock
    inner = LRUBytes(cfg["me"], cfg["mb"])
    return ThreadSafeBytesCache(inner), inner, clock


def _ref_for(cfg):
    clock = Clock()
    if cfg["kind"] == "lru":
        return RefLRUCache(cfg["max"], cfg["ttl"], clock.ref_time)
    return RefLRUBytes(cfg["me"], cfg["mb"])


def _ref_apply(ref, op):
    name = op[0]
    if name == "put":
        if isinstance(ref, RefLRUBytes):
            return ref.put(op[1], op[2], op[3])
        return ref.put(op[1], op[2])
    if name == "get":
        return ref.get(op[1])
    if name == "contains":
        return ref.contains(op[1])
    if name == "items":
        return ref.items()
    raise ValueError(op)


def execute_round(case):
    """Run the programme on real threads. Returns (results per thread [(inv, res, result)], errors, wrapped, inner)."""
    wrapped, inner, _clock = _build_wrapped(case["cfg"])
    progs = case["progs"]
    n = len(progs)
    results = [[] for _ in range(n)]
    errors = []
    barrier = threading.Barrier(n)
    stamp = itertools.count()

    def worker(t):
        _TL.rng = random.Random(case["tseed"] * 131 + t)
        prog = progs[t]
        out = results[t]
        barrier.wait()
        try:
            for op in prog:
                name = op[0]
                inv = next(stamp)
                if name == "put":
                    r = wrapped.put(*op[1:])
                elif name == "get":
                    r = wrapped.get(op[1])
                elif name == "contains":
                    r = op[1] in wrapped
                else:
                    r = list(wrapped.items())
                out.append((inv, next(stamp), r))
        except BaseException as e:  # recorded, judged by the oracle (the wrappers must not raise)
            errors.append((t, len(out), f"{type(e).__name__}: {e}"))
        finally:
            _TL.rng = None

    old = sys.getswitchinterval()
    sys.setswitchinterval(1e-6)
    if case["p"] > 0:
        threading.settrace(_make_tracer(case["p"]))
    try:
        ths = [threading.Thread(target=worker, args=(t,)) for t in range(n)]
        for th in ths:
            th.start()
        for th in ths:
            th.join()
    finally:
        threading.settrace(None)
        sys.setswitchinterval(old)
    return results, errors, wrapped, inner


def _tid_seq(v):
    t, s = v.split(".")
    return int(t), int(s)


def check_round(case, results, errors, wrapped, inner):
    """Schedule-independent oracles. Raises Violation."""
    cfg, progs = case["cfg"], case["progs"]
    kind = cfg["kind"]

    def bad(msg, sig):
        c = dict(case)
        c["observed"] = {"results": [[list(x) for x in r] for r in results], "errors": errors}
        raise Violation(f"[threads {cfg}] {msg}", c, f"threads:{sig}")

    if errors:
        bad(f"operation raised in thread {errors[0][0]} at op #{errors[0][1]}: {errors[0][2]}", "exception")

    # writes: value -> (key, cost); per thread/key ordered seqs
    def accepted(op):  # documented: a put whose cost exceeds max_bytes is rejected and leaves the cache unchanged
        return not (kind == "bytes" and cfg["mb"] > 0 and op[3] > cfg["mb"])

    writes = {}
    last_write = {}  # (t, k) -> value of the thread's last (accepted) write to k
    for t, prog in enumerate(progs):
        for op in prog:
            if op[0] == "put" and accepted(op):
                writes[op[2]] = (op[1], op[3] if kind == "bytes" else 0)
                last_write[(t, op[1])] = op[2]
    roomy = not case["tight"]

    # per-read validity
    total_gets = hits = 0
    for t, prog in enumerate(progs):
        own_latest = {}
        seen_from = {}  # (key, writer) -> max seq seen
        for op, (_inv, _res, r) in zip(prog, results[t]):
            name = op[0]
            if name == "put":
                if accepted(op):
                    own_latest[op[1]] = op[2]
                elif tuple(r) != (0, 0):
                    bad(f"rejected oversize put returned {r!r}", "put-return")
                want_type = tuple if kind == "bytes" else type(None)
                if not isinstance(r, want_type):
                    bad(f"put returned {r!r}", "put-return")
                if kind == "bytes" and roomy and tuple(r) != (0, 0):
                    bad(f"put reported evictions {r!r} although capacity covers the whole key universe", "spurious-evict")
            elif name == "get":
                total_gets += 1
                k = op[1]
                if r is None:
                    if roomy and k in own_latest:
                        bad(f"thread {t}: get({k}) missed after its own put although nothing can be evicted (lost update)",
                            "lost-update")
                    continue
                hits += 1
                if r not in writes or writes[r][0] != k:
                    bad(f"thread {t}: get({k}) returned {r!r}, never written to that key", "phantom")
                wt, ws = _tid_seq(r)
                if wt == t and own_latest.get(k) != r:
                    bad(f"thread {t}: get({k}) returned its own overwritten value {r!r} (latest own {own_latest.get(k)!r})", "stale-own")
                if ws < seen_from.get((k, wt), -1):
                    bad(f"thread {t}: reads of key {k} from writer {wt} went backwards ({seen_from[(k, wt)]} then {ws})", "non-monotonic")
                seen_from[(k, wt)] = ws
            elif name == "contains":
                if not isinstance(r, bool):
                    bad(f"contains returned {r!r}", "contains")
                if roomy and not r and op[1] in own_latest:
                    bad(f"thread {t}: key {op[1]} not contained after its own put although nothing can be evicted", "lost-update")
            else:
                ks = [k for k, _ in r]
                if len(set(ks)) != len(ks):
                    bad(f"items() snapshot has duplicate keys {ks!r}", "items-dup")
                for k, v in r:
                    if v not in writes or writes[v][0] != k:
                        bad(f"items() snapshot maps {k!r} to {v!r}, never written to that key", "phantom")

    # final state
    final = list(wrapped.items())
    fkeys = [k for k, _ in final]
    if len(set(fkeys)) != len(fkeys):
        bad(f"final items() has duplicate keys {fkeys!r}", "items-dup")
    for k, v in final:
        if v not in writes or writes[v][0] != k:
            bad(f"final state maps {k!r} to {v!r}, never written to that key", "phantom")
        if v not in [last_write.get((t, k)) for t in range(len(progs))]:
            bad(f"final value {v!r} of key {k} is not the last write of any thread to it (lost update)", "lost-update")
    written = sorted({k for (_t, k) in last_write})
    if roomy and sorted(fkeys) != written:
        bad(f"final keys {sorted(fkeys)!r} != keys written {written!r} although nothing can be evicted", "lost-update")
    if kind == "bytes":
        me, mb = cfg["me"], cfg["mb"]
        if len(inner._q) != len(inner._map) or set(inner._q) != set(inner._map):
            bad(f"recency queue {list(inner._q)!r} and map keys {sorted(inner._map)!r} disagree", "structure")
        if me > 0 and len(inner) > me:
            bad(f"{len(inner)} entries exceed max_entries={me}", "bound-entries")
        if mb > 0 and inner.size_bytes() > mb:
            bad(f"{inner.size_bytes()} bytes exceed max_bytes={mb}", "bound-bytes")
        want_bytes = sum(writes[v][1] for _, v in final)
        if inner.size_bytes() != want_bytes:
            bad(f"size_bytes()={inner.size_bytes()} but the stored values were put with costs summing to {want_bytes}", "bytes-accounting")
        if len(inner) != len(final):
            bad(f"len()={len(inner)} but items() has {len(final)} entries", "structure")
    else:
        st_ = inner.stats
        if len(inner) > max(0, cfg["max"]):
            bad(f"{len(inner)} entries exceed max_entries={cfg['max']}", "bound-entries")
        if st_["hits"] + st_["misses"] != total_gets or st_["hits"] != hits:
            bad(f"stats {st_!r} but {total_gets} gets were issued of which {hits} hit (lost counter update)", "lost-counter")
        if roomy and st_["evicted"] != 0:
            bad(f"stats.evicted={st_['evicted']} although capacity covers the whole key universe", "spurious-evict")
        if st_["size"] != len(final):
            bad(f"stats.size={st_['size']} but items() has {len(final)} entries", "structure")

    if case["small"]:
        fin = (final, inner.size_bytes() if kind == "bytes" else dict(inner.stats))
        if not linearizable(cfg, progs, results, fin):
            bad("no sequential order of the operations (respecting program order and real-time order) explains the "
                f"observed results and final state {fin!r}", "not-linearizable")


def linearizable(cfg, progs, results, fin):
    n = len(progs)
    kind = cfg["kind"]
    seen_dead = set()

    def norm(r):
        if isinstance(r, list):
            return [tuple(x) for x in r]
        if isinstance(r, tuple):
            return tuple(r)
        return r

    def rec_(idx, order):
        if all(idx[t] == len(progs[t]) for t in range(n)):
            ref = _ref_for(cfg)
            for (t, i) in order:
                _ref_apply(ref, progs[t][i])
            want = (ref.items(), ref.total() if kind == "bytes" else ref.stats())
            return want == (norm(fin[0]), fin[1])
        for t in range(n):
            i = idx[t]
            if i >= len(progs[t]):
                continue
            inv = results[t][i][0]
            # real-time: another pending op that responded before this one was invoked must come first
            if any(u != t and idx[u] < len(progs[u]) and results[u][idx[u]][1] < inv for u in range(n)):
                continue
            ref = _ref_for(cfg)
            for (tt, ii) in order:
                _ref_apply(ref, progs[tt][ii])
            got = _ref_apply(ref, progs[t][i])
            if norm(got) != norm(results[t][i][2]):
                continue
            nidx = idx[:t] + (i + 1,) + idx[t + 1:]
            key = (nidx, repr(ref.snapshot() if kind == "bytes" else (ref.ns.snapshot(), ref.stats())))
            if key in seen_dead:
                continue
            if rec_(nidx, order + [(t, i)]):
                return True
            seen_dead.add(key)
        return False

    return rec_(tuple(0 for _ in range(n)), [])


def _round_labels(case):
    touched = {}
    for t, prog in enumerate(case["progs"]):
        for op in prog:
            if op[0] in ("put", "get", "contains"):
                touched.setdefault(op[1], set()).add(t)
    common = any(len(s) >= 2 for s in touched.values())
    labels = [f"kind={case['cfg']['kind']}", "small" if case["small"] else "long", "tight" if case["tight"] else "roomy",
              "traced" if case["p"] > 0 else "untraced", f"threads={len(case['progs'])}"]
    return common, labels


def _relabel(progs):
    """Values are '<thread>.<seq>': renumber after a structural change."""
    out = []
    for t, prog in enumerate(progs):
        seq = 0
        np_ = []
        for op in prog:
            op = list(op)
            if op[0] == "put":
                op[2] = f"{t}.{seq}"
                seq += 1
            np_.append(op)
        out.append(np_)
    return out


def _fails(case, tries):
    """Re-execute under fresh schedules; -> Violation or None."""
    for i in range(tries):
        c = dict(case)
        c["tseed"] = case["tseed"] + 7919 * i
        if c["p"] == 0 and i % 2:
            c["p"] = 0.1
        results, errors, wrapped, inner = execute_round(c)
        try:
            check_round(c, results, errors, wrapped, inner)
        except Violation as v:
            return v
    return None


def shrink_round(case, first, budget=60, tries=12):
    """Greedy structural shrinking of a failing thread programme (drop threads, halve programmes, drop single ops).
    A candidate is kept when it fails again (any oracle) within `tries` fresh schedules."""
    best, best_v = case, first
    progress = True
    while progress and budget > 0:
        progress = False
        progs = best["progs"]
        cands = []
        if len(progs) > 2:
            cands += [[p for j, p in enumerate(progs) if j != i] for i in range(len(progs))]
        for i, p in enumerate(progs):
            if len(p) > 1:
                cands.append([q if j != i else q[: len(q) // 2] for j, q in enumerate(progs)])
                cands.append([q if j != i else q[len(q) // 2:] for j, q in enumerate(progs)])
        if sum(len(p) for p in progs) <= 12:
            for i, p in enumerate(progs):
                for k in range(len(p)):
                    if len(p) > 1:
                        cands.append([q if j != i else q[:k] + q[k + 1:] for j, q in enumerate(progs)])
        for cp in cands:
            if budget <= 0:
                break
            budget -= 1
            c = dict(best)
            c.pop("observed", None)
            c["progs"] = _relabel(cp)
            c["small"] = len(cp) <= 3 and all(len(p) <= 3 for p in cp)
            v = _fails(c, tries)
            if v is not None:
                best, best_v = c, v
                progress = True
                break
    return best_v


def sub_threads(rec, seed, shard, nshards, rounds=50, small_frac=0.5):
    rng = random.Random(seed)
    for _ in range(rounds):
        case = gen_round(rng, small=rng.random() < small_frac)
        results, errors, wrapped, inner = execute_round(case)
        try:
            check_round(case, results, errors, wrapped, inner)
        except Violation as v:
            v = shrink_round(case, v)
            rec.violation(v.message, v.case, v.sig)
            return
        common, labels = _round_labels(case)
        rec.case(nontrivial=common, dig=digest(case) if common else None, labels=labels + (["common-key"] if common else []),
                 sample={"cfg": case["cfg"], "progs": [p[:4] for p in case["progs"]]} if common and case["small"] else None)


def replay_threads(case):
    # the schedule itself cannot be replayed: re-execute the programme under 60 fresh perturbed schedules
    case = dict(case)
    case.pop("observed", None)
    v = _fails(case, 60)
    if v is not None:
        raise v


# =================================================================================================
# deterministic merge
# =================================================================================================


def merge_cases():
    from hypothesis import strategies as st

    @st.composite
    def cases(draw):
        nkeys = draw(st.integers(1, 6))
        keys = st.integers(0, nkeys - 1)
        vals = st.integers(0, 2)
        nworkers = draw(st.integers(0, 4))
        wkeys = draw(st.lists(st.integers(0, 9), min_size=nworkers, max_size=nworkers, unique=True))
        workers = []
        for wk in wkeys:
            kind = draw(st.sampled_from(["lrucache", "lrubytes", "detlru", "tslru"]))
            script = draw(st.lists(st.one_of(st.tuples(st.just("put"), keys, vals).map(list),
                                             st.tuples(st.just("put"), keys, vals).map(list),
                                             st.tuples(st.just("get"), keys).map(list)), max_size=8))
            workers.append({"wkey": wk, "kind": kind, "cap": draw(st.sampled_from([1, 2, 3, 8])), "script": script})
        perm = draw(st.permutations(list(range(nworkers))))
        return {
            "target": {"max": draw(st.sampled_from([0, 1, 2, 3, 8, 64])), "ttl": draw(st.sampled_from([0, 0, 2])),
                       "pre": draw(st.lists(st.tuples(keys, vals).map(list), max_size=3)),
                       "adv": draw(st.sampled_from([0.0, 0.75, 3.0])), "wrapped": draw(st.booleans())},
            "workers": workers, "perm": list(perm),
            "on_conflict": draw(st.sampled_from(["first_wins", "first_wins", "assert_equal"])),
            "worder": draw(st.sampled_from(["id", "neg", "half"])),
            "korder": draw(st.sampled_from(["id", "neg", "str"])),
        }

    return cases()


_WORDER = {"id": lambda w: (w,), "neg": lambda w: (-w,), "half": lambda w: (w // 2,)}
_KORDER = {"id": lambda k: (k,), "neg": lambda k: (-k,), "str": lambda k: str(k * 7 % 10) + str(k)}


def _build_worker(w):
    from clematis.engine.cache import LRUCache, ThreadSafeCache
    from clematis.engine.util.lru_bytes import LRUBytes
    from clematis.engine.util.lru_det import DeterministicLRU

    if w["kind"] == "lrucache":
        c = LRUCache(max_entries=w["cap"], ttl_s=0)
        put = c.put
    elif w["kind"] == "tslru":
        c = ThreadSafeCache(LRUCache(max_entries=w["cap"], ttl_s=0))
        put = c.put
    elif w["kind"] == "lrubytes":
        c = LRUBytes(w["cap"], 0)
        put = lambda k, v: c.put(k, v, 1)
    else:
        c = DeterministicLRU(w["cap"])
        put = c.put
    for op in w["script"]:
        if op[0] == "put":
            put(op[1], op[2])
        else:
            c.get(op[1])
    return c


def _build_target(t):
    from clematis.engine.cache import LRUCache, ThreadSafeCache

    clock = Clock()
    inner = LRUCache(max_entries=t["max"], ttl_s=t["ttl"], time_fn=clock.time)
    ref = RefLRUCache(t["max"], t["ttl"], clock.ref_time)
    for k, v in t["pre"]:
        inner.put(k, v)
        ref.put(k, v)
    clock.t += t["adv"]
    return (ThreadSafeCache(inner) if t["wrapped"] else inner), inner, ref


def _run_merge(case, order):
    from clematis.engine.cache import merge_caches_deterministic

    target, inner, ref = _build_target(case["target"])
    built = [(case["workers"][i]["wkey"], _build_worker(case["workers"][i])) for i in order]
    before = [list(c.items()) for _, c in built]
    raised = None
    try:
        merge_caches_deterministic(target, built, worker_order_key=_WORDER[case["worder"]],
                                   key_order_key=_KORDER[case["korder"]], on_conflict=case["on_conflict"])
    except AssertionError as e:
        raised = str(e)
    after = [list(c.items()) for _, c in built]
    return target, inner, ref, before, after, raised


def check_merge(case, rec=None):
    order = list(range(len(case["workers"])))
    target, inner, ref, before, after, raised = _run_merge(case, order)
    mode = case["on_conflict"]

    def bad(msg, sig):
        raise Violation(f"[merge] {msg}", case, f"merge:{sig}")

    if before != after:
        bad(f"merge changed a worker cache: {before!r} -> {after!r}", "worker-mutated")
    if raised is not None and mode != "assert_equal":
        bad(f"first_wins merge raised AssertionError: {raised}", "raises")

    # reference
    ref_workers = [(case["workers"][i]["wkey"], before[i]) for i in order]
    ref_raised = False
    try:
        ref_merge(ref, ref_workers, _WORDER[case["worder"]], _KORDER[case["korder"]], mode)
    except Conflict:
        ref_raised = True
    total_keys = len({k for kvs in before for k, _ in kvs} | {k for k, _ in case["target"]["pre"]})
    roomy = case["target"]["max"] >= total_keys
    got_items = list(inner._ns.items())
    if mode == "first_wins":
        _m = None
        if got_items != ref.ns.items():
            bad(f"target after merge {got_items!r} != reference (sorted workers, sorted keys, first wins) {ref.ns.items()!r}", "result")
        if inner.stats["evicted"] != ref.evicted:
            bad(f"target evicted {inner.stats['evicted']} entries, reference {ref.evicted}", "result")
    elif roomy:
        if (raised is not None) != ref_raised:
            bad(f"assert_equal: implementation {'raised' if raised is not None else 'did not raise'}, but a conflicting "
                f"later value {'exists' if ref_raised else 'does not exist'}", "assert-equal")
        if raised is None and dict(got_items) != dict(ref.ns.items()):
            bad(f"target after merge {dict(got_items)!r} != reference {dict(ref.ns.items())!r}", "result")
    if len(inner) > max(0, case["target"]["max"]):
        bad(f"target holds {len(inner)} > max_entries={case['target']['max']}", "bound-entries")

    # independence of the worker list order
    okeys = [_WORDER[case["worder"]](w["wkey"]) for w in case["workers"]]
    distinct = len(set(okeys)) == len(okeys)
    if distinct and case["perm"] != order:
        _t2, inner2, _r2, _b2, _a2, raised2 = _run_merge(case, case["perm"])
        if (raised is None) != (raised2 is None):
            bad(f"raising depends on the order of the worker list (perm {case['perm']})", "list-order")
        if raised is None and list(inner2._ns.items()) != got_items:
            bad(f"result depends on the order of the worker list: {got_items!r} vs {list(inner2._ns.items())!r} "
                f"(perm {case['perm']})", "list-order")

    if rec is not None:
        kc = {}
        for i, kvs in enumerate(before):
            for k, v in kvs:
                kc.setdefault(k, set()).add(i)
        shared = any(len(s) >= 2 for s in kc.values())
        vals = {}
        for kvs in before:
            for k, v in kvs:
                vals.setdefault(k, set()).add(v)
        conflict = any(len(s) >= 2 for s in vals.values())
        labels = [mode, "roomy" if roomy else "evicting-target"] + (["shared-key"] if shared else []) + \
                 (["conflict-values"] if conflict else []) + (["raised"] if raised is not None else []) + \
                 (["permuted"] if distinct and case["perm"] != order else []) + (["order-ties"] if not distinct else []) + \
                 (["pre-populated"] if case["target"]["pre"] else [])
        rec.case(nontrivial=shared, dig=digest(case) if shared else None, labels=labels,
                 sample={"workers": before, "target": case["target"], "mode": mode} if shared and conflict else None)


def sub_merge(rec, seed, shard, nshards, n=400, shrink=True):
    run_hypothesis(rec, seed, merge_cases(), lambda c: check_merge(c, rec), max_examples=n, shrink=shrink, name="merge")


def replay_merge(case):
    check_merge(case, None)


# =================================================================================================

SUBCHECKS = [
    Sub("exhaustive", sub_exhaustive, quick={"nkeys": 3, "depth": 20}, thorough={"nkeys": 4, "depth": 24, "max_states": 2000000, "deep": True},
        shards_quick=4, shards_thorough=16, exhaustive=True, replay=replay_sequence),
    Sub("machines", sub_machines, quick={"n": 10, "steps": 200}, thorough={"n": 80, "steps": 200},
        shards_quick=4, shards_thorough=16, replay=replay_sequence),
    Sub("threads", sub_threads, quick={"rounds": 250}, thorough={"rounds": 1500}, shards_quick=4, shards_thorough=16,
        replay=replay_threads),
    Sub("merge", sub_merge, quick={"n": 400}, thorough={"n": 4000}, shards_quick=2, shards_thorough=8, replay=replay_merge),
]

KNOWN_PROBES = {}
