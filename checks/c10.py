"""C10 — the agent batch driver commits exactly like a sequential loop.

(a) contract-following compute: Orchestrator.run_turn is replaced by a GENERATED stub that honours the documented
    dry-run contract (emit stage records through append_jsonl, stash _dryrun_* artefacts, return before apply);
    everything else is real (compute wrapper, LogMux capture, read-only snapshot, staging with back-pressure,
    ordered commit, apply_changes with real snapshot writes).  Reference = the sequential loop.
(b) real stage pipeline through the driver vs N sequential run_turn calls on an equal world.
"""
from __future__ import annotations

import copy
import json
import os
from types import SimpleNamespace as SNS

from hypothesis import strategies as st

from harness.runner import Sub, Violation, run_hypothesis, digest
from harness import world, observe

LEVEL = "exploration"
RULE = ("(a) Hypothesis-generated batches of 1-6 agents with arbitrary graph-set overlap (incl. empty sets), task order, "
        "worker limits 2-8, per-agent log payloads (known and unknown streams, several records per stream, unicode, 10 KB "
        "strings), approved deltas and dialogue, staging byte limits from 1 upward (ladder through the record-size "
        "estimates); non-trivial = >=2 agents computed and >=1 back-pressure flush. (b) 2-4 agents with disjoint graphs "
        "through the real pipeline. Distinct = digest of the batch (incl. limit).")
ASSUMPTIONS = ["(a) the stub follows the dry-run contract the repo's own identity/race tests use",
               "store double is recording and all-or-nothing; apply_changes, snapshots, staging, LogMux are the real code",
               "per-file byte equality and line order (the property speaks of on-disk log lines per stream)"]

STREAMS = ["t1.jsonl", "t2.jsonl", "t3_plan.jsonl", "t3_dialogue.jsonl", "t4.jsonl", "health.jsonl", "turn.jsonl",
           "scheduler.jsonl", "custom.jsonl", "zz_unknown.jsonl"]
AGENTS = ["A", "B", "C", "D", "E", "F"]
GRAPHS = ["G1", "G2", "G3", "G4", "G5"]

_VAL = st.one_of(st.integers(-5, 5), st.sampled_from(["x", "héllo wörld", "", "y" * 100, "z" * 10000, None, True, 1.5]),
                 st.lists(st.integers(0, 3), max_size=3), st.dictionaries(st.sampled_from(["k", "ü"]), st.integers(0, 2), max_size=2))
_REC = st.dictionaries(st.sampled_from(["msg", "n", "ms", "now", "payload", "agent", "turn", "ключ"]), _VAL, min_size=1, max_size=4)
_DELTA = st.fixed_dictionaries({"k": st.sampled_from(["node", "edge"]), "id": st.sampled_from(["n:a", "n:b", "e:a|r|b", "n:é"]),
                                "v": st.sampled_from([0.1, -0.2, 0.3])})


@st.composite
def batches(draw):
    n = draw(st.integers(1, 6))
    agents = draw(st.lists(st.sampled_from(AGENTS), min_size=n, max_size=n, unique=True))
    gsets = {a: sorted(draw(st.sets(st.sampled_from(GRAPHS), max_size=3))) for a in agents}
    extra = draw(st.sampled_from([[], ["Z"]]))  # an agent unknown to graphs_by_agent
    tasks = [(a, draw(st.sampled_from(["hi", "yo", "héllo", ""]))) for a in draw(st.permutations(agents + extra))]
    payloads = {}
    for a, _ in tasks:
        logs = [(draw(st.sampled_from(STREAMS)), draw(_REC)) for _ in range(draw(st.integers(0, 6)))]
        payloads[a] = {"logs": logs, "deltas": draw(st.lists(_DELTA, max_size=3, unique_by=lambda d: (d["k"], d["id"]))),
                       "dialogue": draw(st.sampled_from(["ok", "", "dry: ünï", "a b c"]))}
    limit = draw(st.sampled_from([1, 2, 10, 40, 80, 150, 300, 1000, 10500, 25000, 10 ** 6, None]))
    return {"agents": agents, "gsets": gsets, "tasks": tasks, "payloads": payloads, "limit": limit,
            "workers": draw(st.sampled_from([2, 3, 4, 8])), "turn_id": draw(st.sampled_from([1, 7, 99])),
            "every": draw(st.sampled_from([1, 2])), "shape": draw(st.sampled_from(["graphs_by_agent", "agents"]))}


class RecStore:
    def __init__(self):
        self.calls = []

    def apply_deltas(self, gid, deltas):
        self.calls.append((gid, [(d.target_kind, d.target_id, d.attr, d.delta) for d in deltas]))
        return {"edits": len(list(deltas)), "clamps": 0}


def _pd(d):
    from clematis.engine.types import ProposedDelta
    return ProposedDelta(target_kind=d["k"], target_id=d["id"], attr="weight", delta=d["v"])


def ref_selection(case):
    picked, used = [], set()
    for a, _ in case["tasks"]:
        if len(picked) >= max(1, case["workers"]):
            break
        g = set(case["gsets"].get(a, []))
        if used.isdisjoint(g):
            picked.append(a)
            used |= g
    return picked


def _mk_state(case):
    st_ = {"store": RecStore(), "version_etag": "3", "_boot_loaded": True}
    if case["shape"] == "graphs_by_agent":
        st_["graphs_by_agent"] = {a: list(g) for a, g in case["gsets"].items()}
    else:
        st_["agents"] = {a: {"graphs": list(g)} for a, g in case["gsets"].items()}
    return st_


def _cfg(root, case):
    return world.validated_cfg({"perf": {"enabled": True, "parallel": {"enabled": True, "agents": True, "max_workers": case["workers"]}},
                                "t4": {"snapshot_dir": os.path.join(root, "snap"), "snapshot_every_n_turns": case["every"]}})


def _est(name, payload):
    from clematis.engine.util.io_logging import normalize_for_identity
    p = normalize_for_identity(name, payload)
    return sum(len(str(k)) + len(str(v)) for k, v in p.items()) + 2


def run_driver(case, root):
    import clematis.engine.orchestrator as orch
    import clematis.engine.orchestrator.core as core
    import clematis.engine.util.io_logging as iol
    from clematis.io.log import append_jsonl

    computed = []

    def stub(self, ctx, state, text):
        aid = getattr(ctx, "agent_id", "?")
        if not getattr(ctx, "_dry_run_until_t4", False):
            raise AssertionError("driver called the turn function outside the dry-run contract")
        computed.append(aid)
        p = case["payloads"][aid]
        for stream, rec_ in p["logs"]:
            append_jsonl(stream, copy.deepcopy(rec_))
        ctx._dryrun_t4 = SNS(approved_deltas=[_pd(d) for d in p["deltas"]])
        ctx._dryrun_utter = p["dialogue"]
        ctx._dryrun_t1 = {"graphs_touched": list(case["gsets"].get(aid, []))}
        ctx._dryrun_t2 = {"k_returned": 0, "k_used": 0}
        return SNS(line=p["dialogue"], events=[])

    cfg = _cfg(root, case)
    ctx = world.make_ctx(cfg, agent="driver", turn_id=case["turn_id"])
    state = _mk_state(case)
    orig_rt = core.Orchestrator.run_turn
    had = "enable_staging" in vars(orch)
    orig_es = vars(orch).get("enable_staging")
    core.Orchestrator.run_turn = stub
    if case["limit"] is not None:
        orch.enable_staging = lambda: iol.enable_staging(byte_limit=case["limit"])
    try:
        results = orch._run_agents_parallel_batch(ctx, state, [tuple(t) for t in case["tasks"]])
        exc = None
    except Exception as e:
        results, exc = None, e
    finally:
        core.Orchestrator.run_turn = orig_rt
        if had:
            orch.enable_staging = orig_es
        else:
            orch.enable_staging = iol.enable_staging
    staging_left_on = iol.staging_enabled()
    iol.disable_staging()
    return results, exc, state, computed, staging_left_on


def run_reference(case, root):
    """The sequential loop: for each selected agent in task order: its records, apply, its apply record."""
    from clematis.engine.apply import apply_changes
    from clematis.io.log import append_jsonl

    cfg = _cfg(root, case)
    ctx = world.make_ctx(cfg, agent="driver", turn_id=case["turn_id"])
    state = _mk_state(case)
    sel = ref_selection(case)
    lines = []
    for a, _ in case["tasks"]:
        if a not in sel:
            continue
        p = case["payloads"][a]
        for stream, rec_ in p["logs"]:
            append_jsonl(stream, copy.deepcopy(rec_))
        t4 = SNS(approved_deltas=[_pd(d) for d in p["deltas"]], rejected_ops=[], reasons=[], metrics={})
        ap = apply_changes(ctx, state, t4)
        append_jsonl("apply.jsonl", {"turn": case["turn_id"], "agent": a, "applied": ap.applied, "clamps": ap.clamps,
                                     "version_etag": ap.version_etag, "snapshot": ap.snapshot_path,
                                     "cache_invalidations": int((ap.metrics or {}).get("cache_invalidations", 0)), "ms": 0.0})
        lines.append(p["dialogue"])
    return lines, state, sel


def check_batch(case, rec=None):
    world.reset_engine_globals()
    with world.sandbox() as r1:
        results, exc, st_d, computed, left_on = run_driver(case, r1)
        logs_d = observe.read_tree(r1, "logs")
        snaps_d = {k: v for k, v in observe.read_tree(r1, "snap").items() if not k.endswith(".meta")}
    with world.sandbox() as r2:
        lines_ref, st_r, sel = run_reference(case, r2)
        logs_r = observe.read_tree(r2, "logs")
        snaps_r = {k: v for k, v in observe.read_tree(r2, "snap").items() if not k.endswith(".meta")}
    # selection: compute only for a pairwise-disjoint greedy selection, in task order
    want_computed = [a for a, _ in case["tasks"] if a in sel]
    if computed != want_computed:
        raise Violation(f"compute phase ran for {computed}, independent selection in task order is {want_computed} "
                        f"(graph sets {case['gsets']}, workers {case['workers']})", case, "selection")
    if exc is not None:
        if str(exc) == "LOG_STAGING_BACKPRESSURE" and rec is not None and rec.is_known("stager-limit-below-record"):
            rec.label("known:stager-limit-below-record")
            return
        raise Violation(f"driver raised {type(exc).__name__}: {exc} (staging limit {case['limit']})", case,
                        "backpressure-escapes" if "BACKPRESSURE" in str(exc) else "driver-raises")
    if left_on:
        raise Violation("log staging still enabled after the batch", case, "staging-left-on")
    got_lines = [r.line for r in results]
    if got_lines != lines_ref:
        raise Violation(f"per-agent results {got_lines} != sequential {lines_ref}", case, "results")
    for name in sorted(set(logs_d) | set(logs_r)):
        if logs_d.get(name) != logs_r.get(name):
            raise Violation(f"{name}: driver wrote {(logs_d.get(name) or b'')[:300]!r}, sequential loop {(logs_r.get(name) or b'')[:300]!r} "
                            f"(staging limit {case['limit']})", case, f"log:{name.split('.')[0]}")
    if snaps_d != snaps_r:
        raise Violation("snapshot bodies differ from the sequential loop", case, "snapshots")
    if st_d.get("version_etag") != st_r.get("version_etag") or st_d["store"].calls != st_r["store"].calls:
        raise Violation(f"final state differs: version {st_d.get('version_etag')} vs {st_r.get('version_etag')}, store calls "
                        f"{st_d['store'].calls} vs {st_r['store'].calls}", case, "state")
    if rec is not None:
        # did a back-pressure flush happen?  (replay the estimate arithmetic on the staged records)
        flush = False
        if case["limit"] is not None:
            tot = 0
            for a in want_computed:
                for stream, rec_ in case["payloads"][a]["logs"]:
                    e = _est(os.path.basename(stream), rec_)
                    if tot + e > case["limit"]:
                        flush, tot = True, 0
                    tot += e
        nt = len(want_computed) >= 2 and flush
        rec.case(nontrivial=nt, dig=digest(case) if nt else None,
                 labels=[f"computed={len(want_computed)}", f"skipped={len(case['tasks']) - len(want_computed)}"] + (["flush"] if flush else []) +
                        [f"limit={'default' if case['limit'] is None else ('<=150' if case['limit'] <= 150 else '>150')}"],
                 sample={"tasks": case["tasks"], "gsets": case["gsets"], "limit": case["limit"], "workers": case["workers"],
                         "logs": {a: [(s, {k: (v if len(str(v)) < 40 else str(v)[:20] + '...') for k, v in r_.items()}) for s, r_ in p["logs"]][:3]
                                  for a, p in list(case["payloads"].items())[:3]}} if nt else None)


def sub_contract(rec, seed, shard, nshards, n=150, shrink=True):
    run_hypothesis(rec, seed, batches(), lambda c: check_batch(c, rec), max_examples=n, shrink=shrink, name="contract")


# ---------------------------------------------------------------- (b) real pipeline

@st.composite
def real_batches(draw):
    n = draw(st.integers(2, 4))
    agents = AGENTS[:n]
    graphs = {f"g{a}": draw(world.graph_specs(max_nodes=4, max_edges=4, ids=["a", "b", "c", "d"])) for a in agents}
    eps = draw(world.episode_lists(max_eps=6, owners=agents + ["world"], allow_missing_ts=False, ids=["e1", "e2", "e3", "e4", "e5", "e6"]))
    words = [w for e in eps for w in (e.get("text") or "").lower().split()] + [nd["label"] for g in graphs.values() for nd in g["nodes"] if nd["label"]]
    tasks = [(a, " ".join(draw(st.lists(st.sampled_from(words or world.VOCAB[:3]), min_size=1, max_size=3)))) for a in agents]
    return {"agents": agents, "graphs": graphs, "eps": eps, "tasks": tasks, "workers": draw(st.sampled_from([2, 4, 8]))}


def check_real(case, rec=None):
    import clematis.engine.orchestrator as orch

    over = {"perf": {"enabled": True, "parallel": {"enabled": True, "agents": True, "max_workers": case["workers"]}},
            "t1": {"cache": {"enabled": False}}, "t2": {"cache": {"enabled": False}}, "t4": {"cache": {"enabled": False}}}
    w = {"graphs": case["graphs"], "eps": case["eps"], "agents": {a: [f"g{a}"] for a in case["agents"]}}

    world.reset_engine_globals()
    with world.sandbox() as r2:
        eng = observe.Engine(copy.deepcopy(w), r2)
        cfg = eng.cfg(over)
        seq_lines = []
        for a, text in case["tasks"]:
            r = eng.turn(a, text, cfg, 5, world.NOW_MS)
            if r["exc"] is not None:
                return  # the sequential loop itself fails: not this property's business
            seq_lines.append(r["line"])
        seq_logs = observe.canonical(eng.logs())
        seq_state = observe.state_digest(eng.state)
    world.reset_engine_globals()
    with world.sandbox() as r1:
        eng = observe.Engine(copy.deepcopy(w), r1)
        cfg = eng.cfg(over)
        eng.state["graphs_by_agent"] = {a: [f"g{a}"] for a in case["agents"]}
        ctx = world.make_ctx(cfg, agent="driver", turn_id=5, now_ms=world.NOW_MS, enc=world.BowEncoder())
        try:
            res = orch._run_agents_parallel_batch(ctx, eng.state, [tuple(t) for t in case["tasks"]])
            exc = None
        except Exception as e:
            res, exc = None, e
        finally:
            import clematis.engine.util.io_logging as iol
            iol.disable_staging()
        par_logs = observe.canonical(eng.logs())
        par_state = observe.state_digest(eng.state)
        par_state.pop("graphs_by_agent", None)
    known = rec is not None and rec.is_known("batch-driver-real-pipeline")
    if rec is not None:
        rec.evaluations += 1
    if exc is not None:
        if known:
            return
        raise Violation(f"real pipeline through the batch driver raised {type(exc).__name__}: {exc}", case, "real:raises")
    if [r.line for r in res] != seq_lines or par_logs != seq_logs or par_state != seq_state:
        if known:
            return
        raise Violation(f"real pipeline through the batch driver differs from the sequential loop: lines {[r.line for r in res]} vs "
                        f"{seq_lines}; streams differing {[k for k in set(par_logs) | set(seq_logs) if par_logs.get(k) != seq_logs.get(k)]}",
                        case, "real:differs")
    if rec is not None:
        rec.case(nontrivial=True, dig=digest(case), labels=["real"], sample={"tasks": case["tasks"]})


def sub_real(rec, seed, shard, nshards, n=20, shrink=True):
    run_hypothesis(rec, seed, real_batches(), lambda c: check_real(c, rec), max_examples=n, shrink=shrink, name="real")


def probe_real_pipeline():
    """True while the real pipeline through the driver still raises / differs (minimal: two disjoint agents)."""
    case = {"agents": ["A", "B"], "graphs": {"gA": {"nodes": [{"id": "a", "label": "apple", "tags": []}], "edges": []},
                                             "gB": {"nodes": [{"id": "b", "label": "pear", "tags": []}], "edges": []}},
            "eps": [], "tasks": [("A", "apple"), ("B", "pear")], "workers": 2}
    try:
        check_real(case, None)
    except Violation:
        return True
    return False


KNOWN_PROBES = {"batch-driver-real-pipeline": probe_real_pipeline}


def _fix(c):
    from checks.c03 import _fix_floats
    c = _fix_floats(c)
    if "tasks" in c:
        c["tasks"] = [tuple(t) for t in c["tasks"]]
    if "payloads" in c:
        for p in c["payloads"].values():
            p["logs"] = [tuple(x) for x in p["logs"]]
    return c


SUBCHECKS = [
    Sub("contract", sub_contract, quick={"n": 150}, thorough={"n": 3000}, shards_quick=6, shards_thorough=16,
        replay=lambda c: check_batch(_fix(c), None)),
    Sub("real", sub_real, quick={"n": 15}, thorough={"n": 200}, shards_quick=2, shards_thorough=8,
        replay=lambda c: check_real(_fix(c), None)),
]
