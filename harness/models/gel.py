"""Reference model of the GEL edge map for C18, written from the property statement and its named mechanisms
(threshold, sort (-score, id), top-k, pair cap, clamp; half-life decay with floor drop; canonical undirected
key; non-destructive merge/split; promotion = concept node + concept<->member edges).

The model never imports the code under test.  It works on *abstract* items (id, score) -- the check builds the
concrete tuples/dicts/objects from the same abstract description, so the item adapter is checked too.

Only what the property talks about is modelled: the key set, endpoints, weight, rel and the per-edge
co-activation counter (how the pair cap is observed).  Bookkeeping fields (last_seen_turn, updated_at) are not.
"""
from __future__ import annotations

import math
from typing import Any, Dict, List, Optional, Tuple

SEP = "→"  # the arrow used in edge keys


def canon(a: Any, b: Any) -> Tuple[str, str, str]:
    """One key per unordered pair: endpoints as strings, smaller first."""
    sa, sb = str(a), str(b)
    lo, hi = (sa, sb) if sa <= sb else (sb, sa)
    return lo + SEP + hi, lo, hi


def clamp(x: float, lo: float, hi: float) -> float:
    if x > hi:
        return hi
    if x < lo:
        return lo
    return x


def select_used(items: List[Tuple[Any, Any]], threshold: float, top_k: int) -> List[Tuple[str, float]]:
    """Items scoring >= threshold (NaN never does), strongest first, ties by id, first top_k."""
    act = []
    for i, s in items:
        s = float(s)
        if s >= threshold:
            act.append((str(i), s))
    act.sort(key=lambda t: (-t[1], t[0]))
    return act[: int(top_k)]


def decay_factor(dt: int, half_life: float) -> float:
    dt = max(0, int(dt))
    if half_life <= 0:
        return 0.0
    return 0.5 ** (float(dt) / float(half_life))


class GelModel:
    def __init__(self, g: Dict[str, Any]):
        """`g`: the (complete) graph.* settings the history runs under."""
        self.threshold = float(g["coactivation_threshold"])
        self.top_k = int(g["observe_top_k"])
        self.pair_cap = int(g["pair_cap_per_obs"])
        self.mode = str(g["update"]["mode"])
        self.alpha = float(g["update"]["alpha"])
        self.lo = float(g["update"]["clamp_min"])
        self.hi = float(g["update"]["clamp_max"])
        self.half_life = float(g["decay"]["half_life_turns"])
        self.floor = float(g["decay"]["floor"])
        self.promo = dict(g.get("promotion") or {})
        self.edges: Dict[str, Dict[str, Any]] = {}
        self.nodes: Dict[str, Dict[str, Any]] = {}
        self.concepts = 0
        # keys whose weight the statement's first clause covers right now (set by an observation -- the clamp
        # was just applied -- or an in-range initial weight; kept by ticks; cleared by a promotion overwrite)
        self.covered: Dict[str, bool] = {}

    # ------------------------------------------------------------------ initial content
    def put_edge(self, a: str, b: str, w: float, rel: str = "coact", coact: int = 0) -> str:
        key, lo, hi = canon(a, b)
        self.edges[key] = {"src": lo, "dst": hi, "w": float(w), "rel": rel, "coact": int(coact)}
        self.covered[key] = self.lo <= float(w) <= self.hi
        return key

    # ------------------------------------------------------------------ observe
    def observe(self, items: List[Tuple[Any, Any]]) -> Dict[str, Any]:
        used = select_used(items, self.threshold, self.top_k)
        info = {"k_in": len(items), "k_used": len(used), "used_ids": sorted({i for i, _ in used}), "touched": [],
                "clamp_hits": 0, "pairs": 0, "possible_pairs": len(used) * (len(used) - 1) // 2}
        if not used or self.pair_cap == 0:
            return info
        left = self.pair_cap
        for x in range(len(used)):
            for y in range(x + 1, len(used)):
                if left <= 0:
                    break
                key, lo, hi = canon(used[x][0], used[y][0])
                e = self.edges.get(key)
                if e is None:
                    e = {"src": lo, "dst": hi, "w": 0.0, "rel": "coact", "coact": 0}
                    self.edges[key] = e
                w = e["w"]
                if self.mode == "proportional":
                    raw = w + self.alpha * (1.0 - min(abs(w), 1.0))
                else:
                    raw = w + self.alpha
                nw = clamp(raw, self.lo, self.hi)
                if nw != raw:
                    info["clamp_hits"] += 1
                e["w"] = nw
                e["coact"] += 1
                self.covered[key] = True
                info["touched"].append(key)
                info["pairs"] += 1
                left -= 1
        return info

    # ------------------------------------------------------------------ tick
    def tick(self, dt: int) -> Dict[str, Any]:
        f = decay_factor(dt, self.half_life)
        dropped, changed, at_floor = [], 0, 0
        for key in list(self.edges):
            e = self.edges[key]
            w2 = e["w"] * f
            if abs(w2) < self.floor:
                dropped.append(key)
                del self.edges[key]
                self.covered.pop(key, None)
            else:
                if abs(w2) == self.floor and self.floor > 0:
                    at_floor += 1
                if w2 != e["w"]:
                    changed += 1
                e["w"] = w2
        return {"factor": f, "dropped": dropped, "changed": changed, "at_floor": at_floor}

    # ------------------------------------------------------------------ promotion
    def plan_promotions(self, clusters: List[Dict[str, Any]]) -> List[Dict[str, Any]]:
        mode = str(self.promo.get("label_mode", "lexmin"))
        topk = int(self.promo.get("topk_label_ids", 3))
        aw = clamp(float(self.promo.get("attach_weight", 0.5)), -1.0, 1.0)
        out = []
        for c in clusters or []:
            members = sorted(c.get("nodes") or [])
            if not members:
                continue
            label = "+".join(members[: max(1, topk)]) if mode == "concat_k" else members[0]
            out.append({"concept_id": "c::" + members[0], "label": label, "members": members, "attach_weight": aw})
        out.sort(key=lambda p: p["concept_id"])
        return out

    def promote(self, promo: Dict[str, Any]) -> Dict[str, Any]:
        cid = str(promo["concept_id"])
        w = float(promo.get("attach_weight", 0.5))
        new_node = cid not in self.nodes
        if new_node:
            self.nodes[cid] = {"id": cid, "label": str(promo.get("label", cid)), "attrs": {"kind": "concept"}}
            self.concepts += 1
        keys, overwrote = [], 0
        for m in [str(x) for x in promo.get("members", [])]:
            key, lo, hi = canon(cid, m)
            e = self.edges.get(key)
            if e is None:
                self.edges[key] = {"src": lo, "dst": hi, "w": w, "rel": "concept", "coact": 0}
            else:
                overwrote += 1
                e["rel"] = "concept"
                e["w"] = w
            self.covered[key] = False
            keys.append(key)
        return {"new_node": new_node, "keys": keys, "overwrote": overwrote}

    # ------------------------------------------------------------------ views
    def view(self) -> Dict[str, Tuple[str, str, float, str, int]]:
        return {k: (e["src"], e["dst"], e["w"], e["rel"], e["coact"]) for k, e in self.edges.items()}


def exp2_close(w_before: float, w_after: float, dt: int, half_life: float, rel: float = 1e-12) -> bool:
    """Independent cross-check of the decay amount: w_after ~= w_before * 2**(-dt/H)."""
    if half_life <= 0:
        return w_after == 0.0
    want = w_before * math.exp2(-max(0, int(dt)) / float(half_life))
    return abs(w_after - want) <= rel * abs(want) + 1e-320  # absolute slack: subnormal results lose precision
