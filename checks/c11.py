"""C11 — retrieval honours scope, thresholds, caps and documented ranking.

Oracles: envelope predicates on every case (k, distinct, owner scope, threshold, tier pools, score agreement,
documented final order recomputed from the reported cosine), exact differential against the float64 reference on
well-separated cases, completeness when fewer than k are returned, rerank layers = pure permutation (metamorphic:
same case with hybrid/quality off), residual nudges (existing node, label occurs in a used hit, caps).
"""
from __future__ import annotations

import copy
from types import SimpleNamespace

from hypothesis import strategies as st

from harness.runner import Sub, Violation, run_hypothesis, digest
from harness import world
from harness.models import t2 as ref

LEVEL = "exploration"
RULE = ("Hypothesis-generated memories (0-12 episodes; owners A/B/world/''; timestamps on both sides of the recency "
        "window incl. the boundary second; clusters; importance in and out of [0,1]; bag-of-words / explicit / zero / "
        "missing vectors, duplicates), queries from the same vocabulary, validated t2 configs (k, threshold, tiers in "
        "any subset/order, recent days, top-m, ranking weights, owner scope x agent, hybrid/quality/MMR), GEL edge "
        "sets, graphs for residual labels, slice cap t2_k, residual cap. Non-trivial = (>=2 owners present and, under "
        "agent/world scope, a foreign episode would have ranked in the top-k) OR k truncates the eligible set OR a "
        "rerank layer actually reordered. Distinct = digest of the whole case.")
ASSUMPTIONS = ["implementation scores in float32, reference in float64: 1e-6 band at thresholds / ties; exact "
               "differential only on well-separated cases (no score inside a band); reported scores compared at 1e-5",
               "episodes without ts: membership in the exact tier is not asserted (code falls back to the wall clock)",
               "T2 stage cache disabled here (cache transparency is C05); in-memory backend"]

SCORE_TOL = 1e-5
BAND = ref.BAND
TIERS = ["exact_semantic", "cluster_semantic", "archive"]


# ---------------------------------------------------------------- strategies

_TIER_SETS = st.one_of(
    st.just(None),
    st.lists(st.sampled_from(TIERS), min_size=1, max_size=3, unique=True),
    st.lists(st.sampled_from(TIERS + ["bogus_tier"]), min_size=1, max_size=4, unique=True),
)
_W = st.sampled_from([0.0, 0.05, 0.2, 0.25, 0.5, 0.75, 1.0])


def _with_offset(ts: str, minutes: int) -> str:
    """The same instant as `ts`, spelled in the zone UTC+minutes (e.g. 2025-01-02T05:00:00+10:00)."""
    import datetime as _dt

    t = _dt.datetime.fromisoformat(ts.replace("Z", "+00:00"))
    if t.tzinfo is None:
        t = t.replace(tzinfo=_dt.timezone.utc)
    return t.astimezone(_dt.timezone(_dt.timedelta(minutes=minutes))).isoformat()


@st.composite
def cases(draw):
    eps = draw(world.episode_lists())
    graphs = {}
    for gid in draw(st.lists(st.sampled_from(["g1", "g2"]), max_size=2, unique=True)):
        graphs[gid] = draw(world.graph_specs(max_nodes=5, max_edges=3))
    t2 = {"cache": {"enabled": False}}
    t2["k_retrieval"] = draw(st.sampled_from([1, 2, 3, 5, 10, 64]))
    t2["sim_threshold"] = draw(st.sampled_from([0.0, 0.0, 0.1, 0.3, 0.3, 0.45, 0.5, 0.6, -1.0, 1.0, 0.7071067811865476, -0.2]))
    tiers = draw(_TIER_SETS)
    if tiers is not None:
        t2["tiers"] = tiers
    if draw(st.booleans()):
        t2["exact_recent_days"] = draw(st.sampled_from([0, 1, 7, 30, 365]))
    if draw(st.booleans()):
        t2["clusters_top_m"] = draw(st.sampled_from([0, 1, 2, 3, 10]))
    if draw(st.booleans()):
        t2["ranking"] = {"alpha_sim": draw(_W), "beta_recency": draw(_W), "gamma_importance": draw(_W)}
    t2["owner_scope"] = draw(st.sampled_from(["any", "agent", "agent", "world", "AGENT"]))
    if draw(st.booleans()):
        t2["residual_cap_per_turn"] = draw(st.sampled_from([0, 1, 2, 32]))
    layers = draw(st.sampled_from(["none", "none", "hybrid", "quality", "quality+mmr", "all"]))
    if layers in ("hybrid", "all"):
        t2["hybrid"] = {"enabled": True, "anchor_top_m": draw(st.sampled_from([1, 2, 8])),
                        "walk_hops": draw(st.sampled_from([1, 2])), "edge_threshold": draw(st.sampled_from([0.0, 0.1, 0.5])),
                        "lambda_graph": draw(st.sampled_from([0.25, 1.0])), "degree_norm": draw(st.sampled_from(["none", "invdeg"])),
                        "max_bonus": draw(st.sampled_from([0.5, 0.0, 5.0])), "k_max": draw(st.sampled_from([1, 2, 3, 128]))}
    if layers in ("quality", "quality+mmr", "all"):
        q = {"enabled": True, "fusion": {"alpha_semantic": draw(st.sampled_from([0.0, 0.3, 0.6, 1.0]))}}
        if layers != "quality":
            q["mmr"] = {"enabled": True, "lambda": draw(st.sampled_from([0.0, 0.5, 1.0])), "k": draw(st.sampled_from([1, 2, 10]))}
        t2["quality"] = q
    agent = draw(st.sampled_from(["A", "B", "C", "world"]))
    # the same instants written with an explicit non-UTC offset (ISO-8601 allows it): windows and recency must not move
    for e in eps:
        if e.get("ts") and draw(st.sampled_from([False, False, True])):
            e["ts"] = _with_offset(e["ts"], draw(st.sampled_from([600, -600, 330, -45, 840])))
    ep_words = [w for e in eps for w in (e.get("text") or "").lower().split()] or world.VOCAB
    words = draw(st.lists(st.sampled_from(ep_words + world.VOCAB[:3]), min_size=0, max_size=4))
    text = " ".join(words)
    node_ids = sorted({n["id"] for s in graphs.values() for n in s["nodes"]})
    t1_ids = draw(st.lists(st.sampled_from(node_ids), max_size=3, unique=True)) if node_ids else []
    slice_k = draw(st.sampled_from([None, None, 0, 1, 2, 100]))
    gel = draw(world.gel_graphs([e["id"] for e in eps])) if layers in ("hybrid", "all") else None
    return {"eps": eps, "graphs": graphs, "t2": t2, "agent": agent, "text": text, "t1_ids": t1_ids, "slice_k": slice_k,
            "gel": gel, "layers": layers, "workers": draw(st.sampled_from([None, None, 2, 3, 4, 8]))}


# ---------------------------------------------------------------- running the real stage

def run_t2(case, t2_override=None):
    from clematis.engine.stages.t2.core import t2_semantic

    world.reset_engine_globals()
    t2 = copy.deepcopy(case["t2"] if t2_override is None else t2_override)
    over = {"t2": t2}
    if case.get("workers"):
        # the sharded (parallel) retrieval path must honour exactly the same contract as the sequential walk
        over["perf"] = {"parallel": {"enabled": True, "t2": True, "max_workers": int(case["workers"])}}
    cfg = world.validated_cfg(over)
    ctx = world.make_ctx(cfg, agent=case["agent"], now=world.NOW_ISO, now_ms=world.NOW_MS, enc=world.BowEncoder())
    if case["slice_k"] is not None:
        ctx.slice_budgets = {"t2_k": case["slice_k"]}
    store = world.build_store(case["graphs"])
    idx = world.build_index(case["eps"])
    state = {"store": store, "active_graphs": list(case["graphs"].keys()), "mem_index": idx}
    if case.get("gel") is not None:
        state["graph"] = copy.deepcopy(case["gel"])
    t1 = SimpleNamespace(graph_deltas=[{"op": "upsert_node", "id": i} for i in case["t1_ids"]], metrics={})
    sd0, id0 = world.store_digest(store), world.index_digest(idx)
    res = t2_semantic(ctx, state, case["text"], t1)
    if world.store_digest(store) != sd0 or world.index_digest(idx) != id0:
        raise Violation("t2_semantic modified the graph store or the memory index", case, "mutates")
    return res, cfg, state


def ref_query_text(case):
    """Query = input text + sorted labels of the nodes T1 touched (documented query expansion)."""
    labels = []
    for gid, spec in case["graphs"].items():
        nodes = {}
        for n in spec["nodes"]:
            nodes[n["id"]] = n
        for nid in sorted(set(case["t1_ids"])):
            n = nodes.get(nid)
            if n and n["label"]:
                labels.append(n["label"])
    seen, out = set(), []
    for lb in labels:
        if lb not in seen:
            seen.add(lb)
            out.append(lb)
    q = (case["text"] or "").strip()
    if out:
        q = (q + " " + " ".join(sorted(out))).strip()
    return q


def check_case(case, rec=None):
    try:
        res, cfg, state = run_t2(case)
    except Violation:
        raise
    except Exception as e:
        raise Violation(f"t2_semantic raised {type(e).__name__}: {e}", case, "raises")
    t2cfg = dict(cfg["t2"])
    k = int(t2cfg["k_retrieval"])
    thr = float(t2cfg["sim_threshold"])
    owner = ref.owner_of(t2cfg.get("owner_scope", "any"), case["agent"])
    by_id = {str(e["id"]): e for e in case["eps"]}
    hits = list(res.retrieved)
    ids = [str(h.id) for h in hits]
    m = res.metrics

    # ---- envelope
    if len(hits) > k:
        raise Violation(f"{len(hits)} episodes returned, k={k}", case, "k-exceeded")
    if len(set(ids)) != len(ids):
        raise Violation(f"duplicate episodes returned: {ids}", case, "dup-episode")
    if m.get("k_returned") != len(hits):
        raise Violation(f"k_returned={m.get('k_returned')} but {len(hits)} hits", case, "k-returned")
    for h in hits:
        e = by_id.get(str(h.id))
        if e is None:
            raise Violation(f"returned episode {h.id!r} does not exist", case, "ghost-episode")
        if owner is not None and e.get("owner") != owner:
            raise Violation(f"episode {h.id} owned by {e.get('owner')!r} returned under scope "
                            f"{t2cfg.get('owner_scope')!r} for agent {case['agent']!r}", case, "owner-scope")
        if e.get("vec_full") is None:
            raise Violation(f"episode {h.id} without a vector returned", case, "no-vector")

    q_text = ref_query_text(case)
    qvec = world.BowEncoder().vec(q_text)
    R = ref.Ref(case["eps"], qvec, t2cfg, world.NOW_ISO, owner)
    for h in hits:
        s = R.score(by_id[str(h.id)])
        if s < thr - BAND:
            raise Violation(f"episode {h.id} has cosine {s!r} below threshold {thr!r}", case, "below-threshold")
        if abs(float(h.score) - s) > SCORE_TOL:
            raise Violation(f"episode {h.id}: reported score {h.score!r}, cosine is {s!r}", case, "score-mismatch")

    # tier pools (union over configured tiers)
    known_tiers = [t for t in R.tiers if t in TIERS]
    pools = {}
    for t in known_tiers:
        p = R.pool(t)
        pools[t] = {str(e["id"]) for e in (p or [])}
    allowed = set().union(*pools.values()) if pools else set()
    cluster_amb = any("cluster" in a for a in R.ambiguous)
    for h in hits:
        if str(h.id) not in allowed and not cluster_amb:
            raise Violation(f"episode {h.id} is in no configured tier's candidate set (tiers {R.tiers}, recency window "
                            f"{R.days}d, top-m {R.topm})", case, "tier-rule")

    R2 = ref.Ref(case["eps"], qvec, t2cfg, world.NOW_ISO, owner)
    want = R2.result()
    well_separated = not R2.ambiguous
    layers_on = case["layers"] != "none"

    # ---- reference: base (no rerank layers) result
    if layers_on:
        base_t2 = copy.deepcopy(case["t2"])
        base_t2.pop("hybrid", None)
        base_t2.pop("quality", None)
        base_res = run_t2(case, t2_override=base_t2)[0]
        base_hits = list(base_res.retrieved)
    else:
        base_res, base_hits = res, hits
    base_ids = [str(h.id) for h in base_hits]

    if well_separated:
        want_ids = [i for i, _, _ in want]
        if base_ids != want_ids:
            raise Violation(f"retrieved {base_ids}, documented retrieval gives {want_ids} (query {q_text!r}, owner {owner!r})",
                            case, "ref-ids")
    else:
        # completeness when fewer than k returned: every strictly eligible episode must be present
        if len(base_ids) < k and not cluster_amb:
            for t, pool in pools.items():
                for eid in pool:
                    e = by_id[eid]
                    if e.get("vec_full") is None:
                        continue
                    if R.score(e) >= thr + BAND and eid not in base_ids and e.get("ts"):
                        raise Violation(f"eligible episode {eid} (cos {R.score(e)!r} >= {thr!r}, tier {t}) missing although only "
                                        f"{len(base_ids)} < k={k} returned", case, "incomplete")
    # documented final order, recomputed from the reported cosine (same documented formula)
    comb = [R.combined(by_id[str(h.id)], float(h.score)) for h in base_hits]
    for i in range(len(base_hits) - 1):
        a, b = comb[i], comb[i + 1]
        if a < b - 1e-12:
            raise Violation(f"order violates the combined score: {base_ids[i]} ({a!r}) before {base_ids[i + 1]} ({b!r})", case, "order")
        if a == b and not (base_ids[i] < base_ids[i + 1]):
            raise Violation(f"tie not broken by id: {base_ids[i]} before {base_ids[i + 1]}", case, "tie-break")

    # ---- rerank layers only permute
    reordered = False
    if layers_on:
        if sorted(ids) != sorted(base_ids):
            raise Violation(f"rerank layers ({case['layers']}) changed the retrieved set: {ids} vs {base_ids}", case, "rerank-set")
        if m.get("k_returned") != base_res.metrics.get("k_returned"):
            raise Violation("rerank layers changed k_returned", case, "rerank-k")
        reordered = ids != base_ids

    # ---- slice cap and residual nudges
    cap = case["slice_k"]
    want_used = len(hits) if cap is None else min(len(hits), max(0, int(cap)))
    if m.get("k_used") != want_used:
        raise Violation(f"k_used={m.get('k_used')} with {len(hits)} hits and slice cap {cap}", case, "k-used")
    rcap = int(t2cfg.get("residual_cap_per_turn", 32))
    resid = res.graph_deltas_residual
    rids = [d.get("id") for d in resid]
    if any(set(d) != {"op", "id"} or d["op"] != "upsert_node" for d in resid):
        raise Violation(f"unexpected residual delta shape {resid}", case, "residual-shape")
    if len(set(rids)) != len(rids) or rids != sorted(rids):
        raise Violation(f"residual ids not unique/sorted: {rids}", case, "residual-order")
    if len(rids) > rcap:
        raise Violation(f"{len(rids)} residual nudges exceed residual cap {rcap}", case, "residual-cap")
    if m.get("k_residual") != len(rids):
        raise Violation("k_residual does not match the residual list", case, "k-residual")
    used_texts = [(h.text or "").lower() for h in hits[:want_used]]
    node_labels = {}
    for spec in case["graphs"].values():
        for n in spec["nodes"]:
            node_labels.setdefault(n["id"], set())
            if n["label"]:
                node_labels[n["id"]].add(n["label"].lower())
    for nid in rids:
        if nid not in node_labels:
            raise Violation(f"residual nudge for node {nid!r} which exists in no active graph", case, "residual-ghost")
        if not any(lb and lb in t for lb in node_labels[nid] for t in used_texts):
            raise Violation(f"residual nudge for {nid!r}: none of its labels {sorted(node_labels[nid])} occurs in the "
                            f"{want_used} hits actually used", case, "residual-label")

    if rec is not None:
        owners = {e.get("owner") for e in case["eps"]}
        foreign_would_rank = False
        if owner is not None and len(owners) >= 2:
            Rany = ref.Ref(case["eps"], qvec, t2cfg, world.NOW_ISO, None)
            anyres = [i for i, _, _ in Rany.result()]
            foreign_would_rank = any(by_id[i].get("owner") != owner for i in anyres)
        eligible = len({e["id"] for e in R.vis if e.get("vec_full") is not None and R.score(e) >= thr})
        truncates = eligible > k and len(hits) == k
        nt = foreign_would_rank or truncates or reordered
        labels = [f"scope={str(t2cfg.get('owner_scope')).lower()}", f"layers={case['layers']}", "path=" + ("sharded" if case.get("workers") else "sequential")] + \
                 (["well_separated"] if well_separated else ["ambiguous"]) + (["foreign_would_rank"] if foreign_would_rank else []) + \
                 (["truncates"] if truncates else []) + (["reordered"] if reordered else []) + (["hits>0"] if hits else []) + \
                 (["residual>0"] if rids else [])
        rec.case(nontrivial=nt, dig=digest(case) if nt else None, labels=labels,
                 sample={"query": q_text, "agent": case["agent"], "t2": case["t2"],
                         "episodes": [(e["id"], e.get("owner"), e.get("text"), e.get("ts")) for e in case["eps"]][:8],
                         "retrieved": [(h.id, round(float(h.score), 6)) for h in hits], "residual": rids} if nt else None)


def sub_retrieval(rec, seed, shard, nshards, n=400, shrink=True):
    run_hypothesis(rec, seed, cases(), lambda c: check_case(c, rec), max_examples=n, shrink=shrink, name="retrieval")


def replay_case(case):
    from checks.c03 import _fix_floats
    check_case(_fix_floats(case), None)


SUBCHECKS = [
    Sub("retrieval", sub_retrieval, quick={"n": 300}, thorough={"n": 5000}, shards_quick=8, shards_thorough=16,
        replay=replay_case),
]
